#!/bin/sh
# Offline setup after a fresh restore: full Coq build, extraction + OCaml driver, Rust harness (debug).
set -e
cd "$(dirname "$0")"
export CARGO_NET_OFFLINE=true CARGO_TARGET_DIR=/verif/.cache/target
mkdir -p .cache evidence replays
python3 - <<'PY'
import sys, os
sys.path.insert(0, "checks")
import common
common.regen_params()
PY
(cd coq && coq_makefile -f _CoqProject -o Makefile && timeout 7000 make -j16)
(cd ocaml && ./build.sh)
[ -f harness/Cargo.lock ] || cp /repo/Cargo.lock harness/Cargo.lock
(cd harness && timeout 7000 cargo build --offline --features verif_hooks --bins)
echo setup done
