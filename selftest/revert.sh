#!/bin/sh
# usage: revert.sh "<grep pattern of a fix commit subject>" <check id> [more check ids]
# Applies the reverse of that fix to /repo's working tree, runs the checks, restores the tree.
pat="$1"; shift
C=$(git -C /repo log --format=%h --grep="$pat" | head -1)
[ -n "$C" ] || { echo "no commit for $pat"; exit 2; }
git -C /repo diff $C~1 $C > /tmp/revert_$$.diff
if ! git -C /repo apply -R /tmp/revert_$$.diff 2>/dev/null; then echo "cannot revert $C cleanly"; rm -f /tmp/revert_$$.diff; exit 3; fi
for chk in "$@"; do
  out=$(cd /verif && ./check $chk 2>&1 | grep -E "VIOLATION|quick:" | tr '\n' ' ')
  echo "revert[$pat] $chk => $out"
done
git -C /repo checkout -- .
rm -f /tmp/revert_$$.diff
