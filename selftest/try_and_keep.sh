#!/bin/sh
# usage: try_and_keep.sh <patch.diff> <check id> <corpus name> <comment> [seed]   keeps the oracle replay of a detected change as a corpus entry
P="$1"; C="$2"; N="$3"; M="$4"; S="${5:-1}"
git -C /repo apply "$P" || { echo "patch does not apply"; exit 2; }
out=$(cd /verif && ./check $C --seed $S 2>&1 | grep -E "VIOLATION")
git -C /repo checkout -- .
echo "$out"
R=$(echo "$out" | sed -n 's/.*replay=\([^ ]*\).*/\1/p' | head -1)
case "$R" in *_oracle_*) mkdir -p /verif/corpus/$C; python3 /verif/selftest/keep_replay.py "$R" /verif/corpus/$C/$N.sim "$M";; *) echo "no oracle replay";; esac
