#!/bin/sh
# usage: run_seeded.sh [Sxx ...]   (development tool, not a registered check)
# Applies each seeded change to /repo's working tree, runs the checks its meta.json names under checks_run.caught_by (quick tier,
# seed 1), restores /repo, and prints one line per change: DETECTED / MISSED.  Never run it while another check uses /repo.
cd /verif || exit 2
ids="$@"
[ -z "$ids" ] && ids=$(ls seeded | sort -V)
for s in $ids; do
  p=/verif/seeded/$s/patch.diff
  [ -f "$p" ] || continue
  checks=$(python3 -c "import json;print(' '.join(json.load(open('/verif/seeded/$s/meta.json')).get('checks_run',{}).get('caught_by',{}).keys()))")
  git -C /repo apply "$p" 2>/dev/null || { echo "$s patch-does-not-apply"; continue; }
  hit=""
  for c in $checks; do
    if ./check $c 2>&1 | grep -q "^VIOLATION"; then hit="$hit $c"; break; fi
  done
  git -C /repo checkout -- .
  if [ -n "$hit" ]; then echo "$s DETECTED by$hit"; else echo "$s MISSED (tried: $checks)"; fi
done
rm -f /verif/replays/*_checker_*.json
