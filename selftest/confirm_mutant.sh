#!/bin/sh
# usage: confirm_mutant.sh <worktree dir>   (worktree with the change applied and tests/zz_demo.rs present)
W="$1"
export CARGO_NET_OFFLINE=true CARGO_TARGET_DIR=$W/target CARGO_PROFILE_DEV_DEBUG=0 CARGO_PROFILE_TEST_DEBUG=0
cd "$W" || exit 2
echo "== suite with change (zz_demo excluded)"
mv tests/zz_demo.rs /tmp/zz_demo_$$.rs
cargo test --workspace --no-fail-fast --offline 2>&1 | grep -E "^test result|FAILED|failed" | awk '{p+=$4; f+=$6} END {print "passed", p, "failed", f}'
mv /tmp/zz_demo_$$.rs tests/zz_demo.rs
echo "== demo with change"
cargo test --offline --test zz_demo 2>&1 | grep -E "^test result" | head -3
echo "== demo without change"
git diff -- src bevy_replicon_example_backend > /tmp/confirm_$$.diff
git apply -R /tmp/confirm_$$.diff
cargo test --offline --test zz_demo 2>&1 | grep -E "^test result" | head -3
git apply /tmp/confirm_$$.diff; rm -f /tmp/confirm_$$.diff
git status --short | head -5
