#!/bin/sh
# usage: try_mutant.sh <patch.diff> <check id>...   applies the patch to /repo, runs the checks, restores /repo
P="$1"; shift
git -C /repo apply "$P" || { echo "patch does not apply"; exit 2; }
for chk in "$@"; do
  out=$(cd /verif && ./check $chk 2>&1 | grep -E "VIOLATION|quick:" | tr '\n' ' ')
  echo "mutant[$(basename $(dirname $(dirname $P)))] $chk => $out"
done
git -C /repo checkout -- .
