#!/usr/bin/env python3
"""usage: keep_replay.py <replays/Cxx_oracle_*.json> <corpus/Cxx/name.sim> "<comment>"
Stores the (shrunk) script of an oracle replay as a corpus entry that runs first on every check."""
import json, sys
d = json.load(open(sys.argv[1]))
det = d["detail"]
script = det.get("script") or det["problem"].get("script")
with open(sys.argv[2], "w") as f:
    f.write("# %s\n" % (sys.argv[3] if len(sys.argv) > 3 else ""))
    f.write("# failure seen: %s\n" % det.get("problem", {}).get("why", ""))
    if det.get("settle_from") is not None:
        f.write("# settle_from=%d\n" % det["settle_from"])
    f.write("\n".join(script) + "\n")
print("kept", len(script), "lines")
