(* Lemmas about Pack/Packing.v (packing part of C10). *)
From RV Require Import Lib.Res Wire.Varint Wire.Varint_proofs Pack.Packing.
From Coq Require Import ZifyBool ZifyN.
Open Scope N_scope.
Ltac Zify.zify_post_hook ::= Z.div_mod_to_equations.
Arguments N.add : simpl never. Arguments N.mul : simpl never. Arguments N.pow : simpl never.
Arguments N.ltb : simpl never. Arguments N.leb : simpl never. Arguments N.div : simpl never.
Arguments N.modulo : simpl never. Arguments N.sub : simpl never. Arguments N.eqb : simpl never.

(* ------------------------------------------------------------------ *)
(* sizes                                                               *)

Lemma varint_len_fuel_venc n v : varint_len_fuel n v = N.of_nat (length (venc n v)).
Proof.
  revert v; induction n as [|n IH]; intros v; cbn [varint_len_fuel venc]; [reflexivity|].
  destruct (v <? 128); [reflexivity|]. cbn [length]. rewrite IH. lia.
Qed.

Lemma varint_len_venc v : varint_len v = N.of_nat (length (venc_u64 v)).
Proof. apply varint_len_fuel_venc. Qed.

Lemma varint_len_bounds v : 1 <= varint_len v <= 10.
Proof.
  split.
  - unfold varint_len. change 10%nat with (S 9). cbn [varint_len_fuel].
    destruct (v <? 128); lia.
  - rewrite varint_len_venc. unfold venc_u64. pose proof (venc_length 10 v). lia.
Qed.

Lemma varint_len_small v : v < 128 -> varint_len v = 1.
Proof.
  intros H. unfold varint_len. change 10%nat with (S 9). cbn [varint_len_fuel].
  destruct (v <? 128) eqn:E; [reflexivity|lia].
Qed.

Lemma mutate_index_size_2 i : mutate_index_size i = 2.
Proof. reflexivity. Qed.

Lemma mutate_index_advance_spec i : i < 65536 ->
  fst (mutate_index_advance i) = i /\ snd (mutate_index_advance i) < 65536 /\
  snd (mutate_index_advance i) = (if i =? 65535 then 0 else i + 1).
Proof.
  intros H. unfold mutate_index_advance. cbn [fst snd].
  destruct (i =? 65535) eqn:E; lia.
Qed.

Lemma sumN_app a b : sumN (a ++ b) = sumN a + sumN b.
Proof. unfold sumN. induction a as [|x a IH]; cbn [app fold_right]; [lia|]. rewrite IH. lia. Qed.

Lemma sumN_chunks (cs : list (list (N * N))) :
  sumN (map chunk_size cs) = sumN (map entity_size (concat cs)).
Proof.
  induction cs as [|c cs IH]; [reflexivity|].
  cbn [map concat]. rewrite map_app, sumN_app, <- IH. reflexivity.
Qed.

Lemma written_entity_len_eq e : written_entity_len e = entity_size e.
Proof. unfold written_entity_len, entity_size. rewrite varint_len_venc. reflexivity. Qed.

Lemma entity_size_pos e : 1 <= entity_size e.
Proof. unfold entity_size. pose proof (varint_len_bounds (snd e)). lia. Qed.

(* ------------------------------------------------------------------ *)
(* list slices                                                         *)

Definition slice_tot {A} (l : list A) (r : range) : list A :=
  firstn (snd r - fst r) (skipn (fst r) l).

Lemma skipn_skipn' {A} (a b : nat) (l : list A) : skipn a (skipn b l) = skipn (b + a) l.
Proof.
  revert l; induction b as [|b IH]; intros l; [reflexivity|].
  destruct l as [|x l]; [rewrite !skipn_nil; reflexivity|]. cbn [skipn Nat.add]. apply IH.
Qed.

Lemma firstn_add {A} (a b : nat) (l : list A) :
  firstn (a + b) l = firstn a l ++ firstn b (skipn a l).
Proof.
  revert l; induction a as [|a IH]; intros l; [reflexivity|].
  destruct l as [|x l]; [rewrite !firstn_nil; reflexivity|].
  cbn [Nat.add firstn skipn app]. f_equal. apply IH.
Qed.

Lemma slice_tot_split {A} (l : list A) (s e n : nat) : (s <= e)%nat -> (e <= n)%nat ->
  slice_tot l (s, e) ++ slice_tot l (e, n) = slice_tot l (s, n).
Proof.
  intros H1 H2. unfold slice_tot. cbn [fst snd].
  replace (skipn e l) with (skipn (e - s) (skipn s l)) by (rewrite skipn_skipn'; f_equal; lia).
  replace (n - s)%nat with ((e - s) + (n - e))%nat by lia.
  symmetry. apply firstn_add.
Qed.

Lemma slice_tot_all {A} (l : list A) : slice_tot l (O, length l) = l.
Proof. unfold slice_tot. cbn [fst snd skipn]. rewrite Nat.sub_0_r. apply firstn_all. Qed.

Lemma slice_tot_empty {A} (l : list A) n : slice_tot l (n, n) = [].
Proof. unfold slice_tot. cbn [fst snd]. rewrite Nat.sub_diag. reflexivity. Qed.

Lemma slice_tot_app_l {A} (l l' : list A) r : (snd r <= length l)%nat ->
  slice_tot (l ++ l') r = slice_tot l r.
Proof.
  destruct r as [s e]. unfold slice_tot. cbn [fst snd]. intros H.
  rewrite skipn_app, firstn_app, skipn_length.
  replace (e - s - (length l - s))%nat with O by lia. rewrite firstn_O, app_nil_r. reflexivity.
Qed.

Lemma slice_tot_to_end {A} (l : list A) s : slice_tot l (s, length l) = skipn s l.
Proof.
  unfold slice_tot. cbn [fst snd]. apply firstn_all2. rewrite skipn_length. lia.
Qed.

Lemma slice_ok {A} (l : list A) s e : (s <= e)%nat -> (e <= length l)%nat ->
  slice l (s, e) = Ok (slice_tot l (s, e)).
Proof.
  intros H1 H2. unfold slice, slice_tot. cbn [fst snd].
  destruct (s <=? e)%nat eqn:E1; [|apply Nat.leb_gt in E1; lia].
  destruct (e <=? length l)%nat eqn:E2; [|apply Nat.leb_gt in E2; lia].
  reflexivity.
Qed.

Lemma slice_tot_min {A} (l : list A) s e : (s <= e)%nat ->
  slice_tot l (Nat.min s (length l), Nat.min e (length l)) = slice_tot l (s, e).
Proof.
  intros H. unfold slice_tot. cbn [fst snd].
  destruct (Nat.le_gt_cases s (length l)) as [Hs | Hs].
  - rewrite (Nat.min_l s) by lia.
    destruct (Nat.le_gt_cases e (length l)) as [He | He].
    + rewrite (Nat.min_l e) by lia. reflexivity.
    + rewrite (Nat.min_r e) by lia.
      rewrite !firstn_all2; [reflexivity| |]; rewrite skipn_length; lia.
  - rewrite (Nat.min_r s), (Nat.min_r e) by lia.
    rewrite !skipn_all2 by lia. rewrite !firstn_nil. reflexivity.
Qed.

Lemma concat_singletons {A} (l : list A) : concat (map (fun x => [x]) l) = l.
Proof. induction l as [|x l IH]; [reflexivity|]. cbn [map concat app]. f_equal. exact IH. Qed.

Lemma concat_concat {A} (l : list (list (list A))) : concat (map (@concat A) l) = concat (concat l).
Proof.
  induction l as [|x l IH]; [reflexivity|]. cbn [map concat]. rewrite concat_app, IH. reflexivity.
Qed.

Lemma map_res_ok {A B} (f : A -> res B) (g : A -> B) l :
  Forall (fun x => f x = Ok (g x)) l -> map_res f l = Ok (map g l).
Proof.
  induction 1 as [|x l Hx _ IH]; [reflexivity|]. cbn [map_res map]. rewrite Hx, IH. reflexivity.
Qed.

Lemma map_res_length {A B} (f : A -> res B) l out : map_res f l = Ok out -> length out = length l.
Proof.
  revert out; induction l as [|x l IH]; intros out H; cbn [map_res] in H.
  - inversion H. reflexivity.
  - destruct (f x) as [y| |]; cbn [bind] in H; try discriminate.
    destruct (map_res f l) as [ys| |]; cbn [bind] in H; try discriminate.
    inversion H. cbn [length]. f_equal. apply IH. reflexivity.
Qed.

(* EntityChunks::iter_flatten over a valid range is the concatenation of the chunks
   EntityChunks::iter yields at the positions of the range *)
Lemma iter_flatten_spec {A} (related : list (list A)) (standalone : list A) s e :
  (s <= e)%nat -> (e <= length related + length standalone)%nat ->
  iter_flatten related standalone (s, e)
  = Ok (concat (slice_tot (chunks_of related standalone) (s, e))).
Proof.
  intros H1 H2. unfold iter_flatten.
  destruct (s <=? length related + length standalone)%nat eqn:E1; [|apply Nat.leb_gt in E1; lia].
  destruct (e <=? length related + length standalone)%nat eqn:E2; [|apply Nat.leb_gt in E2; lia].
  cbn [negb].
  rewrite slice_ok by lia. cbn [bind].
  rewrite slice_ok by lia. cbn [bind].
  rewrite slice_tot_min by exact H1. f_equal.
  unfold chunks_of, slice_tot. cbn [fst snd].
  rewrite skipn_app, firstn_app, concat_app, skipn_length. f_equal.
  rewrite skipn_map, firstn_map, concat_singletons. f_equal. lia.
Qed.

(* ------------------------------------------------------------------ *)
(* ranges that tile an interval                                        *)

Fixpoint tiles (k : nat) (ms : list message) (n : nat) : Prop :=
  match ms with
  | [] => k = n
  | m :: r => fst (snd m) = k /\ (fst (snd m) <= snd (snd m))%nat /\ tiles (snd (snd m)) r n
  end.

Lemma tiles_le k ms n : tiles k ms n -> (k <= n)%nat.
Proof.
  revert k; induction ms as [|m r IH]; intros k H; cbn [tiles] in H; [lia|].
  destruct H as [H1 [H2 H3]]. apply IH in H3. lia.
Qed.

Lemma tiles_snoc k ms s e x : tiles k ms s -> (s <= e)%nat -> tiles k (ms ++ [(x, (s, e))]) e.
Proof.
  revert k; induction ms as [|m r IH]; intros k H He; cbn [tiles app] in *.
  - cbn [fst snd]. subst. auto.
  - destruct H as [H1 [H2 H3]]. auto.
Qed.

Lemma tiles_slices {A} (l : list A) k ms n : tiles k ms n -> (n <= length l)%nat ->
  Forall (fun m : message => slice l (snd m) = Ok (slice_tot l (snd m))) ms /\
  concat (map (fun m : message => slice_tot l (snd m)) ms) = slice_tot l (k, n).
Proof.
  revert k; induction ms as [|m r IH]; intros k H Hn; cbn [tiles] in H.
  - subst. split; [constructor|]. rewrite slice_tot_empty. reflexivity.
  - destruct m as [x [s e]]. cbn [fst snd] in *. destruct H as [-> [H2 H3]].
    pose proof (tiles_le _ _ _ H3) as Hle.
    destruct (IH _ H3 Hn) as [F C]. split.
    + constructor; [|exact F]. cbn [snd]. apply slice_ok; lia.
    + cbn [map concat snd]. rewrite C. apply slice_tot_split; lia.
Qed.

(* ------------------------------------------------------------------ *)
(* can_pack / must_split                                               *)

Lemma can_pack_ok message_size add mtu : 0 < mtu -> exists b, can_pack message_size add mtu = Ok b.
Proof.
  intros H. unfold can_pack. destruct (mtu =? 0) eqn:E; [lia|]. eauto.
Qed.

Lemma can_pack_zero message_size add : can_pack message_size add 0 = Panic.
Proof. reflexivity. Qed.

Lemma mod_le_cases a m : 0 < m -> a <= m -> a mod m = (if a =? m then 0 else a).
Proof.
  intros Hm Ha. destruct (a =? m) eqn:E.
  - apply N.eqb_eq in E. subst. apply N.mod_same. lia.
  - apply N.mod_small. lia.
Qed.

(* below the limit can_pack is plain "still fits" *)
Lemma can_pack_small message_size add mtu : 0 < message_size -> message_size <= mtu ->
  can_pack message_size add mtu = Ok ((message_size <? mtu) && (message_size + add <=? mtu)).
Proof.
  intros H0 H. unfold can_pack. destruct (mtu =? 0) eqn:E; [lia|].
  rewrite mod_le_cases by lia. f_equal. destruct (message_size =? mtu) eqn:E2; lia.
Qed.

Lemma must_split_ok h b sz mtu : 0 < mtu -> exists f, must_split h b sz mtu = Ok f.
Proof.
  intros H. unfold must_split. destruct (b =? 0); [eauto|].
  destruct (can_pack_ok (h + b) sz mtu H) as [p1 ->]. cbn [bind].
  destruct p1; [eauto|].
  destruct (can_pack_ok (h + sz) b mtu H) as [p2 ->]. cbn [bind]. eauto.
Qed.

(* no division at all while the body is empty *)
Lemma must_split_empty_body h sz mtu : must_split h 0 sz mtu = Ok false.
Proof. reflexivity. Qed.

Lemma must_split_fits h b sz mtu : 0 < h -> h + b <= mtu -> h + sz <= mtu ->
  must_split h b sz mtu = Ok false -> h + (b + sz) <= mtu.
Proof.
  intros Hh Hb Hs. unfold must_split. destruct (b =? 0) eqn:Eb; [lia|].
  rewrite can_pack_small by lia. cbn [bind].
  destruct ((h + b <? mtu) && (h + b + sz <=? mtu)) eqn:E1; [lia|].
  rewrite can_pack_small by lia. cbn [bind].
  destruct ((h + sz <? mtu) && (h + sz + b <=? mtu)) eqn:E2; [lia|].
  cbn [negb]. discriminate.
Qed.

Lemma must_split_single h b sz mtu : 0 < h -> h + (b + sz) <= mtu ->
  must_split h b sz mtu = Ok false.
Proof.
  intros Hh H. unfold must_split. destruct (b =? 0) eqn:Eb; [reflexivity|].
  rewrite can_pack_small by lia. cbn [bind].
  destruct ((h + b <? mtu) && (h + b + sz <=? mtu)) eqn:E1; [reflexivity|].
  rewrite can_pack_small by lia. cbn [bind].
  destruct ((h + sz <? mtu) && (h + sz + b <=? mtu)) eqn:E2; [reflexivity|]. lia.
Qed.

(* ------------------------------------------------------------------ *)
(* the chunk loop                                                      *)

Lemma split_step_eq meta mtu st c st' : split_step meta mtu st c = Ok st' ->
  exists f, must_split (header_size st) (body_size st) (chunk_size c) mtu = Ok f /\
    st' = if f then
            {| header_size := meta + 2; body_size := 0 + chunk_size c;
               chunks_range := (snd (chunks_range st), S (snd (chunks_range st)));
               messages := messages st ++ [(body_size st + header_size st, chunks_range st)] |}
          else
            {| header_size := header_size st; body_size := body_size st + chunk_size c;
               chunks_range := (fst (chunks_range st), S (snd (chunks_range st)));
               messages := messages st |}.
Proof.
  unfold split_step. intros H.
  destruct (must_split (header_size st) (body_size st) (chunk_size c) mtu) as [f| |];
    cbn [bind] in H; try discriminate.
  exists f. split; [reflexivity|]. inversion H. destruct f; reflexivity.
Qed.

Lemma split_step_ok meta mtu st c : 0 < mtu -> exists st', split_step meta mtu st c = Ok st'.
Proof.
  intros H. unfold split_step.
  destruct (must_split_ok (header_size st) (body_size st) (chunk_size c) mtu H) as [f ->].
  cbn [bind]. eauto.
Qed.

Lemma split_loop_ok meta mtu : 0 < mtu -> forall cs st, exists st', split_loop meta mtu st cs = Ok st'.
Proof.
  intros H cs; induction cs as [|c cs IH]; intros st; cbn [split_loop]; [eauto|].
  destruct (split_step_ok meta mtu st c H) as [st1 ->]. cbn [bind]. apply IH.
Qed.

(* invariant rule: [done] is the list of chunks already consumed *)
Lemma split_loop_inv (Inv : list (list (N * N)) -> split_state -> Prop) meta mtu all :
  (forall done c rest st st', done ++ c :: rest = all -> Inv done st ->
     split_step meta mtu st c = Ok st' -> Inv (done ++ [c]) st') ->
  forall cs done st st', done ++ cs = all -> Inv done st ->
    split_loop meta mtu st cs = Ok st' -> Inv all st'.
Proof.
  intros Hstep cs; induction cs as [|c cs IH]; intros done st st' Hall Hinv H; cbn [split_loop] in H.
  - inversion H; subst. rewrite app_nil_r. exact Hinv.
  - destruct (split_step meta mtu st c) as [st1| |] eqn:E; cbn [bind] in H; try discriminate.
    apply (IH (done ++ [c]) st1 st'); [rewrite <- app_assoc; exact Hall| |exact H].
    eapply Hstep; eauto.
Qed.

(* what a finished message records about the consumed chunks *)
Definition message_ok (hdr : N) (chunks : list (list (N * N))) (m : message) : Prop :=
  fst m = hdr + sumN (map chunk_size (slice_tot chunks (snd m))) /\
  (snd (snd m) <= length chunks)%nat.

Definition inv_acc (meta : N) (done : list (list (N * N))) (st : split_state) : Prop :=
  header_size st = meta + 2 /\
  snd (chunks_range st) = length done /\
  (fst (chunks_range st) <= snd (chunks_range st))%nat /\
  tiles O (messages st) (fst (chunks_range st)) /\
  body_size st = sumN (map chunk_size (skipn (fst (chunks_range st)) done)) /\
  Forall (message_ok (meta + 2) done) (messages st).

Lemma message_ok_app hdr done c m : message_ok hdr done m -> message_ok hdr (done ++ [c]) m.
Proof.
  intros [H1 H2]. split.
  - rewrite slice_tot_app_l by exact H2. exact H1.
  - rewrite app_length. lia.
Qed.

Lemma message_ok_current hdr done c body s :
  (s <= length done)%nat -> body = sumN (map chunk_size (skipn s done)) ->
  message_ok hdr (done ++ c) (body + hdr, (s, length done)).
Proof.
  intros Hs Hb. split; cbn [fst snd].
  - rewrite slice_tot_app_l by (cbn [snd]; lia). rewrite slice_tot_to_end. lia.
  - rewrite app_length. lia.
Qed.

Lemma inv_acc_step meta mtu done c st st' : inv_acc meta done st ->
  split_step meta mtu st c = Ok st' -> inv_acc meta (done ++ [c]) st'.
Proof.
  intros (Hh & He & Hse & Ht & Hb & Hm) H.
  destruct (split_step_eq _ _ _ _ _ H) as [f [_ ->]].
  destruct st as [h b [s e] ms]. cbn [header_size body_size chunks_range messages fst snd] in *.
  subst h e.
  assert (Hold : Forall (message_ok (meta + 2) (done ++ [c])) ms)
    by (eapply Forall_impl; [|exact Hm]; intros m; apply message_ok_app).
  destruct f; unfold inv_acc; cbn [header_size body_size chunks_range messages fst snd].
  - split; [reflexivity|]. split; [rewrite app_length; cbn [length]; lia|].
    split; [lia|]. split; [apply tiles_snoc; assumption|]. split.
    + rewrite skipn_app, skipn_all, Nat.sub_diag. cbn [skipn app map sumN fold_right]. lia.
    + apply Forall_app. split; [exact Hold|]. constructor; [|constructor].
      apply message_ok_current; assumption.
  - split; [reflexivity|]. split; [rewrite app_length; cbn [length]; lia|].
    split; [lia|]. split; [exact Ht|]. split; [|exact Hold].
    rewrite skipn_app. replace (s - length done)%nat with O by lia.
    cbn [skipn]. rewrite map_app, sumN_app, Hb. cbn [map sumN fold_right]. lia.
Qed.

(* structure of the result of the first loop: the ranges tile 0..length chunks in order
   and every accounted size is header + the sizes of the chunks of its range *)
Lemma split_ranges_spec utl stl track mtu chunks ms :
  split_ranges utl stl track mtu chunks = Ok ms ->
  tiles O ms (length chunks) /\
  Forall (message_ok (header_size_of utl stl track) chunks) ms.
Proof.
  unfold split_ranges, header_size_of. rewrite mutate_index_size_2.
  set (meta := metadata_size utl stl track).
  destruct (split_loop meta mtu _ chunks) as [st| |] eqn:E; cbn [bind]; try discriminate.
  assert (I : inv_acc meta chunks st).
  { refine (split_loop_inv (inv_acc meta) meta mtu chunks _ chunks [] _ st eq_refl _ E).
    - intros done c rest st0 st1 _ Hi Hs. eapply inv_acc_step; eauto.
    - unfold inv_acc. cbn. repeat split; try lia. constructor. }
  destruct I as (Hh & He & Hse & Ht & Hb & Hm).
  destruct st as [h b [s e] msgs]. cbn [header_size body_size chunks_range messages fst snd] in *.
  subst h e.
  destruct (negb (range_is_empty (s, length chunks)) || track) eqn:Ep; intros H; inversion H; subst ms.
  - split; [apply tiles_snoc; assumption|].
    apply Forall_app. split; [exact Hm|]. constructor; [|constructor].
    rewrite <- (app_nil_r chunks) at 1. apply message_ok_current; assumption.
  - split; [|exact Hm].
    unfold range_is_empty in Ep. cbn [fst snd] in Ep.
    destruct (s <? length chunks)%nat eqn:E2; [cbn in Ep; discriminate|].
    apply Nat.ltb_ge in E2. replace (length chunks) with s by lia. exact Ht.
Qed.

Lemma split_ranges_ok utl stl track mtu chunks : 0 < mtu ->
  exists ms, split_ranges utl stl track mtu chunks = Ok ms.
Proof.
  intros H. unfold split_ranges.
  match goal with |- context [split_loop ?m ?x ?s ?c] =>
    destruct (split_loop_ok m x H c s) as [st ->] end.
  cbn [bind]. destruct (negb (range_is_empty (chunks_range st)) || track); eauto.
Qed.

(* ------------------------------------------------------------------ *)
(* split: messages as (accounted size, chunks)                         *)

Definition message_chunks (chunks : list (list (N * N))) (m : message) : N * list (list (N * N)) :=
  (fst m, slice_tot chunks (snd m)).

Lemma split_eq utl stl track mtu chunks ms :
  split_ranges utl stl track mtu chunks = Ok ms ->
  split utl stl track mtu chunks = Ok (map (message_chunks chunks) ms).
Proof.
  intros H. unfold split. rewrite H. cbn [bind].
  destruct (split_ranges_spec _ _ _ _ _ _ H) as [Ht _].
  destruct (tiles_slices chunks _ _ _ Ht (le_n _)) as [F _].
  apply map_res_ok. eapply Forall_impl; [|exact F].
  intros m Hm. cbn beta in *. rewrite Hm. reflexivity.
Qed.

Lemma split_inv utl stl track mtu chunks out :
  split utl stl track mtu chunks = Ok out ->
  exists ms, split_ranges utl stl track mtu chunks = Ok ms /\ out = map (message_chunks chunks) ms.
Proof.
  intros H. destruct (split_ranges utl stl track mtu chunks) as [ms| |] eqn:E.
  - exists ms. split; [reflexivity|]. rewrite (split_eq _ _ _ _ _ _ E) in H. congruence.
  - unfold split in H. rewrite E in H. discriminate.
  - unfold split in H. rewrite E in H. discriminate.
Qed.

(* nothing lost, duplicated or reordered; a chunk is never divided *)
Theorem split_partition utl stl track mtu chunks out :
  split utl stl track mtu chunks = Ok out -> concat (map snd out) = chunks.
Proof.
  intros H. destruct (split_inv _ _ _ _ _ _ H) as [ms [E ->]].
  destruct (split_ranges_spec _ _ _ _ _ _ E) as [Ht _].
  destruct (tiles_slices chunks _ _ _ Ht (le_n _)) as [_ C].
  rewrite map_map. unfold message_chunks. cbn [snd]. rewrite C. apply slice_tot_all.
Qed.

(* accounted size = header + sizes of the chunks of the message *)
Theorem split_accounted utl stl track mtu chunks out :
  split utl stl track mtu chunks = Ok out ->
  Forall (fun m => fst m = header_size_of utl stl track + sumN (map chunk_size (snd m))) out.
Proof.
  intros H. destruct (split_inv _ _ _ _ _ _ H) as [ms [E ->]].
  destruct (split_ranges_spec _ _ _ _ _ _ E) as [_ Hm].
  apply Forall_forall. intros x Hx. apply in_map_iff in Hx. destruct Hx as [m [<- Hin]].
  rewrite Forall_forall in Hm. destruct (Hm m Hin) as [H1 _]. exact H1.
Qed.

Theorem split_no_panic utl stl track mtu chunks : 0 < mtu ->
  exists out, split utl stl track mtu chunks = Ok out.
Proof.
  intros H. destruct (split_ranges_ok utl stl track mtu chunks H) as [ms E].
  eexists. apply (split_eq _ _ _ _ _ _ E).
Qed.

Lemma header_size_of_eq utl stl track :
  header_size_of utl stl track = metadata_size utl stl track + 2.
Proof. reflexivity. Qed.

(* --- fits --- *)

Definition inv_fits (meta mtu : N) (st : split_state) : Prop :=
  header_size st = meta + 2 /\ meta + 2 + body_size st <= mtu /\
  Forall (fun m : message => fst m <= mtu) (messages st).

Lemma inv_fits_step meta mtu c st st' : meta + 2 + chunk_size c <= mtu ->
  inv_fits meta mtu st -> split_step meta mtu st c = Ok st' -> inv_fits meta mtu st'.
Proof.
  intros Hc (Hh & Hb & Hm) H.
  destruct (split_step_eq _ _ _ _ _ H) as [f [Hf ->]].
  destruct st as [h b [s e] ms]. cbn [header_size body_size chunks_range messages fst snd] in *.
  subst h. destruct f; unfold inv_fits; cbn [header_size body_size chunks_range messages].
  - split; [reflexivity|]. split; [lia|].
    apply Forall_app. split; [exact Hm|]. constructor; [|constructor]. cbn [fst]. lia.
  - split; [reflexivity|]. split; [|exact Hm].
    pose proof (must_split_fits (meta + 2) b (chunk_size c) mtu) as F. lia.
Qed.

Lemma split_ranges_fits utl stl track mtu chunks ms :
  header_size_of utl stl track <= mtu ->
  (forall c, In c chunks -> header_size_of utl stl track + chunk_size c <= mtu) ->
  split_ranges utl stl track mtu chunks = Ok ms ->
  Forall (fun m : message => fst m <= mtu) ms.
Proof.
  rewrite header_size_of_eq. intros Hh Hc.
  unfold split_ranges. rewrite mutate_index_size_2.
  set (meta := metadata_size utl stl track) in *.
  destruct (split_loop meta mtu _ chunks) as [st| |] eqn:E; cbn [bind]; try discriminate.
  assert (I : inv_fits meta mtu st).
  { refine (split_loop_inv (fun _ => inv_fits meta mtu) meta mtu chunks _ chunks [] _ st eq_refl _ E).
    - intros done c rest st0 st1 Hall Hi Hs. eapply inv_fits_step; eauto.
      apply Hc. rewrite <- Hall. apply in_elt.
    - unfold inv_fits. cbn [header_size body_size messages]. repeat split; [lia|constructor]. }
  destruct I as (Hh' & Hb & Hm).
  destruct (negb (range_is_empty (chunks_range st)) || track); intros H; inversion H; subst ms.
  - apply Forall_app. split; [exact Hm|]. constructor; [|constructor]. cbn [fst]. lia.
  - exact Hm.
Qed.

(* when every chunk fits next to the (reserved) header, no accounted size exceeds the limit *)
Theorem split_fits utl stl track mtu chunks out :
  header_size_of utl stl track <= mtu ->
  (forall c, In c chunks -> header_size_of utl stl track + chunk_size c <= mtu) ->
  split utl stl track mtu chunks = Ok out ->
  Forall (fun m => fst m <= mtu) out.
Proof.
  intros Hh Hc H. destruct (split_inv _ _ _ _ _ _ H) as [ms [E ->]].
  pose proof (split_ranges_fits _ _ _ _ _ _ Hh Hc E) as F.
  apply Forall_forall. intros x Hx. apply in_map_iff in Hx. destruct Hx as [m [<- Hin]].
  rewrite Forall_forall in F. exact (F m Hin).
Qed.

(* the header hypothesis is only needed for an empty chunk list *)
Corollary split_fits_nonempty utl stl track mtu chunks out : chunks <> [] ->
  (forall c, In c chunks -> header_size_of utl stl track + chunk_size c <= mtu) ->
  split utl stl track mtu chunks = Ok out ->
  Forall (fun m => fst m <= mtu) out.
Proof.
  intros Hne Hc. apply split_fits; [|exact Hc].
  destruct chunks as [|c cs]; [congruence|]. specialize (Hc c (or_introl eq_refl)). lia.
Qed.

(* --- single --- *)

Definition inv_single (meta : N) (done : list (list (N * N))) (st : split_state) : Prop :=
  header_size st = meta + 2 /\ messages st = [] /\ chunks_range st = (O, length done) /\
  body_size st = sumN (map chunk_size done).

Lemma split_ranges_single utl stl track mtu chunks :
  header_size_of utl stl track + sumN (map chunk_size chunks) <= mtu ->
  split_ranges utl stl track mtu chunks
  = Ok (if negb (range_is_empty (O, length chunks)) || track
        then [(sumN (map chunk_size chunks) + header_size_of utl stl track, (O, length chunks))]
        else []).
Proof.
  rewrite header_size_of_eq. intros Hfit.
  unfold split_ranges. rewrite mutate_index_size_2.
  set (meta := metadata_size utl stl track) in *.
  match goal with |- context [split_loop ?m ?x ?s ?c] =>
    destruct (split_loop_ok m x ltac:(lia) c s) as [st E]; rewrite E end.
  cbn [bind].
  assert (I : inv_single meta chunks st).
  { refine (split_loop_inv (inv_single meta) meta mtu chunks _ chunks [] _ st eq_refl _ E).
    - intros done c rest st0 st1 Hall (Hh & Hm & Hr & Hb) Hs.
      destruct (split_step_eq _ _ _ _ _ Hs) as [f [Hf ->]].
      destruct st0 as [h b [s e] ms]. cbn [header_size body_size chunks_range messages fst snd] in *.
      subst h ms. inversion Hr; subst s e. subst b.
      rewrite must_split_single in Hf.
      + inversion Hf; subst f. unfold inv_single.
        cbn [header_size body_size chunks_range messages fst snd].
        repeat split.
        * rewrite app_length. cbn [length]. do 2 f_equal. lia.
        * rewrite map_app, sumN_app. cbn [map sumN fold_right]. lia.
      + lia.
      + rewrite <- Hall in Hfit. rewrite map_app, sumN_app in Hfit.
        cbn [map sumN fold_right] in Hfit. unfold sumN in *. lia.
    - unfold inv_single. cbn. auto. }
  destruct I as (Hh & Hm & Hr & Hb). rewrite Hr, Hm, Hb, Hh.
  destruct (negb (range_is_empty (O, length chunks)) || track); reflexivity.
Qed.

(* when everything fits into one message exactly one is produced (none if there is nothing
   to send and tracking is off), and it holds all the chunks *)
Theorem split_single utl stl track mtu chunks :
  header_size_of utl stl track + sumN (map chunk_size chunks) <= mtu ->
  split utl stl track mtu chunks
  = Ok (match chunks with
        | [] => if track then [(header_size_of utl stl track, [])] else []
        | _ => [(sumN (map chunk_size chunks) + header_size_of utl stl track, chunks)]
        end).
Proof.
  intros Hfit. rewrite (split_eq _ _ _ _ _ _ (split_ranges_single _ _ _ _ _ Hfit)).
  f_equal. destruct chunks as [|c cs].
  - cbn [length range_is_empty fst snd Nat.ltb Nat.leb negb orb]. destruct track; [|reflexivity].
    cbn [map]. unfold message_chunks. cbn [fst snd]. rewrite slice_tot_empty.
    reflexivity.
  - replace (negb (range_is_empty (O, length (c :: cs))) || track) with true by reflexivity.
    cbn [map]. unfold message_chunks. cbn [fst snd]. rewrite slice_tot_all. reflexivity.
Qed.

Corollary split_single_length utl stl track mtu chunks out :
  header_size_of utl stl track + sumN (map chunk_size chunks) <= mtu ->
  split utl stl track mtu chunks = Ok out ->
  (length out <= 1)%nat /\ ((chunks <> [] \/ track = true) -> length out = 1%nat).
Proof.
  intros Hfit H. rewrite (split_single _ _ _ _ _ Hfit) in H. inversion H; subst out.
  destruct chunks as [|c cs]; [destruct track|]; cbn [length]; split; try lia.
  intros [Hc | Ht]; congruence.
Qed.

(* ------------------------------------------------------------------ *)
(* emission loop                                                       *)

Definition final_size (track : bool) (count message_size : N) : N :=
  if track then message_size - (MAX_COUNT_SIZE - varint_len count) else message_size.

Lemma tiles_ranges k ms n : tiles k ms n ->
  Forall (fun m : message => (k <= fst (snd m) <= snd (snd m))%nat /\ (snd (snd m) <= n)%nat) ms.
Proof.
  revert k; induction ms as [|m r IH]; intros k H; cbn [tiles] in H; [constructor|].
  destruct H as [H1 [H2 H3]]. pose proof (tiles_le _ _ _ H3). constructor; [lia|].
  eapply Forall_impl; [|apply IH; exact H3]. cbn beta. intros a Ha. lia.
Qed.

Lemma emitted_len_eq utl stl track count ents :
  emitted_len utl stl track count ents
  = utl + stl + (if track then varint_len count else 0) + 2 + sumN (map entity_size ents).
Proof.
  unfold emitted_len. rewrite <- varint_len_venc.
  rewrite (map_ext _ _ written_entity_len_eq). reflexivity.
Qed.

Lemma chunks_of_length {A} (related : list (list A)) standalone :
  length (chunks_of related standalone) = (length related + length standalone)%nat.
Proof. unfold chunks_of. rewrite app_length, map_length. reflexivity. Qed.

Lemma emit_message_ok utl stl track count related standalone m :
  message_ok (header_size_of utl stl track) (chunks_of related standalone) m ->
  (fst (snd m) <= snd (snd m))%nat ->
  emit_message utl stl track count related standalone m
    = Ok (final_size track count (fst m), snd m) /\
  final_size track count (fst m)
    = emitted_len utl stl track count (concat (slice_tot (chunks_of related standalone) (snd m))) /\
  final_size track count (fst m) <= fst m.
Proof.
  intros [Hsz Hb] Hr. destruct m as [sz [s e]]. cbn [fst snd] in *.
  rewrite chunks_of_length in Hb.
  pose proof (varint_len_bounds count) as Hv.
  rewrite emitted_len_eq, <- sumN_chunks.
  set (S := sumN (map chunk_size (slice_tot (chunks_of related standalone) (s, e)))) in *.
  assert (Hfin : final_message_size track count sz = Ok (final_size track count sz)).
  { unfold final_message_size, final_size, MAX_COUNT_SIZE. destruct track; [|reflexivity].
    destruct (10 <? varint_len count) eqn:E1; [lia|].
    destruct (sz <? 10 - varint_len count) eqn:E2; [|reflexivity].
    rewrite header_size_of_eq in Hsz. unfold metadata_size, MAX_COUNT_SIZE in Hsz. lia. }
  assert (Heq : final_size track count sz
                = utl + stl + (if track then varint_len count else 0) + 2 + S).
  { rewrite Hsz, header_size_of_eq. unfold final_size, metadata_size, MAX_COUNT_SIZE.
    destruct track; lia. }
  split; [|split; [exact Heq|]].
  - unfold emit_message. cbn [fst snd]. rewrite Hfin. cbn [bind].
    rewrite iter_flatten_spec by lia. cbn [bind].
    rewrite emitted_len_eq, <- sumN_chunks. fold S. rewrite <- Heq, N.eqb_refl. reflexivity.
  - unfold final_size. destruct track; lia.
Qed.

Definition sent_message (track : bool) (count : N) (m : message) : N * range :=
  (final_size track count (fst m), snd m).

(* the second loop never panics (in particular debug_assert_eq!(message.len(), message_size)
   holds) and what it sends has the adjusted accounted size *)
Lemma emit_ok utl stl track mtu related standalone ms :
  split_ranges utl stl track mtu (chunks_of related standalone) = Ok ms ->
  emit utl stl track related standalone ms
  = Ok (map (sent_message track (N.of_nat (length ms))) ms).
Proof.
  intros H. destruct (split_ranges_spec _ _ _ _ _ _ H) as [Ht Hm].
  pose proof (tiles_ranges _ _ _ Ht) as Hr.
  unfold emit. apply map_res_ok. rewrite Forall_forall in *. intros m Hin.
  destruct (emit_message_ok utl stl track (N.of_nat (length ms)) related standalone m) as [E _].
  - apply Hm; exact Hin.
  - specialize (Hr m Hin). cbn beta in Hr. lia.
  - exact E.
Qed.

Theorem emitted_eq_accounted utl stl track mtu related standalone ms :
  split_ranges utl stl track mtu (chunks_of related standalone) = Ok ms ->
  let count := N.of_nat (length ms) in
  emit utl stl track related standalone ms = Ok (map (sent_message track count) ms) /\
  Forall (fun m : message =>
            final_size track count (fst m)
            = emitted_len utl stl track count
                (concat (slice_tot (chunks_of related standalone) (snd m))) /\
            final_size track count (fst m) <= fst m) ms.
Proof.
  intros H count. split; [apply (emit_ok _ _ _ _ _ _ _ H)|].
  destruct (split_ranges_spec _ _ _ _ _ _ H) as [Ht Hm].
  pose proof (tiles_ranges _ _ _ Ht) as Hr.
  rewrite Forall_forall in *. intros m Hin.
  destruct (emit_message_ok utl stl track count related standalone m) as [_ E].
  - apply Hm; exact Hin.
  - specialize (Hr m Hin). cbn beta in Hr. lia.
  - exact E.
Qed.

Corollary emitted_len_le_accounted utl stl track mtu related standalone ms :
  split_ranges utl stl track mtu (chunks_of related standalone) = Ok ms ->
  Forall (fun m : message =>
            emitted_len utl stl track (N.of_nat (length ms))
              (concat (slice_tot (chunks_of related standalone) (snd m))) <= fst m) ms.
Proof.
  intros H. destruct (emitted_eq_accounted _ _ _ _ _ _ _ H) as [_ F].
  eapply Forall_impl; [|exact F]. cbn beta. intros m [H1 H2]. rewrite <- H1. exact H2.
Qed.

(* without tracking nothing is adjusted; with tracking 10 - varint_len count bytes are given back *)
Lemma final_size_untracked count sz : final_size false count sz = sz.
Proof. reflexivity. Qed.
Lemma final_size_tracked count sz : 10 <= sz ->
  final_size true count sz + 10 = sz + varint_len count.
Proof. intros H. pose proof (varint_len_bounds count). unfold final_size, MAX_COUNT_SIZE. lia. Qed.

(* ------------------------------------------------------------------ *)
(* entity numbers and the hook                                         *)

Lemma number_from_length {A} k (l : list A) : length (number_from k l) = length l.
Proof. revert k; induction l as [|x l IH]; intros k; cbn [number_from length]; [reflexivity|]. f_equal. apply IH. Qed.

Lemma number_groups_length {A} k (g : list (list A)) : length (number_groups k g) = length g.
Proof. revert k; induction g as [|x g IH]; intros k; cbn [number_groups length]; [reflexivity|]. f_equal. apply IH. Qed.

Lemma number_from_app {A} k (a b : list A) :
  number_from k (a ++ b) = number_from k a ++ number_from (k + N.of_nat (length a)) b.
Proof.
  revert k; induction a as [|x a IH]; intros k; cbn [app number_from length].
  - f_equal. lia.
  - f_equal. rewrite IH. f_equal. f_equal. lia.
Qed.

Lemma number_groups_concat {A} k (g : list (list A)) :
  concat (number_groups k g) = number_from k (concat g).
Proof.
  revert k; induction g as [|x g IH]; intros k; cbn [number_groups concat]; [reflexivity|].
  rewrite number_from_app, IH. reflexivity.
Qed.

Lemma number_from_In {A} k (l : list A) i :
  In i (number_from k l) <-> k <= i < k + N.of_nat (length l).
Proof.
  revert k; induction l as [|x l IH]; intros k; cbn [number_from In length].
  - lia.
  - rewrite IH. lia.
Qed.

Lemma number_from_NoDup {A} k (l : list A) : NoDup (number_from k l).
Proof.
  revert k; induction l as [|x l IH]; intros k; cbn [number_from]; constructor; [|apply IH].
  rewrite number_from_In. lia.
Qed.

Definition id_chunks (related : list (list (N * N))) (standalone : list (N * N)) : list (list N) :=
  chunks_of (number_groups 0 related)
            (number_from (N.of_nat (length (concat related))) standalone).

Lemma id_chunks_concat related standalone :
  concat (id_chunks related standalone) = number_from 0 (concat related ++ standalone).
Proof.
  unfold id_chunks, chunks_of. rewrite concat_app, concat_singletons, number_groups_concat.
  rewrite number_from_app. reflexivity.
Qed.

Definition hook_message (track : bool) (count : N) (ids : list (list N)) (m : message)
  : N * list N :=
  (final_size track count (fst m), concat (slice_tot ids (snd m))).

Lemma mutations_split_eq utl stl related standalone track mtu ms :
  split_ranges utl stl track mtu (chunks_of related standalone) = Ok ms ->
  mutations_split utl stl related standalone track mtu
  = Ok (map (hook_message track (N.of_nat (length ms)) (id_chunks related standalone)) ms).
Proof.
  intros H. unfold mutations_split. rewrite H. cbn [bind].
  rewrite (emit_ok _ _ _ _ _ _ _ H). cbn [bind].
  destruct (split_ranges_spec _ _ _ _ _ _ H) as [Ht _].
  pose proof (tiles_ranges _ _ _ Ht) as Hr. rewrite chunks_of_length in Hr.
  rewrite <- (map_map (sent_message track (N.of_nat (length ms)))
                      (fun lm : N * range => (fst lm, concat (slice_tot (id_chunks related standalone) (snd lm))))).
  apply map_res_ok. apply Forall_forall. intros lm Hin.
  apply in_map_iff in Hin. destruct Hin as [m [<- Hin]].
  rewrite Forall_forall in Hr. specialize (Hr m Hin). cbn beta in Hr.
  destruct m as [sz [s e]]. unfold sent_message. cbn [fst snd] in *.
  rewrite iter_flatten_spec; [reflexivity|lia|].
  rewrite number_groups_length, number_from_length. lia.
Qed.

Lemma mutations_split_inv utl stl related standalone track mtu out :
  mutations_split utl stl related standalone track mtu = Ok out ->
  exists ms, split_ranges utl stl track mtu (chunks_of related standalone) = Ok ms /\
    out = map (hook_message track (N.of_nat (length ms)) (id_chunks related standalone)) ms.
Proof.
  intros H.
  destruct (split_ranges utl stl track mtu (chunks_of related standalone)) as [ms| |] eqn:E.
  - exists ms. split; [reflexivity|]. rewrite (mutations_split_eq _ _ _ _ _ _ _ E) in H. congruence.
  - unfold mutations_split in H. rewrite E in H. discriminate.
  - unfold mutations_split in H. rewrite E in H. discriminate.
Qed.

Theorem mutations_split_total utl stl related standalone track mtu : 0 < mtu ->
  exists out, mutations_split utl stl related standalone track mtu = Ok out.
Proof.
  intros H. destruct (split_ranges_ok utl stl track mtu (chunks_of related standalone) H) as [ms E].
  eexists. apply (mutations_split_eq _ _ _ _ _ _ _ E).
Qed.

(* the messages list the entity numbers 0..n-1 in writing order *)
Theorem mutations_split_ids utl stl related standalone track mtu out :
  mutations_split utl stl related standalone track mtu = Ok out ->
  concat (map snd out) = number_from 0 (concat related ++ standalone).
Proof.
  intros H. destruct (mutations_split_inv _ _ _ _ _ _ _ H) as [ms [E ->]].
  destruct (split_ranges_spec _ _ _ _ _ _ E) as [Ht _].
  assert (Hlen : (length (chunks_of related standalone) <= length (id_chunks related standalone))%nat).
  { unfold id_chunks. rewrite !chunks_of_length, number_groups_length, number_from_length. lia. }
  destruct (tiles_slices (id_chunks related standalone) _ _ _ Ht Hlen) as [_ C].
  rewrite map_map. unfold hook_message. cbn [snd].
  rewrite <- (map_map (fun m : message => slice_tot (id_chunks related standalone) (snd m)) (@concat N)).
  rewrite concat_concat, C, <- id_chunks_concat. f_equal.
  replace (length (chunks_of related standalone)) with (length (id_chunks related standalone)).
  - apply slice_tot_all.
  - unfold id_chunks. rewrite !chunks_of_length, number_groups_length, number_from_length. reflexivity.
Qed.

Lemma NoDup_app_disjoint {A} (a b : list A) : NoDup (a ++ b) ->
  NoDup b /\ forall x, In x a -> ~ In x b.
Proof.
  induction a as [|y a IH]; cbn [app]; intros H.
  - split; [exact H|]. intros x [].
  - apply NoDup_cons_iff in H. destruct H as [Hn Hd]. destruct (IH Hd) as [Hb Hx].
    split; [exact Hb|]. intros x [-> | Hin]; [|apply Hx; exact Hin].
    intros Hb'. apply Hn. apply in_or_app. right. exact Hb'.
Qed.

Lemma NoDup_concat_unique {A} (ls : list (list A)) a b x y i : NoDup (concat ls) ->
  nth_error ls a = Some x -> nth_error ls b = Some y -> In i x -> In i y -> a = b.
Proof.
  revert a b; induction ls as [|l ls IH]; intros a b Hnd Ha Hb Hx Hy.
  - destruct a; discriminate.
  - cbn [concat] in Hnd. destruct (NoDup_app_disjoint _ _ Hnd) as [Hnd' Hdis].
    destruct a as [|a], b as [|b]; cbn [nth_error] in Ha, Hb.
    + reflexivity.
    + inversion Ha; subst x. exfalso. apply (Hdis i Hx).
      apply in_concat. exists y. split; [eapply nth_error_In; exact Hb|exact Hy].
    + inversion Hb; subst y. exfalso. apply (Hdis i Hy).
      apply in_concat. exists x. split; [eapply nth_error_In; exact Ha|exact Hx].
    + f_equal. eapply IH; eauto.
Qed.

(* every entity number below n occurs, and in exactly one message *)
Theorem mutations_split_exactly_once utl stl related standalone track mtu out :
  mutations_split utl stl related standalone track mtu = Ok out ->
  let n := N.of_nat (length (concat related ++ standalone)) in
  (forall i, i < n <-> exists m, In m out /\ In i (snd m)) /\
  NoDup (concat (map snd out)) /\
  (forall a b x y i, nth_error out a = Some x -> nth_error out b = Some y ->
     In i (snd x) -> In i (snd y) -> a = b).
Proof.
  intros H n. pose proof (mutations_split_ids _ _ _ _ _ _ _ H) as Hids.
  assert (Hnd : NoDup (concat (map snd out))) by (rewrite Hids; apply number_from_NoDup).
  split; [|split; [exact Hnd|]].
  - intros i. rewrite <- (N.add_0_l n). change (i < 0 + n) with (i < 0 + N.of_nat (length (concat related ++ standalone))).
    assert (Hi : i < 0 + N.of_nat (length (concat related ++ standalone))
                 <-> In i (concat (map snd out))) by (rewrite Hids, number_from_In; lia).
    rewrite Hi, in_concat. split.
    + intros [l [Hl Hil]]. apply in_map_iff in Hl. destruct Hl as [m [<- Hm]]. eauto.
    + intros [m [Hm Him]]. exists (snd m). split; [apply in_map; exact Hm|exact Him].
  - intros a b x y i Ha Hb Hx Hy.
    apply (NoDup_concat_unique (map snd out) a b (snd x) (snd y) i Hnd);
      try assumption; rewrite nth_error_map; [rewrite Ha|rewrite Hb]; reflexivity.
Qed.

(* the entities of one related group are in one message *)
Theorem mutations_split_groups utl stl related standalone track mtu out g :
  mutations_split utl stl related standalone track mtu = Ok out ->
  In g (number_groups 0 related) ->
  exists m, In m out /\ incl g (snd m).
Proof.
  intros H Hg. destruct (mutations_split_inv _ _ _ _ _ _ _ H) as [ms [E ->]].
  destruct (split_ranges_spec _ _ _ _ _ _ E) as [Ht _].
  assert (Hlen : length (chunks_of related standalone) = length (id_chunks related standalone)).
  { unfold id_chunks. rewrite !chunks_of_length, number_groups_length, number_from_length. reflexivity. }
  rewrite Hlen in Ht.
  destruct (tiles_slices (id_chunks related standalone) _ _ _ Ht (le_n _)) as [_ C].
  rewrite slice_tot_all in C.
  assert (Hin : In g (id_chunks related standalone))
    by (unfold id_chunks, chunks_of; apply in_or_app; left; exact Hg).
  rewrite <- C in Hin. apply in_concat in Hin. destruct Hin as [sl [Hsl Hgs]].
  apply in_map_iff in Hsl. destruct Hsl as [m [<- Hm]].
  exists (hook_message track (N.of_nat (length ms)) (id_chunks related standalone) m).
  split; [apply in_map; exact Hm|].
  unfold hook_message. cbn [snd]. intros i Hi. apply in_concat. eauto.
Qed.

(* ------------------------------------------------------------------ *)
(* the size statements on the hook's output (real message lengths)     *)

Lemma chunks_of_In (related : list (list (N * N))) standalone (P : list (N * N) -> Prop) :
  (forall g, In g related -> P g) -> (forall e, In e standalone -> P [e]) ->
  forall c, In c (chunks_of related standalone) -> P c.
Proof.
  intros Hr Hs c Hc. unfold chunks_of in Hc. apply in_app_or in Hc. destruct Hc as [Hc | Hc].
  - apply Hr; exact Hc.
  - apply in_map_iff in Hc. destruct Hc as [e [<- He]]. apply Hs; exact He.
Qed.

Lemma chunk_size_single e : chunk_size [e] = entity_size e.
Proof. unfold chunk_size. cbn [map sumN fold_right]. lia. Qed.

Theorem mutations_split_fits utl stl related standalone track mtu out :
  header_size_of utl stl track <= mtu ->
  (forall g, In g related -> header_size_of utl stl track + chunk_size g <= mtu) ->
  (forall e, In e standalone -> header_size_of utl stl track + entity_size e <= mtu) ->
  mutations_split utl stl related standalone track mtu = Ok out ->
  Forall (fun m => fst m <= mtu) out.
Proof.
  intros Hh Hg He H. destruct (mutations_split_inv _ _ _ _ _ _ _ H) as [ms [E ->]].
  assert (Hc : forall c, In c (chunks_of related standalone) ->
                         header_size_of utl stl track + chunk_size c <= mtu).
  { apply chunks_of_In; [exact Hg|]. intros e Hin. rewrite chunk_size_single. apply He; exact Hin. }
  pose proof (split_ranges_fits _ _ _ _ _ _ Hh Hc E) as F.
  destruct (emitted_eq_accounted _ _ _ _ _ _ _ E) as [_ G].
  rewrite Forall_forall in *. intros x Hx. apply in_map_iff in Hx. destruct Hx as [m [<- Hin]].
  unfold hook_message. cbn [fst]. specialize (F m Hin). destruct (G m Hin) as [_ G2]. cbn beta in *. lia.
Qed.

Theorem mutations_split_single utl stl related standalone track mtu out :
  header_size_of utl stl track + sumN (map entity_size (concat related ++ standalone)) <= mtu ->
  mutations_split utl stl related standalone track mtu = Ok out ->
  (length out <= 1)%nat /\
  ((concat related ++ standalone <> [] \/ track = true) -> length out = 1%nat).
Proof.
  intros Hfit H. destruct (mutations_split_inv _ _ _ _ _ _ _ H) as [ms [E ->]].
  assert (Htot : sumN (map chunk_size (chunks_of related standalone))
                 = sumN (map entity_size (concat related ++ standalone))).
  { rewrite sumN_chunks. unfold chunks_of. rewrite concat_app, concat_singletons. reflexivity. }
  rewrite <- Htot in Hfit. rewrite (split_ranges_single _ _ _ _ _ Hfit) in E.
  rewrite map_length.
  destruct (negb (range_is_empty (O, length (chunks_of related standalone))) || track) eqn:Ep;
    inversion E; subst ms; cbn [length]; split; try lia.
  intros [Hne | Ht].
  - exfalso. apply orb_false_iff in Ep. destruct Ep as [Ep _].
    unfold range_is_empty in Ep. cbn [fst snd] in Ep. rewrite negb_involutive in Ep.
    apply Nat.ltb_ge in Ep. assert (L : length (chunks_of related standalone) = O) by lia.
    rewrite chunks_of_length in L. apply Hne.
    destruct related as [|g r]; [|cbn [length] in L; lia].
    destruct standalone as [|e st]; [reflexivity|cbn [length] in L; lia].
  - subst track. rewrite orb_true_r in Ep. discriminate.
Qed.

Lemma Forall2_map_same {A B C} (R : B -> C -> Prop) (f : A -> B) (g : A -> C) l :
  (forall x, In x l -> R (f x) (g x)) -> Forall2 R (map f l) (map g l).
Proof.
  induction l as [|x l IH]; intros H; cbn [map]; constructor.
  - apply H. left. reflexivity.
  - apply IH. intros y Hy. apply H. right. exact Hy.
Qed.

(* message by message, the length the hook reports is the number of bytes written for the
   chunks `split` assigns to that message, and it is at most the accounted size *)
Theorem mutations_split_vs_split utl stl related standalone track mtu out sp :
  mutations_split utl stl related standalone track mtu = Ok out ->
  split utl stl track mtu (chunks_of related standalone) = Ok sp ->
  Forall2 (fun o s => fst o = emitted_len utl stl track (N.of_nat (length sp)) (concat (snd s)) /\
                      fst o <= fst s) out sp.
Proof.
  intros H Hs. destruct (mutations_split_inv _ _ _ _ _ _ _ H) as [ms [E ->]].
  rewrite (split_eq _ _ _ _ _ _ E) in Hs. inversion Hs; subst sp. rewrite map_length.
  destruct (emitted_eq_accounted _ _ _ _ _ _ _ E) as [_ G]. rewrite Forall_forall in G.
  apply Forall2_map_same. intros m Hin. unfold hook_message, message_chunks. cbn [fst snd].
  exact (G m Hin).
Qed.

(* ------------------------------------------------------------------ *)
(* non-vacuity: the expectations of the Rust unit tests                *)

Example test_packing :
  map (fun '(a, b) => can_pack a b 1200)
      [(10, 5); (10, 1190); (10, 1191); (10, 3000); (1500, 500); (1500, 900); (1500, 1000);
       (1199, 1); (1200, 0); (1200, 1); (1200, 3000)]
  = map Ok [true; true; false; false; true; true; false; true; false; false; false].
Proof. vm_compute. reflexivity. Qed.

Example test_splitting_standalone :
  map (fun s => test_send [] s false) [[]; [10]; [1300]; [20; 20]; [700; 700]; [1300; 700]; [1300; 1300]]
  = map Ok [0; 1; 1; 1; 2; 1; 2].
Proof. vm_compute. reflexivity. Qed.

Example test_splitting_related :
  map (fun r => test_send r [] false)
      [[[10]]; [[1300]]; [[20; 20]]; [[700; 700]]; [[1300; 1300]]; [[20]; [20]]; [[700]; [700]];
       [[1300]; [1300]]]
  = map Ok [1; 1; 1; 1; 1; 1; 2; 2].
Proof. vm_compute. reflexivity. Qed.

Example test_splitting_mixed :
  map (fun '(r, s) => test_send r s false)
      [([[10]], [10]); ([[1300]], [1300]); ([[20; 20]], [20; 20]); ([[700; 700]], [700; 700]);
       ([[1300; 1300]], [1300; 1300]); ([[20]; [20]], [20]); ([[700]; [700]], [700]);
       ([[1300]; [1300]], [1300])]
  = map Ok [1; 2; 1; 2; 3; 1; 3; 3].
Proof. vm_compute. reflexivity. Qed.

Example test_splitting_tracked :
  map (fun '(r, s) => test_send r s true)
      [([], []); ([], [10]); ([[10]], []); ([[10]], [10]); ([], [1194])]
  = map Ok [1; 1; 1; 1; 1].
Proof. vm_compute. reflexivity. Qed.

(* what the messages look like: a related group larger than the limit stays whole, and the next
   standalone entity is packed behind it *)
Example split_related_700_700_standalone_700_700 :
  mutations_split 1 0 [[(4, 696); (4, 696)]] [(4, 696); (4, 696)] false 1200
  = Ok [(2109, [0; 1; 2]); (705, [3])].
Proof. vm_compute. reflexivity. Qed.

(* the hypotheses of the theorems are satisfiable with more than one message *)
Example split_fits_nonvacuous :
  header_size_of 1 0 false = 3 /\
  (forall c, In c (chunks_of [] [(4, 696); (4, 696)]) -> header_size_of 1 0 false + chunk_size c <= 1200) /\
  split 1 0 false 1200 (chunks_of [] [(4, 696); (4, 696)])
  = Ok [(705, [[(4, 696)]]); (705, [[(4, 696)]])].
Proof.
  split; [reflexivity|]. split; [|vm_compute; reflexivity].
  intros c [<- | [<- | []]]; vm_compute; discriminate.
Qed.

(* max_size = 0: the first chunk is taken without evaluating can_pack, the second one divides by 0 *)
Example split_zero_mtu :
  mutations_split 1 0 [] [(4, 6)] false 0 = Ok [(14, [0])] /\
  mutations_split 1 0 [] [(4, 6); (4, 6)] false 0 = Panic.
Proof. split; vm_compute; reflexivity. Qed.

(* ------------------------------------------------------------------ *)
(* behaviour of the code that depends on the reading of "fits"         *)

(* With tracking the first loop reserves 10 bytes for the message count but 1 byte is written
   (fewer than 128 messages), so the accounted size overstates the real one by 9.
   (a) each entity alone gives a message of at most 1200 bytes (1200 and 15), yet together they are
       packed into ONE message of 1211 bytes: the accounted size 1209 looks like "already past
       the limit, 9 bytes into the next packet", so can_pack lets 11 more bytes in. *)
Example tracked_message_exceeds_limit :
  mutations_split 1 0 [] [(4, 1190)] true 1200 = Ok [(1200, [0])] /\
  mutations_split 1 0 [] [(4, 6)] true 1200 = Ok [(15, [0])] /\
  mutations_split 1 0 [] [(4, 1190); (4, 6)] true 1200 = Ok [(1211, [0; 1])].
Proof. repeat split; vm_compute; reflexivity. Qed.

(* (b) both entities would fit into one message of 1199 bytes, two messages are sent *)
Example tracked_two_messages_where_one_suffices :
  emitted_len 1 0 true 1 [(4, 594); (4, 589)] = 1199 /\
  mutations_split 1 0 [] [(4, 594); (4, 589)] true 1200 = Ok [(604, [0]); (599, [1])].
Proof. split; vm_compute; reflexivity. Qed.
