(* Packing of mutate messages: src/server/replication_messages/mutations.rs
   (`can_pack`, `EntityChunks::iter`, `EntityChunks::iter_flatten`, the two loops of
   `Mutations::send`), src/server/replication_messages/change_ranges.rs
   (`size_with_components_size`) and src/shared/replication/mutate_index.rs.

   An entity's mutations are abstracted to the pair (entity_bytes, component_bytes):
   `ranges.entity.len()` and `ranges.components_size()`.  All sizes are unbounded `N`:
   usize overflow is NOT modelled (every size is the length of data held in memory).
   Definitions only; lemmas are in Packing_proofs.v. *)
From RV Require Import Lib.Res Wire.Varint.
Open Scope N_scope.

(* ---------- sizes ---------- *)

(* `serialized_size(&usize)`: length of the postcard varint (at most 10 bytes for u64). *)
Fixpoint varint_len_fuel (n : nat) (v : N) : N :=
  match n with
  | O => 0
  | S n' => if v <? 128 then 1 else 1 + varint_len_fuel n' (v / 128)
  end.
Definition varint_len (v : N) : N := varint_len_fuel 10 v.

(* const MAX_COUNT_SIZE: usize = usize::POSTCARD_MAX_SIZE *)
Definition MAX_COUNT_SIZE : N := 10.

(* mutate_index.rs: `MutateIndex(#[serde(with = "postcard::fixint::le")] u16)`.
   `serialized_size(&mutate_index)` is 2 whatever the value (= length (fix16_enc i)),
   so the recomputation of header_size after `register_mutate_message` yields the same number. *)
Definition mutate_index_size (i : N) : N := N.of_nat (length (fix16_enc i)).
(* `MutateIndex::advance`: returns the current value, self becomes self.wrapping_add(1) *)
Definition mutate_index_advance (i : N) : N * N := (i, (i + 1) mod 65536).

Definition sumN (l : list N) : N := fold_right N.add 0 l.

(* ChangeRanges::size_with_components_size for e = (entity.len(), components_size()) *)
Definition entity_size (e : N * N) : N := fst e + varint_len (snd e) + snd e.

(* inner loop `for mutations in chunk { mutations_size += ... }` *)
Definition chunk_size (c : list (N * N)) : N := sumN (map entity_size c).

(* ---------- can_pack ---------- *)

(* `message_size % mtu` panics when mtu = 0 *)
Definition can_pack (message_size add mtu : N) : res bool :=
  if mtu =? 0 then Panic
  else
    let dangling := message_size mod mtu in
    Ok ((0 <? dangling) && (dangling + add <=? mtu)).

(* ---------- EntityChunks ---------- *)

(* EntityChunks::iter: related.iter().map(Vec::as_slice).chain(standalone.chunks(1)).
   A related group may be EMPTY (`resize_related` sizes `related` by the number of graphs). *)
Definition chunks_of {A} (related : list (list A)) (standalone : list A) : list (list A) :=
  related ++ map (fun e => [e]) standalone.

(* Range<usize> as (start, end) *)
Definition range := (nat * nat)%type.
Definition range_is_empty (r : range) : bool := negb (fst r <? snd r)%nat.

(* `&v[a..b]`: panics unless a <= b <= len *)
Definition slice {A} (l : list A) (r : range) : res (list A) :=
  let '(s, e) := r in
  if (s <=? e)%nat && (e <=? length l)%nat then Ok (firstn (e - s) (skipn s l)) else Panic.

(* EntityChunks::iter_flatten (the two debug_assert! are Panic branches; `-` on nat saturates) *)
Definition iter_flatten {A} (related : list (list A)) (standalone : list A) (r : range)
  : res (list A) :=
  let '(s, e) := r in
  let total_len := (length related + length standalone)%nat in
  if negb (s <=? total_len)%nat then Panic
  else if negb (e <=? total_len)%nat then Panic
  else
    let split_point := length related in
    let related_range := (Nat.min s split_point, Nat.min e split_point) in
    let standalone_range := ((s - split_point)%nat, (e - split_point)%nat) in
    let* rel := slice related related_range in
    let* sta := slice standalone standalone_range in
    Ok (concat rel ++ sta).

(* ---------- first loop of Mutations::send ---------- *)

(* `self.messages` without the mutate index: (message_size, chunks_range) *)
Definition message := (N * range)%type.

Record split_state := mk_split_state {
  header_size : N;
  body_size : N;
  chunks_range : range;
  messages : list message
}.

Definition metadata_size (update_tick_len server_tick_len : N) (track : bool) : N :=
  update_tick_len + server_tick_len + (if track then MAX_COUNT_SIZE else 0).

Definition header_size_of (update_tick_len server_tick_len : N) (track : bool) : N :=
  metadata_size update_tick_len server_tick_len track + mutate_index_size 0.

(* body_size != 0 && !can_pack(header+body, size, max) && !can_pack(header+size, body, max)
   with Rust's short-circuit evaluation: no division when body_size = 0, and the second
   can_pack is not evaluated when the first one succeeds. *)
Definition must_split (header_size body_size mutations_size max_size : N) : res bool :=
  if body_size =? 0 then Ok false
  else
    let* back := can_pack (header_size + body_size) mutations_size max_size in
    if back then Ok false
    else
      let* forward := can_pack (header_size + mutations_size) body_size max_size in
      Ok (negb forward).

(* body of `for chunk in chunks.iter()` *)
Definition split_step (metadata_size max_size : N) (st : split_state) (chunk : list (N * N))
  : res split_state :=
  let mutations_size := chunk_size chunk in
  let* flush := must_split (header_size st) (body_size st) mutations_size max_size in
  let st1 :=
    if flush then
      {| header_size := metadata_size + mutate_index_size 0;
         body_size := 0;
         chunks_range := (snd (chunks_range st), snd (chunks_range st));
         messages := messages st ++ [(body_size st + header_size st, chunks_range st)] |}
    else st in
  Ok {| header_size := header_size st1;
        body_size := body_size st1 + mutations_size;
        chunks_range := (fst (chunks_range st1), S (snd (chunks_range st1)));
        messages := messages st1 |}.

Fixpoint split_loop (metadata_size max_size : N) (st : split_state) (chunks : list (list (N * N)))
  : res split_state :=
  match chunks with
  | [] => Ok st
  | c :: cs =>
    let* st' := split_step metadata_size max_size st c in
    split_loop metadata_size max_size st' cs
  end.

(* the whole first loop plus `if !chunks_range.is_empty() || track_mutate_messages { push }` *)
Definition split_ranges (update_tick_len server_tick_len : N) (track : bool) (max_size : N)
  (chunks : list (list (N * N))) : res (list message) :=
  let metadata := metadata_size update_tick_len server_tick_len track in
  let st0 := {| header_size := metadata + mutate_index_size 0; body_size := 0;
                chunks_range := (O, O); messages := [] |} in
  let* st := split_loop metadata max_size st0 chunks in
  if negb (range_is_empty (chunks_range st)) || track
  then Ok (messages st ++ [(body_size st + header_size st, chunks_range st)])
  else Ok (messages st).

Fixpoint map_res {A B} (f : A -> res B) (l : list A) : res (list B) :=
  match l with
  | [] => Ok []
  | x :: r => let* y := f x in let* ys := map_res f r in Ok (y :: ys)
  end.

(* each message as (accounted size = body + header, the chunks in its range) *)
Definition split (update_tick_len server_tick_len : N) (track : bool) (max_size : N)
  (chunks : list (list (N * N))) : res (list (N * list (list (N * N)))) :=
  let* ms := split_ranges update_tick_len server_tick_len track max_size chunks in
  map_res (fun m : message => let* cs := slice chunks (snd m) in Ok (fst m, cs)) ms.

(* ---------- second loop of Mutations::send ---------- *)

(* `message_size -= MAX_COUNT_SIZE - serialized_size(&self.messages.len())?` (both
   subtractions would panic on underflow in a debug build) *)
Definition final_message_size (track : bool) (count message_size : N) : res N :=
  if track then
    let count_size := varint_len count in
    if MAX_COUNT_SIZE <? count_size then Panic
    else
      let unused := MAX_COUNT_SIZE - count_size in
      if message_size <? unused then Panic else Ok (message_size - unused)
  else Ok message_size.

(* length of the bytes really appended to `message`, computed from the encoders of
   Wire/Varint.v and not from varint_len / entity_size *)
Definition written_entity_len (e : N * N) : N :=
  fst e + N.of_nat (length (venc_u64 (snd e))) + snd e.
Definition emitted_len (update_tick_len server_tick_len : N) (track : bool) (count : N)
  (entities : list (N * N)) : N :=
  update_tick_len + server_tick_len
  + (if track then N.of_nat (length (venc_u64 count)) else 0)
  + N.of_nat (length (fix16_enc 0))
  + sumN (map written_entity_len entities).

(* one iteration of `for &(mutate_index, mut message_size, ref chunks_range) in &self.messages`;
   `debug_assert_eq!(message.len(), message_size)` is a Panic branch.  Returns message.len(). *)
Definition emit_message (update_tick_len server_tick_len : N) (track : bool) (count : N)
  (related : list (list (N * N))) (standalone : list (N * N)) (m : message) : res (N * range) :=
  let* message_size := final_message_size track count (fst m) in
  let* entities := iter_flatten related standalone (snd m) in
  let len := emitted_len update_tick_len server_tick_len track count entities in
  if len =? message_size then Ok (len, snd m) else Panic.

Definition emit (update_tick_len server_tick_len : N) (track : bool)
  (related : list (list (N * N))) (standalone : list (N * N)) (ms : list message)
  : res (list (N * range)) :=
  let count := N.of_nat (length ms) in
  map_res (emit_message update_tick_len server_tick_len track count related standalone) ms.

(* ---------- the hook `verif::mutations_split` ---------- *)

(* entity numbers in writing order (`tag`): k, k+1, ... *)
Fixpoint number_from {A} (k : N) (l : list A) : list N :=
  match l with
  | [] => []
  | _ :: r => k :: number_from (k + 1) r
  end.
Fixpoint number_groups {A} (k : N) (groups : list (list A)) : list (list N) :=
  match groups with
  | [] => []
  | g :: gs => number_from k g :: number_groups (k + N.of_nat (length g)) gs
  end.

Definition mutations_split (update_tick_len server_tick_len : N)
  (related : list (list (N * N))) (standalone : list (N * N)) (track : bool) (max_size : N)
  : res (list (N * list N)) :=
  let* ms := split_ranges update_tick_len server_tick_len track max_size
               (chunks_of related standalone) in
  let* sent := emit update_tick_len server_tick_len track related standalone ms in
  let related_ids := number_groups 0 related in
  let standalone_ids := number_from (N.of_nat (length (concat related))) standalone in
  map_res (fun lm : N * range =>
             let* ids := iter_flatten related_ids standalone_ids (snd lm) in
             Ok (fst lm, ids)) sent.

(* number of messages, the value `Mutations::send` returns (used by the unit test table) *)
Definition send_count (related : list (list (N * N))) (standalone : list (N * N))
  (track : bool) (max_size : N) : res N :=
  let* out := mutations_split 1 0 related standalone track max_size in
  Ok (N.of_nat (length out)).

(* ---------- the unit tests `tests::splitting` / `tests::packing` of mutations.rs ---------- *)

(* `write_entity`: 4 bytes for the entity, the rest for one component; MAX_SIZE = 1200;
   update tick 0 is one byte, the server tick range is empty *)
Definition test_entity (mutations_size : N) : N * N := (4, mutations_size - 4).
Definition test_send (related : list (list N)) (standalone : list N) (track : bool) : res N :=
  send_count (map (map test_entity) related) (map test_entity standalone) track 1200.
