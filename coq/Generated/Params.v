(* GENERATED on every run by gen/params.py from /repo's working tree. Do not edit. *)
From Coq Require Import NArith.
Open Scope N_scope.

Definition tick_half_range : N := 2.
Definition flag_mappings : N := 1.
Definition flag_despawns : N := 2.
Definition flag_removals : N := 4.
Definition flag_changes : N := 8.
