(* GENERATED on every run by gen/params.py from /repo's working tree. Do not edit. *)
From Coq Require Import NArith.
Open Scope N_scope.

Definition tick_half_range : N := 2.
Definition flag_mappings : N := 1.
Definition flag_despawns : N := 2.
Definition flag_removals : N := 4.
Definition flag_changes : N := 8.
Definition tick_width : N := 32.
Definition hist_mask_width : N := 64.
Definition mt_window_width : N := 64.
Definition mutate_index_width : N := 16.
Definition default_priority_single : N := 1.
Definition cond_sequence_width : N := 64.
Definition tcp_size_width : N := 16.
