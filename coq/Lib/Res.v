(* Result type shared by all models: Ok / Err (a Rust `Err`, logged or propagated)
   / Panic (a Rust panic: unwrap on None, arithmetic overflow in debug, from_bits ...). *)
From Coq Require Export List NArith ZArith Bool Lia.
Export ListNotations.

Inductive res (A : Type) : Type :=
| Ok (a : A)
| Err
| Panic.
Arguments Ok {A} a.
Arguments Err {A}.
Arguments Panic {A}.

Definition bind {A B} (r : res A) (f : A -> res B) : res B :=
  match r with Ok a => f a | Err => Err | Panic => Panic end.

Notation "'let*' x ':=' r 'in' k" := (bind r (fun x => k))
  (at level 200, x pattern, r at level 100, k at level 200).

Definition is_ok {A} (r : res A) : bool := match r with Ok _ => true | _ => false end.

(* A byte is an N below 256; buffers are lists; a cursor advance is "return the rest". *)
Definition byte_ok (b : N) : Prop := (b < 256)%N.
Definition bytes_ok (bs : list N) : Prop := Forall byte_ok bs.
