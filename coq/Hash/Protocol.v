(* Model of src/shared/protocol.rs (ProtocolHasher / ProtocolPart / ProtocolHash) and of the
   server side of the handshake, `check_protocol` in src/server.rs.

   ProtocolHasher(FnvHasher) starts at FnvHasher::default().  Every registration entry point
   (replicate::<R>(priority), replicate_bundle::<B>(), add_client_event::<E>(), ...) calls
       fn hash<T>(&mut self, part: ProtocolPart) {
           part.hash(&mut self.0);                      // derive(Hash) on a #[repr(u8)] enum
           any::type_name::<T>().hash(&mut self.0);     // str::hash
       }
   Bytes fed to the hasher by one registration:
     * derive(Hash) writes the discriminant; for #[repr(u8)] its type is u8: ONE byte, the variant
       index 0..7 ([discr_bytes]; checked with a recording Hasher on rustc 1.95);
     * for `Replicate { priority: u64 }` then `write_u64(priority)`: 8 bytes, little endian;
     * str::hash: the UTF-8 bytes of the type name, then `write_u8(0xff)`.
   `finish()` returns the FNV state.

   NOT modelled: `add_custom` (user supplied `Hash` data, arbitrary bytes). *)
From RV Require Import Lib.Res Hash.Fnv.
Open Scope N_scope.

(* ProtocolPart, in declaration order (= discriminant order) *)
Inductive part :=
| Replicate (priority : N)
| ReplicateBundle
| ClientEvent
| ClientTrigger
| ServerEvent
| ServerTrigger
| IndependentEvent
| IndependentTrigger.

(* one call of ProtocolHasher::hash::<T>(part); r_name = UTF-8 bytes of any::type_name::<T>() *)
Record reg := mkReg { r_part : part; r_name : list N }.

Definition part_index (p : part) : N :=
  match p with
  | Replicate _ => 0
  | ReplicateBundle => 1
  | ClientEvent => 2
  | ClientTrigger => 3
  | ServerEvent => 4
  | ServerTrigger => 5
  | IndependentEvent => 6
  | IndependentTrigger => 7
  end.

(* width of the discriminant as hashed by derive(Hash): a single definition, easy to change *)
Definition discr_bytes (d : N) : list N := [d].

(* n little-endian bytes of v (v taken modulo 256^n) *)
Fixpoint le_bytes (n : nat) (v : N) : list N :=
  match n with
  | O => []
  | S n' => v mod 256 :: le_bytes n' (v / 256)
  end.

Definition le_bytes8 (v : N) : list N := le_bytes 8 v.      (* u64::to_ne_bytes on x86-64 *)

Definition part_payload (p : part) : list N :=
  match p with
  | Replicate priority => le_bytes8 priority
  | _ => []
  end.

Definition part_bytes (p : part) : list N := discr_bytes (part_index p) ++ part_payload p.

Definition reg_bytes (r : reg) : list N := part_bytes (r_part r) ++ r_name r ++ [255].

(* everything written into the hasher by a sequence of registrations *)
Definition stream (rs : list reg) : list N := concat (map reg_bytes rs).

(* ProtocolHasher::default(), the registrations in order, finish() *)
Definition protocol_hash (rs : list reg) : N := fnv fnv_offset (stream rs).

(* ---- executable entry point for the correspondence check ------------------------------
   items = (part index 0..7 in ProtocolPart order, priority (used for index 0 only), name bytes),
   exactly the arguments of the hook `protocol::verif::add_part::<T>(hasher, part, priority)`
   with name = any::type_name::<T>().  The hook panics on an unknown index. *)
Definition part_of_index (i priority : N) : res part :=
  if i =? 0 then Ok (Replicate (priority mod two64))     (* `priority as u64` *)
  else if i =? 1 then Ok ReplicateBundle
  else if i =? 2 then Ok ClientEvent
  else if i =? 3 then Ok ClientTrigger
  else if i =? 4 then Ok ServerEvent
  else if i =? 5 then Ok ServerTrigger
  else if i =? 6 then Ok IndependentEvent
  else if i =? 7 then Ok IndependentTrigger
  else Panic.                                            (* panic!("unknown protocol part") *)

Fixpoint regs_of (items : list (N * N * list N)) : res (list reg) :=
  match items with
  | [] => Ok []
  | (i, priority, name) :: t =>
    let* p := part_of_index i priority in
    let* rs := regs_of t in
    Ok (mkReg p name :: rs)
  end.

Definition protocol_hash_of (items : list (N * N * list N)) : res N :=
  let* rs := regs_of items in Ok (protocol_hash rs).

(* the byte stream itself, for debugging a hash mismatch in the correspondence check *)
Definition protocol_stream_of (items : list (N * N * list N)) : res (list N) :=
  let* rs := regs_of items in Ok (stream rs).

(* ---- validity (decidable) ------------------------------------------------------------- *)
(* UTF-8 never contains 0xff; priority is a u64 *)
Definition valid_partb (p : part) : bool :=
  match p with Replicate priority => priority <? two64 | _ => true end.
Definition valid_regb (r : reg) : bool :=
  valid_partb (r_part r) && forallb (fun b => b <? 255) (r_name r).
Definition valid_regsb (rs : list reg) : bool := forallb valid_regb rs.

(* ---- server.rs: check_protocol ----------------------------------------------------------
   fn check_protocol(trigger: Trigger<FromClient<ProtocolHash>>, ..., protocol: Res<ProtocolHash>) {
       if **trigger == *protocol { commands.entity(trigger.client).insert(AuthorizedClient); }
       else { commands.server_trigger(ToClients { mode: SendMode::Direct(trigger.client), event: ProtocolMismatch });
              events.write(DisconnectRequest { client: trigger.client }); } }
   Result: (insert AuthorizedClient, send ProtocolMismatch to that client, write DisconnectRequest). *)
Definition check_protocol (client_hash server_hash : N) : bool * bool * bool :=
  if client_hash =? server_hash then (true, false, false) else (false, true, true).

(* ---- specification-level predicates (Prop; not extracted) ------------------------------ *)
Definition valid_part (p : part) : Prop :=
  match p with Replicate priority => priority < two64 | _ => True end.
Definition valid_reg (r : reg) : Prop :=
  valid_part (r_part r) /\ Forall (fun b => b < 255) (r_name r).
Definition valid_regs (rs : list reg) : Prop := Forall valid_reg rs.

Definition payload_free (p : part) : Prop :=
  match p with Replicate _ => False | _ => True end.

(* The assumption that is NOT proved (and is false as a universal statement, by counting:
   there are more valid streams than 64-bit values): these two particular byte streams,
   if different, do not collide under FNV-1a. *)
Definition no_collision_assumption (s1 s2 : list N) : Prop :=
  s1 <> s2 -> fnv fnv_offset s1 <> fnv fnv_offset s2.
