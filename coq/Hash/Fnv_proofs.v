(* Facts about FNV-1a (Hash/Fnv.v) that hold without any assumption:
   one step is a bijection on 64-bit states for a fixed byte, and is injective in the byte for a
   fixed state; hence the whole hash is injective in the start state, and two inputs of equal
   length that differ in exactly one byte never collide.
   Global collision-freeness is false by counting and is NOT claimed anywhere. *)
From RV Require Import Lib.Res Hash.Fnv.
From Coq Require Import ZifyBool ZifyN.
Open Scope N_scope.
Ltac Zify.zify_post_hook ::= Z.div_mod_to_equations.
Arguments N.add : simpl never. Arguments N.mul : simpl never. Arguments N.pow : simpl never.
Arguments N.ltb : simpl never. Arguments N.leb : simpl never. Arguments N.div : simpl never.
Arguments N.modulo : simpl never. Arguments N.sub : simpl never. Arguments N.eqb : simpl never.

Lemma two64_pow : two64 = 2 ^ 64.
Proof. reflexivity. Qed.

Lemma two64_nz : two64 <> 0.
Proof. discriminate. Qed.

Lemma fnv_offset_lt : fnv_offset < two64.
Proof. reflexivity. Qed.

Lemma prime_inv : (fnv_prime * fnv_prime_inv) mod two64 = 1.
Proof. vm_compute. reflexivity. Qed.

Lemma inv_prime : (fnv_prime_inv * fnv_prime) mod two64 = 1.
Proof. vm_compute. reflexivity. Qed.

Lemma byte_lt64 b : b < 256 -> b < two64.
Proof. unfold two64. lia. Qed.

Lemma log2_lt64 a : a < two64 -> N.log2 a < 64.
Proof.
  intros H. destruct (N.eq_dec a 0) as [-> | Hn]; [reflexivity|].
  apply N.log2_lt_pow2; [lia|]. rewrite <- two64_pow. exact H.
Qed.

Lemma lxor_lt64 a b : a < two64 -> b < two64 -> N.lxor a b < two64.
Proof.
  intros Ha Hb. destruct (N.eq_dec (N.lxor a b) 0) as [E | Hn]; [rewrite E; reflexivity|].
  rewrite two64_pow. apply N.log2_lt_pow2; [lia|].
  eapply N.le_lt_trans; [apply N.log2_lxor|].
  apply N.max_lub_lt; apply log2_lt64; assumption.
Qed.

Lemma lxor_cancel_r a b : N.lxor (N.lxor a b) b = a.
Proof. rewrite N.lxor_assoc, N.lxor_nilpotent, N.lxor_0_r. reflexivity. Qed.

Lemma lxor_inj_l s x y : N.lxor s x = N.lxor s y -> x = y.
Proof.
  intros H. apply (f_equal (N.lxor s)) in H.
  rewrite <- !N.lxor_assoc, N.lxor_nilpotent, !N.lxor_0_l in H. exact H.
Qed.

(* multiplication by the (odd) prime is undone by multiplication by its inverse *)
Lemma unmul x : x < two64 -> ((x * fnv_prime) mod two64 * fnv_prime_inv) mod two64 = x.
Proof.
  intros H. rewrite N.mul_mod_idemp_l by exact two64_nz.
  rewrite <- N.mul_assoc, <- N.mul_mod_idemp_r by exact two64_nz.
  rewrite prime_inv, N.mul_1_r. apply N.mod_small. exact H.
Qed.

Lemma remul x : x < two64 -> ((x * fnv_prime_inv) mod two64 * fnv_prime) mod two64 = x.
Proof.
  intros H. rewrite N.mul_mod_idemp_l by exact two64_nz.
  rewrite <- N.mul_assoc, <- N.mul_mod_idemp_r by exact two64_nz.
  rewrite inv_prime, N.mul_1_r. apply N.mod_small. exact H.
Qed.

Lemma mul_prime_inj x y : x < two64 -> y < two64 ->
  (x * fnv_prime) mod two64 = (y * fnv_prime) mod two64 -> x = y.
Proof.
  intros Hx Hy H. rewrite <- (unmul x Hx), <- (unmul y Hy), H. reflexivity.
Qed.

Lemma fnv_step_lt s b : fnv_step s b < two64.
Proof. unfold fnv_step. apply N.mod_lt. exact two64_nz. Qed.

Lemma fnv_unstep_lt o b : b < two64 -> fnv_unstep o b < two64.
Proof.
  intros Hb. unfold fnv_unstep. apply lxor_lt64; [apply N.mod_lt; exact two64_nz|exact Hb].
Qed.

Lemma fnv_unstep_step s b : s < two64 -> b < two64 -> fnv_unstep (fnv_step s b) b = s.
Proof.
  intros Hs Hb. unfold fnv_unstep, fnv_step.
  rewrite unmul by (apply lxor_lt64; assumption). apply lxor_cancel_r.
Qed.

Lemma fnv_step_unstep o b : o < two64 -> fnv_step (fnv_unstep o b) b = o.
Proof.
  intros Ho. unfold fnv_unstep, fnv_step. rewrite lxor_cancel_r. apply remul. exact Ho.
Qed.

(* for a fixed byte, a step is injective on 64-bit states *)
Lemma fnv_step_inj_state b s1 s2 : b < 256 -> s1 < two64 -> s2 < two64 ->
  fnv_step s1 b = fnv_step s2 b -> s1 = s2.
Proof.
  intros Hb H1 H2 H. apply byte_lt64 in Hb.
  rewrite <- (fnv_unstep_step s1 b H1 Hb), <- (fnv_unstep_step s2 b H2 Hb), H. reflexivity.
Qed.

(* for a fixed 64-bit state, a step is injective on bytes *)
Lemma fnv_step_inj_byte s x y : s < two64 -> x < 256 -> y < 256 ->
  fnv_step s x = fnv_step s y -> x = y.
Proof.
  intros Hs Hx Hy H. apply byte_lt64 in Hx, Hy. unfold fnv_step in H.
  apply mul_prime_inj in H; [|apply lxor_lt64; assumption|apply lxor_lt64; assumption].
  exact (lxor_inj_l _ _ _ H).
Qed.

(* for a fixed byte, a step is a bijection of [0, 2^64) *)
Lemma fnv_step_bijective b : b < 256 ->
  (forall s1 s2, s1 < two64 -> s2 < two64 -> fnv_step s1 b = fnv_step s2 b -> s1 = s2) /\
  (forall o, o < two64 -> exists s, s < two64 /\ fnv_step s b = o).
Proof.
  intros Hb. split.
  - intros s1 s2. apply fnv_step_inj_state. exact Hb.
  - intros o Ho. exists (fnv_unstep o b). split.
    + apply fnv_unstep_lt, byte_lt64, Hb.
    + apply fnv_step_unstep. exact Ho.
Qed.

Lemma fnv_nil s : fnv s [] = s.
Proof. reflexivity. Qed.

Lemma fnv_cons s b bs : fnv s (b :: bs) = fnv (fnv_step s b) bs.
Proof. reflexivity. Qed.

Lemma fnv_app s a b : fnv s (a ++ b) = fnv (fnv s a) b.
Proof. unfold fnv. apply fold_left_app. Qed.

Lemma fnv_lt s bs : s < two64 -> fnv s bs < two64.
Proof.
  revert s; induction bs as [|b bs IH]; intros s Hs; [exact Hs|].
  rewrite fnv_cons. apply IH, fnv_step_lt.
Qed.

(* for a fixed input, the hash is injective in the 64-bit start state *)
Lemma fnv_inj_state bs s1 s2 : bytes_ok bs -> s1 < two64 -> s2 < two64 ->
  fnv s1 bs = fnv s2 bs -> s1 = s2.
Proof.
  intros Hb. revert s1 s2; induction Hb as [|b bs Hb0 Hbs IH]; intros s1 s2 H1 H2 H; [exact H|].
  rewrite !fnv_cons in H. apply IH in H; [|apply fnv_step_lt|apply fnv_step_lt].
  exact (fnv_step_inj_state b s1 s2 Hb0 H1 H2 H).
Qed.

(* single-difference separation: two inputs of equal length that differ in exactly one
   position have different hashes (stated contrapositively) *)
Lemma fnv_single_diff s pre x y post : s < two64 -> x < 256 -> y < 256 -> bytes_ok post ->
  fnv s (pre ++ [x] ++ post) = fnv s (pre ++ [y] ++ post) -> x = y.
Proof.
  intros Hs Hx Hy Hp H. rewrite !fnv_app in H. cbn [app] in H. rewrite !fnv_cons in H.
  rewrite !fnv_nil in H.
  apply (fnv_inj_state post) in H; [|exact Hp|apply fnv_step_lt|apply fnv_step_lt].
  exact (fnv_step_inj_byte _ x y (fnv_lt s pre Hs) Hx Hy H).
Qed.

Lemma fnv_single_diff_neq s pre x y post : s < two64 -> x < 256 -> y < 256 -> bytes_ok post ->
  x <> y -> fnv s (pre ++ [x] ++ post) <> fnv s (pre ++ [y] ++ post).
Proof. intros Hs Hx Hy Hp Hn H. exact (Hn (fnv_single_diff s pre x y post Hs Hx Hy Hp H)). Qed.
