(* FNV-1a, 64 bit, as implemented by the crate fnv 1.0.7 (lib.rs):
     FnvHasher::default()  = FnvHasher(0xcbf29ce484222325)
     write(bytes): for byte in bytes { hash = hash ^ (byte as u64); hash = hash.wrapping_mul(0x100000001b3) }
     finish()              = the state.
   Bytes are N below 256, states are N below 2^64; wrapping is the explicit `mod two64`. *)
From RV Require Import Lib.Res.
Open Scope N_scope.

Definition two64 : N := 18446744073709551616.           (* 2^64 *)
Definition fnv_offset : N := 14695981039346656037.      (* 0xcbf29ce484222325 *)
Definition fnv_prime : N := 1099511628211.              (* 0x100000001b3 *)

Definition fnv_step (state byte : N) : N := (N.lxor state byte * fnv_prime) mod two64.

Definition fnv (state : N) (bytes : list N) : N := fold_left fnv_step bytes state.

(* Not in the Rust code: the inverse of one step, used to state that a step is a bijection
   on states.  fnv_prime_inv = 0xce965057aff6957b is the inverse of the prime modulo 2^64. *)
Definition fnv_prime_inv : N := 14886173955864302971.

Definition fnv_unstep (out byte : N) : N := N.lxor ((out * fnv_prime_inv) mod two64) byte.
