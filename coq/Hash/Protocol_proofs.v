(* Lemmas about Hash/Protocol.v.

   PROVED (no assumption):
     - the protocol hash is a function of the registration sequence (determinism);
     - [stream_injective]: different valid registration sequences feed different byte streams
       to the hasher (order, kind, type name, priority, independence marks are all recoverable
       from the stream);
     - single-byte separation lifted to registrations: changing only the kind between two
       payload-free kinds, or one byte of one priority, or one byte of one type name always
       changes the hash;
     - the server's check authorizes exactly when the two hashes are equal, otherwise it sends
       the mismatch notification and requests a disconnect.
   NOT PROVED, and not provable: that two different streams never collide under a 64-bit hash.
   It appears only as the explicit hypothesis [no_collision_assumption (stream a) (stream b)]
   of [hash_differs_under_assumption]. *)
From RV Require Import Lib.Res Hash.Fnv Hash.Fnv_proofs Hash.Protocol.
From Coq Require Import ZifyBool ZifyN.
Open Scope N_scope.
Ltac Zify.zify_post_hook ::= Z.div_mod_to_equations.
Arguments N.add : simpl never. Arguments N.mul : simpl never. Arguments N.pow : simpl never.
Arguments N.ltb : simpl never. Arguments N.leb : simpl never. Arguments N.div : simpl never.
Arguments N.modulo : simpl never. Arguments N.sub : simpl never. Arguments N.eqb : simpl never.

(* ---- determinism ------------------------------------------------------------------------ *)
Lemma protocol_hash_deterministic a b : a = b -> protocol_hash a = protocol_hash b.
Proof. intros ->. reflexivity. Qed.

Lemma protocol_hash_stream a b : stream a = stream b -> protocol_hash a = protocol_hash b.
Proof. unfold protocol_hash. intros ->. reflexivity. Qed.

Lemma protocol_hash_nil : protocol_hash [] = fnv_offset.
Proof. reflexivity. Qed.

Lemma protocol_hash_lt rs : protocol_hash rs < two64.
Proof. apply fnv_lt, fnv_offset_lt. Qed.

(* ---- list helpers ------------------------------------------------------------------------ *)
Lemma app_eq_len {A} (a b c d : list A) : length a = length b -> a ++ c = b ++ d -> a = b /\ c = d.
Proof.
  revert b; induction a as [|x a IH]; intros [|y b] Hl H; cbn [length] in Hl; try discriminate.
  - split; [reflexivity|exact H].
  - cbn [app] in H. injection H as Hx Ht. injection Hl as Hl.
    destruct (IH b Hl Ht) as [-> ->]. subst. split; reflexivity.
Qed.

Lemma reshape {A} (p u w q : list A) x : p ++ (u ++ [x] ++ w) ++ q = (p ++ u) ++ [x] ++ (w ++ q).
Proof. rewrite <- !app_assoc. reflexivity. Qed.

(* ---- little-endian bytes --------------------------------------------------------------- *)
Lemma le_bytes_length n v : length (le_bytes n v) = n.
Proof. revert v; induction n as [|n IH]; intros v; cbn [le_bytes length]; [reflexivity|]. rewrite IH. reflexivity. Qed.

Lemma le_bytes_ok n v : bytes_ok (le_bytes n v).
Proof.
  revert v; induction n as [|n IH]; intros v; cbn [le_bytes]; [constructor|].
  constructor; [unfold byte_ok; lia|apply IH].
Qed.

Lemma le_bytes_inj n v1 v2 : le_bytes n v1 = le_bytes n v2 ->
  v1 mod 256 ^ N.of_nat n = v2 mod 256 ^ N.of_nat n.
Proof.
  revert v1 v2; induction n as [|n IH]; intros v1 v2 H.
  - change (256 ^ N.of_nat 0) with 1. rewrite !N.mod_1_r. reflexivity.
  - cbn [le_bytes] in H. injection H as H0 Ht. apply IH in Ht.
    rewrite Nat2N.inj_succ, N.pow_succ_r'.
    assert (256 ^ N.of_nat n <> 0) as Hnz by (apply N.pow_nonzero; discriminate).
    rewrite !N.mod_mul_r by (discriminate || exact Hnz).
    rewrite H0, Ht. reflexivity.
Qed.

Lemma le_bytes8_inj v1 v2 : v1 < two64 -> v2 < two64 -> le_bytes8 v1 = le_bytes8 v2 -> v1 = v2.
Proof.
  intros H1 H2 H. apply le_bytes_inj in H. change (256 ^ N.of_nat 8) with two64 in H.
  rewrite !N.mod_small in H by assumption. exact H.
Qed.

(* ---- parsing one registration off the front of a stream --------------------------------- *)
Lemma name_parse n1 n2 t1 t2 :
  Forall (fun b => b < 255) n1 -> Forall (fun b => b < 255) n2 ->
  n1 ++ 255 :: t1 = n2 ++ 255 :: t2 -> n1 = n2 /\ t1 = t2.
Proof.
  intros H1. revert n2; induction H1 as [|x n1 Hx H1 IH]; intros n2 H2 H.
  - destruct H2 as [|y n2 Hy H2]; cbn [app] in H.
    + injection H as Ht. split; [reflexivity|exact Ht].
    + injection H as Hy' _. lia.
  - destruct H2 as [|y n2 Hy H2]; cbn [app] in H.
    + injection H as Hx' _. lia.
    + injection H as Hxy Ht. destruct (IH n2 H2 Ht) as [-> ->]. subst. split; reflexivity.
Qed.

Lemma part_index_inj_free p1 p2 : payload_free p1 -> payload_free p2 ->
  part_index p1 = part_index p2 -> p1 = p2.
Proof.
  destruct p1, p2; cbn [payload_free part_index]; intros F1 F2 H;
    try contradiction; try discriminate; reflexivity.
Qed.

Lemma reg_bytes_unfold p nm :
  reg_bytes (mkReg p nm) = part_index p :: part_payload p ++ nm ++ [255].
Proof. unfold reg_bytes, part_bytes, discr_bytes. cbn [r_part r_name app]. reflexivity. Qed.

Lemma reg_bytes_parse r1 r2 t1 t2 : valid_reg r1 -> valid_reg r2 ->
  reg_bytes r1 ++ t1 = reg_bytes r2 ++ t2 -> r1 = r2 /\ t1 = t2.
Proof.
  destruct r1 as [p1 n1], r2 as [p2 n2]. intros [V1 N1] [V2 N2]. cbn [r_part r_name] in *.
  rewrite !reg_bytes_unfold. cbn [app]. rewrite <- !app_assoc. cbn [app].
  intros H. injection H as Hi Hr.
  destruct p1 as [q1| | | | | | |], p2 as [q2| | | | | | |]; cbn [part_index] in Hi; try discriminate;
    cbn [part_payload app] in Hr;
    try (destruct (name_parse _ _ _ _ N1 N2 Hr) as [-> ->]; split; reflexivity).
  cbn [valid_part] in V1, V2.
  apply app_eq_len in Hr; [|unfold le_bytes8; rewrite !le_bytes_length; reflexivity].
  destruct Hr as [Hq Hr]. apply le_bytes8_inj in Hq; [|assumption|assumption]. subst q2.
  destruct (name_parse _ _ _ _ N1 N2 Hr) as [-> ->]. split; reflexivity.
Qed.

Lemma stream_nil : stream [] = [].
Proof. reflexivity. Qed.

Lemma stream_cons r rs : stream (r :: rs) = reg_bytes r ++ stream rs.
Proof. reflexivity. Qed.

Lemma stream_single r : stream [r] = reg_bytes r.
Proof. rewrite stream_cons, stream_nil. apply app_nil_r. Qed.

Lemma stream_app a b : stream (a ++ b) = stream a ++ stream b.
Proof. unfold stream. rewrite map_app. apply concat_app. Qed.

(* Different valid sequences give different hasher inputs. *)
Lemma stream_injective a b : valid_regs a -> valid_regs b -> stream a = stream b -> a = b.
Proof.
  intros Ha. revert b; induction Ha as [|r a Hr Ha IH]; intros b Hb H.
  - destruct Hb as [|r' b Hr' Hb]; [reflexivity|].
    rewrite stream_nil, stream_cons in H. destruct r' as [p nm].
    rewrite reg_bytes_unfold in H. cbn [app] in H. discriminate.
  - destruct Hb as [|r' b Hr' Hb].
    + rewrite stream_nil, stream_cons in H. destruct r as [p nm].
      rewrite reg_bytes_unfold in H. cbn [app] in H. discriminate.
    + rewrite !stream_cons in H.
      destruct (reg_bytes_parse _ _ _ _ Hr Hr' H) as [-> Ht].
      rewrite (IH b Hb Ht). reflexivity.
Qed.

(* ---- every hashed value is a byte ------------------------------------------------------- *)
Lemma name_bytes_ok nm : Forall (fun b => b < 255) nm -> bytes_ok nm.
Proof. apply Forall_impl. intros b Hb. unfold byte_ok. lia. Qed.

Lemma part_index_lt p : part_index p < 256.
Proof. destruct p; reflexivity. Qed.

Lemma part_payload_ok p : bytes_ok (part_payload p).
Proof. destruct p; cbn [part_payload]; [apply le_bytes_ok|constructor..]. Qed.

Lemma reg_bytes_ok' p nm : bytes_ok nm -> bytes_ok (reg_bytes (mkReg p nm)).
Proof.
  intros Hn. rewrite reg_bytes_unfold. constructor; [apply part_index_lt|].
  apply Forall_app; split; [apply part_payload_ok|].
  apply Forall_app; split; [exact Hn|]. constructor; [reflexivity|constructor].
Qed.

Lemma reg_bytes_ok r : valid_reg r -> bytes_ok (reg_bytes r).
Proof. destruct r as [p nm]. intros [_ Hn]. apply reg_bytes_ok', name_bytes_ok, Hn. Qed.

Lemma stream_ok rs : valid_regs rs -> bytes_ok (stream rs).
Proof.
  induction 1 as [|r rs Hr Hrs IH]; [constructor|].
  rewrite stream_cons. apply Forall_app; split; [apply reg_bytes_ok, Hr|exact IH].
Qed.

(* ---- single-byte separation lifted to registrations ------------------------------------- *)
(* two registrations whose byte images differ in exactly one position, in any context *)
Lemma hash_sep_reg pre post r1 r2 u x y w :
  reg_bytes r1 = u ++ [x] ++ w -> reg_bytes r2 = u ++ [y] ++ w ->
  x < 256 -> y < 256 -> bytes_ok w -> valid_regs post ->
  protocol_hash (pre ++ [r1] ++ post) = protocol_hash (pre ++ [r2] ++ post) -> x = y.
Proof.
  intros E1 E2 Hx Hy Hw Hp H. unfold protocol_hash in H.
  rewrite !stream_app, !stream_single, E1, E2, !reshape in H.
  apply fnv_single_diff in H; [exact H|exact fnv_offset_lt|exact Hx|exact Hy|].
  apply Forall_app; split; [exact Hw|apply stream_ok, Hp].
Qed.

(* changing only the kind, between kinds without payload, changes the hash *)
Lemma hash_sep_kind pre post p1 p2 nm :
  payload_free p1 -> payload_free p2 -> bytes_ok nm -> valid_regs post ->
  protocol_hash (pre ++ [mkReg p1 nm] ++ post) = protocol_hash (pre ++ [mkReg p2 nm] ++ post) ->
  p1 = p2.
Proof.
  intros F1 F2 Hn Hp H. apply part_index_inj_free; [exact F1|exact F2|].
  apply (hash_sep_reg pre post _ _ [] (part_index p1) (part_index p2) (nm ++ [255])) in H;
    [exact H| | |apply part_index_lt|apply part_index_lt| |exact Hp].
  - rewrite reg_bytes_unfold. destruct p1; [contradiction|reflexivity..].
  - rewrite reg_bytes_unfold. destruct p2; [contradiction|reflexivity..].
  - apply Forall_app; split; [exact Hn|]. constructor; [reflexivity|constructor].
Qed.

(* changing one byte of one type name changes the hash *)
Lemma hash_sep_name_byte pre post p u x y w :
  x < 256 -> y < 256 -> bytes_ok w -> valid_regs post ->
  protocol_hash (pre ++ [mkReg p (u ++ [x] ++ w)] ++ post) =
  protocol_hash (pre ++ [mkReg p (u ++ [y] ++ w)] ++ post) -> x = y.
Proof.
  intros Hx Hy Hw Hp H.
  apply (hash_sep_reg pre post _ _ (part_index p :: part_payload p ++ u) x y (w ++ [255])) in H;
    [exact H| | |exact Hx|exact Hy| |exact Hp].
  - rewrite reg_bytes_unfold. cbn [app]. rewrite <- !app_assoc. reflexivity.
  - rewrite reg_bytes_unfold. cbn [app]. rewrite <- !app_assoc. reflexivity.
  - apply Forall_app; split; [exact Hw|]. constructor; [reflexivity|constructor].
Qed.

(* changing one byte of one priority changes the hash *)
Lemma hash_sep_priority_byte pre post q1 q2 nm u x y w :
  q1 < two64 -> q2 < two64 ->
  le_bytes8 q1 = u ++ [x] ++ w -> le_bytes8 q2 = u ++ [y] ++ w ->
  bytes_ok nm -> valid_regs post ->
  protocol_hash (pre ++ [mkReg (Replicate q1) nm] ++ post) =
  protocol_hash (pre ++ [mkReg (Replicate q2) nm] ++ post) -> q1 = q2.
Proof.
  intros H1 H2 E1 E2 Hn Hp H.
  pose proof (le_bytes_ok 8 q1) as B1. pose proof (le_bytes_ok 8 q2) as B2.
  fold (le_bytes8 q1) in B1. fold (le_bytes8 q2) in B2. rewrite E1 in B1. rewrite E2 in B2.
  apply Forall_app in B1. destruct B1 as [_ B1]. apply Forall_app in B1. destruct B1 as [Bx Bw].
  apply Forall_app in B2. destruct B2 as [_ B2]. apply Forall_app in B2. destruct B2 as [By _].
  inversion Bx as [|? ? Hx _]; subst. inversion By as [|? ? Hy _]; subst.
  apply (hash_sep_reg pre post _ _ (0 :: u) x y (w ++ nm ++ [255])) in H;
    [|  | |exact Hx|exact Hy| |exact Hp].
  - subst y. apply le_bytes8_inj; [exact H1|exact H2|]. rewrite E1, E2. reflexivity.
  - rewrite reg_bytes_unfold. cbn [part_index part_payload]. rewrite E1. cbn [app].
    rewrite <- !app_assoc. reflexivity.
  - rewrite reg_bytes_unfold. cbn [part_index part_payload]. rewrite E2. cbn [app].
    rewrite <- !app_assoc. reflexivity.
  - apply Forall_app; split; [exact Bw|]. apply Forall_app; split; [exact Hn|].
    constructor; [reflexivity|constructor].
Qed.

(* instance: priorities that differ only in the lowest byte (e.g. 0 and 1) *)
Lemma hash_sep_priority_low pre post q1 q2 nm :
  q1 < two64 -> q2 < two64 -> q1 / 256 = q2 / 256 ->
  bytes_ok nm -> valid_regs post ->
  protocol_hash (pre ++ [mkReg (Replicate q1) nm] ++ post) =
  protocol_hash (pre ++ [mkReg (Replicate q2) nm] ++ post) -> q1 = q2.
Proof.
  intros H1 H2 E. apply (hash_sep_priority_byte pre post q1 q2 nm [] (q1 mod 256) (q2 mod 256)
    (le_bytes 7 (q1 / 256))); [exact H1|exact H2|reflexivity|].
  rewrite E. reflexivity.
Qed.

(* ---- what depends on the unproved assumption --------------------------------------------- *)
Lemma hash_differs_under_assumption a b : valid_regs a -> valid_regs b -> a <> b ->
  no_collision_assumption (stream a) (stream b) -> protocol_hash a <> protocol_hash b.
Proof.
  intros Ha Hb Hn Hassume. unfold protocol_hash. apply Hassume.
  intros E. apply Hn. exact (stream_injective a b Ha Hb E).
Qed.

(* ---- validity is decidable -------------------------------------------------------------- *)
Lemma valid_regb_spec r : valid_regb r = true <-> valid_reg r.
Proof.
  unfold valid_regb, valid_reg. rewrite andb_true_iff, forallb_forall, Forall_forall.
  assert (valid_partb (r_part r) = true <-> valid_part (r_part r)) as ->.
  { destruct (r_part r); cbn [valid_partb valid_part]; [apply N.ltb_lt|tauto..]. }
  split; intros [Hp Hn]; (split; [exact Hp|]); intros b Hb; apply N.ltb_lt, Hn, Hb.
Qed.

Lemma valid_regsb_spec rs : valid_regsb rs = true <-> valid_regs rs.
Proof.
  unfold valid_regsb, valid_regs. rewrite forallb_forall, Forall_forall.
  split; intros H r Hr; apply valid_regb_spec, H, Hr.
Qed.

(* ---- the executable entry point --------------------------------------------------------- *)
Lemma part_of_index_ok i pr : i < 8 ->
  exists p, part_of_index i pr = Ok p /\ part_index p = i /\ valid_part p.
Proof.
  intros Hi.
  assert (i = 0 \/ i = 1 \/ i = 2 \/ i = 3 \/ i = 4 \/ i = 5 \/ i = 6 \/ i = 7) as Hc by lia.
  destruct Hc as [-> | [-> | [-> | [-> | [-> | [-> | [-> | ->]]]]]]];
    eexists; (split; [reflexivity|split; [reflexivity|]]); try exact I.
  cbn [valid_part]. apply N.mod_lt, two64_nz.
Qed.

Lemma part_of_index_panic i pr : 8 <= i -> part_of_index i pr = Panic.
Proof.
  intros Hi. unfold part_of_index.
  repeat (match goal with |- context [?a =? ?b] => destruct (a =? b) eqn:?; [lia|] end).
  reflexivity.
Qed.

(* ---- handshake (server.rs check_protocol) ----------------------------------------------- *)
Lemma check_protocol_match c : check_protocol c c = (true, false, false).
Proof. unfold check_protocol. rewrite N.eqb_refl. reflexivity. Qed.

Lemma check_protocol_mismatch c s : c <> s -> check_protocol c s = (false, true, true).
Proof. intros H. unfold check_protocol. destruct (c =? s) eqn:E; [lia|reflexivity]. Qed.

(* authorized exactly when the hashes match; otherwise notified and disconnect requested *)
Lemma check_protocol_spec c s :
  (c = s /\ check_protocol c s = (true, false, false)) \/
  (c <> s /\ check_protocol c s = (false, true, true)).
Proof.
  destruct (N.eq_dec c s) as [-> | Hn].
  - left. split; [reflexivity|apply check_protocol_match].
  - right. split; [exact Hn|apply check_protocol_mismatch, Hn].
Qed.

Lemma check_protocol_authorized_iff c s : fst (fst (check_protocol c s)) = true <-> c = s.
Proof.
  destruct (check_protocol_spec c s) as [[E ->] | [Hn ->]]; cbn [fst]; split; intros H;
    try reflexivity; try assumption; try discriminate. contradiction.
Qed.

(* same registration sequences on both sides: always authorized *)
Lemma handshake_same_sequence a b : a = b ->
  check_protocol (protocol_hash a) (protocol_hash b) = (true, false, false).
Proof. intros ->. apply check_protocol_match. Qed.

(* different valid sequences: rejected, provided these two streams do not collide *)
Lemma handshake_different_under_assumption a b : valid_regs a -> valid_regs b -> a <> b ->
  no_collision_assumption (stream a) (stream b) ->
  check_protocol (protocol_hash a) (protocol_hash b) = (false, true, true).
Proof.
  intros Ha Hb Hn Hassume. apply check_protocol_mismatch.
  exact (hash_differs_under_assumption a b Ha Hb Hn Hassume).
Qed.
