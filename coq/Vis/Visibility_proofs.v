(* Lemmas about Vis/Visibility.v against Vis/VisSpec.v.
   Method: every operation acts pointwise on the "view" of an entity
   (its map entry, membership in added, membership in removed); the four legal views per
   policy are in bijection with (a_cur, a_prev) (function `conc`); the invariant is
   `view v e = conc wl cur prev` for every e. *)
From RV Require Import Lib.Res Vis.Visibility Vis.VisSpec.
From Coq Require Import ZifyBool ZifyN.
Open Scope N_scope.
Ltac Zify.zify_post_hook ::= Z.div_mod_to_equations.
Arguments N.add : simpl never. Arguments N.mul : simpl never. Arguments N.pow : simpl never.
Arguments N.ltb : simpl never. Arguments N.leb : simpl never. Arguments N.div : simpl never.
Arguments N.modulo : simpl never. Arguments N.sub : simpl never. Arguments N.eqb : simpl never.

(* ---------- maps and sets ---------- *)

Lemma lookup_map_remove {A} e e' (l : list (N * A)) :
  lookup e' (map_remove e l) = if e' =? e then None else lookup e' l.
Proof.
  induction l as [|[k i] r IH]; cbn [map_remove filter lookup fst negb].
  - destruct (e' =? e); reflexivity.
  - fold (map_remove e r).
    destruct (k =? e) eqn:Hke; cbn [negb lookup].
    + rewrite IH. destruct (e' =? e) eqn:He'; [reflexivity|].
      destruct (k =? e') eqn:Hk; [|reflexivity].
      apply N.eqb_eq in Hke, Hk. subst. rewrite N.eqb_refl in He'. discriminate.
    + rewrite IH. destruct (k =? e') eqn:Hk.
      * apply N.eqb_eq in Hk. subst. rewrite Hke. reflexivity.
      * reflexivity.
Qed.

Lemma lookup_map_insert {A} e e' (i : A) (l : list (N * A)) :
  lookup e' (map_insert e i l) = if e' =? e then Some i else lookup e' (l).
Proof.
  unfold map_insert. cbn [lookup]. rewrite (N.eqb_sym e e').
  destruct (e' =? e) eqn:He; [reflexivity|].
  rewrite lookup_map_remove, He. reflexivity.
Qed.

Lemma set_mem_insert e e' s : set_mem e' (set_insert e s) = (e' =? e) || set_mem e' s.
Proof.
  unfold set_insert. destruct (set_mem e s) eqn:Hm.
  - destruct (e' =? e) eqn:He; [|reflexivity].
    apply N.eqb_eq in He. subst. rewrite Hm. reflexivity.
  - unfold set_mem. cbn [existsb]. rewrite (N.eqb_sym e e'). reflexivity.
Qed.

Lemma set_mem_remove e e' s : set_mem e' (set_remove e s) = negb (e' =? e) && set_mem e' s.
Proof.
  unfold set_mem, set_remove.
  induction s as [|k r IH]; cbn [filter existsb].
  - destruct (e' =? e); reflexivity.
  - destruct (k =? e) eqn:Hke; cbn [negb existsb]; rewrite IH.
    + destruct (k =? e') eqn:Hk; cbn [orb]; [|reflexivity].
      apply N.eqb_eq in Hke, Hk. subst. rewrite N.eqb_refl. reflexivity.
    + destruct (k =? e') eqn:Hk; cbn [orb]; [|reflexivity].
      apply N.eqb_eq in Hk. subst. rewrite Hke. reflexivity.
Qed.

Lemma set_mem_nil e : set_mem e [] = false.
Proof. reflexivity. Qed.

Lemma set_mem_In e s : set_mem e s = true <-> In e s.
Proof.
  unfold set_mem. rewrite existsb_exists. split.
  - intros [x [Hin Hx]]. apply N.eqb_eq in Hx. subst. exact Hin.
  - intros Hin. exists e. split; [exact Hin|apply N.eqb_refl].
Qed.

Lemma lookup_fold_remove {A} e' s (l : list (N * A)) :
  lookup e' (fold_left (fun l0 e => map_remove e l0) s l)
  = if set_mem e' s then None else lookup e' l.
Proof.
  revert l. induction s as [|k r IH]; intros l; cbn [fold_left].
  - reflexivity.
  - rewrite IH, lookup_map_remove. unfold set_mem. cbn [existsb]. fold (set_mem e' r).
    rewrite (N.eqb_sym k e').
    destruct (set_mem e' r); destruct (e' =? k); reflexivity.
Qed.

Lemma lookup_fold_insert {A} e' (i : A) s (l : list (N * A)) :
  lookup e' (fold_left (fun l0 e => map_insert e i l0) s l)
  = if set_mem e' s then Some i else lookup e' l.
Proof.
  revert l. induction s as [|k r IH]; intros l; cbn [fold_left].
  - reflexivity.
  - rewrite IH, lookup_map_insert. unfold set_mem. cbn [existsb]. fold (set_mem e' r).
    rewrite (N.eqb_sym k e').
    destruct (set_mem e' r); destruct (e' =? k); reflexivity.
Qed.

(* ---------- views ---------- *)

Inductive cinfo := CNone | CBlHidden | CBlQueued | CWlVisible | CWlJustAdded.
Definition cell := (cinfo * bool * bool)%type.

Definition list_info (vl : vlist) (e : N) : cinfo :=
  match vl with
  | Blacklist l =>
      match lookup e l with
      | None => CNone | Some BlHidden => CBlHidden | Some BlQueuedForRemoval => CBlQueued
      end
  | Whitelist l =>
      match lookup e l with
      | None => CNone | Some WlVisible => CWlVisible | Some WlJustAdded => CWlJustAdded
      end
  end.

Definition view (v : vis) (e : N) : cell :=
  (list_info (v_list v) e, set_mem e (v_added v), set_mem e (v_removed v)).

(* the effect of each operation on the view of the entity it is applied to *)
Definition set_cell (wl b : bool) (c : cell) : cell :=
  let '(i, a, r) := c in
  if wl then
    if b then
      if r then (CWlVisible, a, false)
      else
        match i with
        | CNone | CWlJustAdded => (CWlJustAdded, true, false)
        | _ => (i, a, false)
        end
    else
      match i with
      | CNone => c
      | _ => if a then (CNone, false, r) else (CNone, false, true)
      end
  else
    if b then
      match i with
      | CNone => c
      | _ => if a then (CNone, false, r) else (CBlQueued, false, true)
      end
    else
      match i with
      | CNone => (CBlHidden, true, r)
      | _ => (CBlHidden, a, false)
      end.

Definition rd_cell (c : cell) : cell :=
  let '(i, a, r) := c in
  match i with CNone => c | _ => (CNone, false, false) end.

Definition update_cell (wl : bool) (c : cell) : cell :=
  let '(i, a, r) := c in
  if wl then ((if a then CWlVisible else i), false, false)
  else ((if r then CNone else i), false, false).

Definition drain_cell (wl : bool) (c : cell) : cell :=
  let '(i, a, r) := c in if wl then (i, a, false) else (i, false, r).

Definition lost_cell (wl : bool) (c : cell) : bool :=
  let '(i, a, r) := c in if wl then r else a.

Definition state_info (wl : bool) (i : cinfo) : vstate :=
  if wl then match i with CWlJustAdded => VGained | CWlVisible => VVisible | _ => VHidden end
  else match i with CBlQueued => VGained | CBlHidden => VHidden | _ => VVisible end.

Ltac eqb_cases e' e :=
  let H := fresh "Heq" in
  destruct (e' =? e) eqn:H;
  [apply N.eqb_eq in H; try subst e' | ].

Lemma is_whitelist_set_visibility v e b : is_whitelist (set_visibility v e b) = is_whitelist v.
Proof.
  destruct v as [[l|l] a r]; unfold set_visibility, is_whitelist; cbn [v_list v_added v_removed];
    destruct b; try destruct (set_mem e r); destruct (lookup e l) as [[|]|];
    try destruct (set_mem e a); reflexivity.
Qed.

Lemma is_whitelist_update v : is_whitelist (update v) = is_whitelist v.
Proof. destruct v as [[l|l] a r]; reflexivity. Qed.

Lemma is_whitelist_remove_despawned v e : is_whitelist (remove_despawned v e) = is_whitelist v.
Proof.
  destruct v as [[l|l] a r]; unfold remove_despawned, is_whitelist; cbn [v_list];
    destruct (lookup e l); reflexivity.
Qed.

Lemma is_whitelist_drain_lost v : is_whitelist (fst (drain_lost v)) = is_whitelist v.
Proof. destruct v as [[l|l] a r]; reflexivity. Qed.

Lemma view_set_visibility v e b e' :
  view (set_visibility v e b) e'
  = if e' =? e then set_cell (is_whitelist v) b (view v e') else view v e'.
Proof.
  destruct v as [[l|l] a r]; unfold set_visibility, view, is_whitelist, set_cell, list_info;
    cbn [v_list v_added v_removed].
  - destruct b.
    + destruct (lookup e l) as [i|] eqn:Hl.
      * destruct (set_mem e a) eqn:Ha; cbn [v_list v_added v_removed].
        -- rewrite lookup_map_remove, set_mem_remove.
           eqb_cases e' e; [rewrite Hl, Ha; destruct i; reflexivity|reflexivity].
        -- rewrite lookup_map_insert, set_mem_remove, set_mem_insert.
           eqb_cases e' e; [rewrite Hl, Ha; destruct i; reflexivity|reflexivity].
      * cbn [v_list v_added v_removed].
        eqb_cases e' e; [rewrite Hl; reflexivity|reflexivity].
    + destruct (lookup e l) as [i|] eqn:Hl; cbn [v_list v_added v_removed].
      * rewrite lookup_map_insert, set_mem_remove.
        eqb_cases e' e; [rewrite Hl; destruct i; reflexivity|reflexivity].
      * rewrite lookup_map_insert, set_mem_insert.
        eqb_cases e' e; [rewrite Hl; reflexivity|reflexivity].
  - destruct b.
    + destruct (set_mem e r) eqn:Hr.
      * cbn [v_list v_added v_removed]. rewrite lookup_map_insert, set_mem_remove.
        eqb_cases e' e; [rewrite Hr; reflexivity|reflexivity].
      * destruct (lookup e l) as [[|]|] eqn:Hl; cbn [v_list v_added v_removed].
        -- rewrite set_mem_remove.
           eqb_cases e' e; [rewrite Hl, Hr; reflexivity|reflexivity].
        -- rewrite set_mem_remove, set_mem_insert.
           eqb_cases e' e; [rewrite Hl, Hr; reflexivity|reflexivity].
        -- rewrite lookup_map_insert, set_mem_remove, set_mem_insert.
           eqb_cases e' e; [rewrite Hl, Hr; reflexivity|reflexivity].
    + destruct (lookup e l) as [i|] eqn:Hl.
      * destruct (set_mem e a) eqn:Ha; cbn [v_list v_added v_removed].
        -- rewrite lookup_map_remove, set_mem_remove.
           eqb_cases e' e; [rewrite Hl, Ha; destruct i; reflexivity|reflexivity].
        -- rewrite lookup_map_remove, set_mem_remove, set_mem_insert.
           eqb_cases e' e; [rewrite Hl, Ha; destruct i; reflexivity|reflexivity].
      * cbn [v_list v_added v_removed].
        eqb_cases e' e; [rewrite Hl; reflexivity|reflexivity].
Qed.

Lemma view_remove_despawned v e e' :
  view (remove_despawned v e) e' = if e' =? e then rd_cell (view v e') else view v e'.
Proof.
  destruct v as [[l|l] a r]; unfold remove_despawned, view, rd_cell, list_info;
    cbn [v_list v_added v_removed].
  - destruct (lookup e l) as [i|] eqn:Hl; cbn [v_list v_added v_removed].
    + rewrite lookup_map_remove, !set_mem_remove.
      eqb_cases e' e; [rewrite Hl; destruct i; reflexivity|reflexivity].
    + rewrite lookup_map_remove.
      eqb_cases e' e; [rewrite Hl; reflexivity|reflexivity].
  - destruct (lookup e l) as [i|] eqn:Hl; cbn [v_list v_added v_removed].
    + rewrite lookup_map_remove, !set_mem_remove.
      eqb_cases e' e; [rewrite Hl; destruct i; reflexivity|reflexivity].
    + rewrite lookup_map_remove.
      eqb_cases e' e; [rewrite Hl; reflexivity|reflexivity].
Qed.

Lemma view_update v e : view (update v) e = update_cell (is_whitelist v) (view v e).
Proof.
  destruct v as [[l|l] a r]; unfold update, view, update_cell, is_whitelist, list_info;
    cbn [v_list v_added v_removed].
  - rewrite lookup_fold_remove. destruct (set_mem e r); reflexivity.
  - rewrite lookup_fold_insert. destruct (set_mem e a); reflexivity.
Qed.

Lemma view_drain_lost v e :
  view (fst (drain_lost v)) e = drain_cell (is_whitelist v) (view v e).
Proof. destruct v as [[l|l] a r]; reflexivity. Qed.

Lemma In_drain_lost v e :
  In e (snd (drain_lost v)) <-> lost_cell (is_whitelist v) (view v e) = true.
Proof.
  destruct v as [[l|l] a r]; unfold drain_lost, view, lost_cell, is_whitelist;
    cbn [v_list v_added v_removed snd]; symmetry; apply set_mem_In.
Qed.

Lemma state_view v e : state v e = state_info (is_whitelist v) (fst (fst (view v e))).
Proof.
  destruct v as [[l|l] a r]; unfold state, view, state_info, is_whitelist, list_info;
    cbn [v_list fst]; destruct (lookup e l) as [[|]|]; reflexivity.
Qed.

(* ---------- pointwise independence at the level of the functions ---------- *)

Lemma state_set_visibility_other v e b e' : e' <> e ->
  state (set_visibility v e b) e' = state v e'.
Proof.
  intros Hne. rewrite !state_view, is_whitelist_set_visibility, view_set_visibility.
  apply N.eqb_neq in Hne. rewrite Hne. reflexivity.
Qed.

Lemma state_remove_despawned_other v e e' : e' <> e ->
  state (remove_despawned v e) e' = state v e'.
Proof.
  intros Hne. rewrite !state_view, is_whitelist_remove_despawned, view_remove_despawned.
  apply N.eqb_neq in Hne. rewrite Hne. reflexivity.
Qed.

Lemma is_visible_set_visibility_other v e b e' : e' <> e ->
  is_visible (set_visibility v e b) e' = is_visible v e'.
Proof. intros Hne. unfold is_visible. rewrite state_set_visibility_other by exact Hne. reflexivity. Qed.

Lemma is_visible_remove_despawned_other v e e' : e' <> e ->
  is_visible (remove_despawned v e) e' = is_visible v e'.
Proof. intros Hne. unfold is_visible. rewrite state_remove_despawned_other by exact Hne. reflexivity. Qed.

(* the query reports what was just set, whatever the state *)
Lemma is_visible_set_visibility_same v e b : is_visible (set_visibility v e b) e = b.
Proof.
  unfold is_visible. rewrite state_view, is_whitelist_set_visibility, view_set_visibility, N.eqb_refl.
  unfold view. destruct v as [[l|l] a r]; unfold is_whitelist, list_info, set_cell, state_info;
    cbn [v_list v_added v_removed fst];
    destruct b; destruct (lookup e l) as [[|]|]; destruct (set_mem e a); destruct (set_mem e r);
    reflexivity.
Qed.

(* ---------- the four legal views per policy ---------- *)

Definition conc (wl cur ep : bool) : cell :=
  if wl then
    match cur, ep with
    | false, false => (CNone, false, false)
    | false, true => (CNone, false, true)
    | true, false => (CWlJustAdded, true, false)
    | true, true => (CWlVisible, false, false)
    end
  else
    match cur, ep with
    | true, true => (CNone, false, false)
    | false, true => (CBlHidden, true, false)
    | false, false => (CBlHidden, false, false)
    | true, false => (CBlQueued, false, true)
    end.

Lemma conc_inj wl cur ep cur' ep' : conc wl cur ep = conc wl cur' ep' -> cur = cur' /\ ep = ep'.
Proof. destruct wl, cur, ep, cur', ep'; cbn; intros H; try discriminate H; split; reflexivity. Qed.

Lemma set_cell_conc wl b cur ep :
  set_cell wl b (conc wl cur ep) = conc wl b ep.
Proof. destruct wl, b, cur, ep; reflexivity. Qed.

Lemma drain_cell_conc wl cur ep : drain_cell wl (conc wl cur ep) = conc wl cur (ep && cur).
Proof. destruct wl, cur, ep; reflexivity. Qed.

Lemma lost_cell_conc wl cur ep : lost_cell wl (conc wl cur ep) = ep && negb cur.
Proof. destruct wl, cur, ep; reflexivity. Qed.

Lemma rd_cell_conc wl cur ep : (wl = true -> cur = false -> ep = false) ->
  rd_cell (conc wl cur ep) = conc wl (negb wl) (negb wl).
Proof.
  destruct wl, cur, ep; intros H; try reflexivity.
  discriminate (H eq_refl eq_refl).
Qed.

Lemma update_cell_conc wl cur ep : update_cell wl (conc wl cur ep) = conc wl cur cur.
Proof. destruct wl, cur, ep; reflexivity. Qed.

Lemma state_info_conc wl cur ep : state_info wl (fst (fst (conc wl cur ep))) = classify cur ep.
Proof. destruct wl, cur, ep; reflexivity. Qed.

Lemma classify_drained cur ep : classify cur (ep && cur) = classify cur ep.
Proof. destruct cur, ep; reflexivity. Qed.

Lemma state_conc v e cur ep : view v e = conc (is_whitelist v) cur ep -> state v e = classify cur ep.
Proof. intros H. rewrite state_view, H. apply state_info_conc. Qed.

Lemma is_visible_conc v e cur ep : view v e = conc (is_whitelist v) cur ep -> is_visible v e = cur.
Proof.
  intros H. unfold is_visible. rewrite (state_conc _ _ _ _ H). destruct cur, ep; reflexivity.
Qed.

(* ---------- invariant ---------- *)

Definition Inv (wl : bool) (s : vsys) (cs : N -> acell) : Prop :=
  is_whitelist (s_vis s) = wl /\
  forall e, view (s_vis s) e = conc wl (a_cur (cs e)) (a_prev (cs e)) /\
            count_occ N.eq_dec (s_pending s) e = a_pend (cs e).

Lemma Inv_init wl : Inv wl (vis_init wl) (fun _ => a_init wl).
Proof. destruct wl; split; try reflexivity; intros e; split; reflexivity. Qed.

(* despawn records produced by the buffer loop for an entity with n occurrences *)
Definition loop_record (wl cur : bool) (n : nat) : bool :=
  match n with O => false | S O => cur | S (S _) => cur || negb wl end.

Lemma despawn_loop_spec wl buf : forall v v' ds,
  is_whitelist v = wl -> despawn_loop v buf = (v', ds) ->
  is_whitelist v' = wl /\
  forall e cur ep, view v e = conc wl cur ep -> (wl = true -> cur = false -> ep = false) ->
    view v' e = match count_occ N.eq_dec buf e with
                | O => conc wl cur ep
                | S _ => conc wl (negb wl) (negb wl)
                end /\
    (In e ds <-> loop_record wl cur (count_occ N.eq_dec buf e) = true).
Proof.
  induction buf as [|x r IH]; intros v v' ds Hwl Hloop.
  - cbn [despawn_loop] in Hloop. injection Hloop as <- <-.
    split; [exact Hwl|]. intros e cur ep Hv _. cbn [count_occ loop_record].
    split; [exact Hv|]. split; [intros []|discriminate].
  - cbn [despawn_loop] in Hloop.
    destruct (despawn_loop (remove_despawned v x) r) as [v1 ds1] eqn:Hrec.
    injection Hloop as <- <-.
    assert (Hwl1 : is_whitelist (remove_despawned v x) = wl)
      by (rewrite is_whitelist_remove_despawned; exact Hwl).
    destruct (IH _ _ _ Hwl1 Hrec) as [Hwl' IHe].
    split; [exact Hwl'|]. intros e cur ep Hv Hside.
    cbn [count_occ]. destruct (N.eq_dec x e) as [-> | Hne].
    + assert (Hv1 : view (remove_despawned v e) e = conc wl (negb wl) (negb wl)).
      { rewrite view_remove_despawned, N.eqb_refl, Hv. apply rd_cell_conc. exact Hside. }
      assert (Hside1 : wl = true -> negb wl = false -> negb wl = false) by (intros _ H; exact H).
      destruct (IHe e _ _ Hv1 Hside1) as [Hview HIn].
      assert (Hvis : is_visible v e = cur).
      { apply (is_visible_conc v e cur ep). rewrite Hwl. exact Hv. }
      rewrite Hvis. split.
      * destruct (count_occ N.eq_dec r e); exact Hview.
      * destruct (count_occ N.eq_dec r e) as [|n]; cbn [loop_record] in *.
        -- destruct cur; split.
           ++ reflexivity.
           ++ intros _. left. reflexivity.
           ++ intros Hin. apply HIn in Hin. discriminate Hin.
           ++ discriminate.
        -- assert (HIn' : In e ds1 <-> negb wl = true).
           { rewrite HIn. destruct n; destruct wl; cbn; tauto. }
           destruct cur; cbn [orb]; split.
           ++ reflexivity.
           ++ intros _. left. reflexivity.
           ++ intros Hin. apply HIn'. exact Hin.
           ++ intros Hd. apply HIn'. exact Hd.
    + assert (Hv1 : view (remove_despawned v x) e = conc wl cur ep).
      { rewrite view_remove_despawned.
        assert (Hne' : e =? x = false) by (apply N.eqb_neq; congruence).
        rewrite Hne'. exact Hv. }
      destruct (IHe e _ _ Hv1 Hside) as [Hview HIn].
      split; [exact Hview|]. rewrite <- HIn.
      destruct (is_visible v x); [|tauto].
      split; [intros [Hx | Hin]; [congruence|exact Hin]|intros Hin; right; exact Hin].
Qed.

Lemma vis_tick_spec wl s cs : Inv wl s cs ->
  Inv wl (fst (vis_tick s)) (fun e => astep wl e (cs e) VTick) /\
  is_whitelist (o_mid (snd (vis_tick s))) = wl /\
  forall e,
    (In e (o_despawns (snd (vis_tick s))) <-> despawn_record wl (cs e) = true) /\
    view (o_mid (snd (vis_tick s))) e = conc wl (mid_cur wl (cs e))
                                            (match a_pend (cs e) with
                                             | O => a_prev (cs e) && a_cur (cs e)
                                             | S _ => negb wl end).
Proof.
  intros [Hwl Hinv]. unfold vis_tick.
  pose proof (is_whitelist_drain_lost (s_vis s)) as Hwl1.
  pose proof (view_drain_lost (s_vis s)) as Hview1.
  pose proof (In_drain_lost (s_vis s)) as Hlost.
  destruct (drain_lost (s_vis s)) as [v1 lost]. cbn [fst snd] in Hwl1, Hview1, Hlost.
  rewrite Hwl in Hwl1, Hview1, Hlost.
  destruct (despawn_loop v1 (s_pending s)) as [v2 ds] eqn:Hloop.
  destruct (despawn_loop_spec wl _ _ _ _ Hwl1 Hloop) as [Hwl2 Hl].
  cbn [fst snd o_despawns o_mid s_vis s_pending].
  assert (Hmid : forall e,
    view v2 e = conc wl (mid_cur wl (cs e))
                  (match a_pend (cs e) with O => a_prev (cs e) && a_cur (cs e) | S _ => negb wl end)
    /\ (In e ds <-> loop_record wl (a_cur (cs e)) (a_pend (cs e)) = true)).
  { intros e. destruct (Hinv e) as [Hv Hc].
    assert (Hv1 : view v1 e = conc wl (a_cur (cs e)) (a_prev (cs e) && a_cur (cs e))).
    { rewrite Hview1, Hv. apply drain_cell_conc. }
    assert (Hside : wl = true -> a_cur (cs e) = false -> a_prev (cs e) && a_cur (cs e) = false).
    { intros _ ->. apply andb_false_r. }
    destruct (Hl e _ _ Hv1 Hside) as [Hv2 HIn]. rewrite Hc in Hv2, HIn.
    split; [|exact HIn]. unfold mid_cur. destruct (a_pend (cs e)); exact Hv2. }
  split; [|split; [exact Hwl2|]].
  - split; [cbn [s_vis]; rewrite is_whitelist_update; exact Hwl2|].
    intros e. cbn [s_vis s_pending count_occ astep].
    destruct (Hmid e) as [Hv2 _].
    rewrite view_update, Hwl2, Hv2, update_cell_conc. unfold mid_cur.
    destruct (a_pend (cs e)); cbn [a_cur a_prev a_pend a_init]; split; reflexivity.
  - intros e. destruct (Hmid e) as [Hv2 HIn]. split; [|exact Hv2].
    rewrite in_app_iff, HIn, Hlost. destruct (Hinv e) as [Hv _]. rewrite Hv, lost_cell_conc.
    unfold despawn_record, loop_record. rewrite orb_true_iff. reflexivity.
Qed.

Lemma vis_step_Inv wl s cs op : Inv wl s cs ->
  Inv wl (fst (vis_step s op)) (fun e => astep wl e (cs e) op).
Proof.
  intros HI. destruct op as [x b|x|].
  - destruct HI as [Hwl Hinv]. cbn [vis_step fst]. split.
    + cbn [s_vis]. rewrite is_whitelist_set_visibility. exact Hwl.
    + intros e. cbn [s_vis s_pending astep]. destruct (Hinv e) as [Hv Hc].
      rewrite view_set_visibility, Hwl, (N.eqb_sym x e).
      destruct (e =? x); cbn [a_cur a_prev a_pend].
      * rewrite Hv, set_cell_conc. split; [reflexivity|exact Hc].
      * split; [exact Hv|exact Hc].
  - destruct HI as [Hwl Hinv]. cbn [vis_step fst]. split; [exact Hwl|].
    intros e. cbn [s_vis s_pending astep]. destruct (Hinv e) as [Hv Hc].
    rewrite count_occ_app, Hc. cbn [count_occ].
    destruct (N.eq_dec x e) as [-> | Hne].
    + rewrite N.eqb_refl. cbn [a_cur a_prev a_pend]. split; [exact Hv|lia].
    + apply N.eqb_neq in Hne. rewrite Hne. split; [exact Hv|lia].
  - unfold vis_step. pose proof (vis_tick_spec wl s cs HI) as [H _].
    destruct (vis_tick s) as [s' o]. exact H.
Qed.

Lemma vis_exec_Inv wl ops : forall s cs, Inv wl s cs ->
  Inv wl (vis_exec s ops) (fun e => fold_left (astep wl e) ops (cs e)).
Proof.
  induction ops as [|op r IH]; intros s cs HI; [exact HI|].
  unfold vis_exec. cbn [fold_left].
  exact (IH _ _ (vis_step_Inv wl s cs op HI)).
Qed.

Lemma reachable_Inv wl ops : Inv wl (vis_exec (vis_init wl) ops) (spec wl ops).
Proof. exact (vis_exec_Inv wl ops _ _ (Inv_init wl)). Qed.

(* ---------- the specification, unfolded (history-style equations) ---------- *)

Lemma spec_nil wl e : spec wl [] e = a_init wl.
Proof. reflexivity. Qed.

Lemma spec_snoc wl ops op e : spec wl (ops ++ [op]) e = astep wl e (spec wl ops e) op.
Proof. unfold spec. rewrite fold_left_app. reflexivity. Qed.

Lemma spec_cur_nil wl e : spec_cur wl [] e = negb wl.
Proof. reflexivity. Qed.

Lemma spec_cur_set_same wl ops e b : spec_cur wl (ops ++ [VSet e b]) e = b.
Proof. unfold spec_cur. rewrite spec_snoc. cbn [astep]. rewrite N.eqb_refl. reflexivity. Qed.

Lemma spec_cur_set_other wl ops e e' b : e' <> e ->
  spec_cur wl (ops ++ [VSet e' b]) e = spec_cur wl ops e.
Proof.
  intros Hne. unfold spec_cur. rewrite spec_snoc. cbn [astep].
  apply N.eqb_neq in Hne. rewrite Hne. reflexivity.
Qed.

Lemma spec_cur_despawn wl ops e e' : spec_cur wl (ops ++ [VDespawn e']) e = spec_cur wl ops e.
Proof. unfold spec_cur. rewrite spec_snoc. cbn [astep]. destruct (e' =? e); reflexivity. Qed.

Lemma spec_cur_tick wl ops e :
  spec_cur wl (ops ++ [VTick]) e
  = match spec_pend wl ops e with O => spec_cur wl ops e | S _ => negb wl end.
Proof.
  unfold spec_cur, spec_pend. rewrite spec_snoc. cbn [astep].
  destruct (a_pend (spec wl ops e)); reflexivity.
Qed.

Lemma spec_prev_nil wl e : spec_prev wl [] e = negb wl.
Proof. reflexivity. Qed.

Lemma spec_prev_tick wl ops e : spec_prev wl (ops ++ [VTick]) e = spec_cur wl (ops ++ [VTick]) e.
Proof.
  unfold spec_prev, spec_cur. rewrite spec_snoc. cbn [astep].
  destruct (a_pend (spec wl ops e)); reflexivity.
Qed.

Lemma spec_prev_not_tick wl ops op e : op <> VTick ->
  spec_prev wl (ops ++ [op]) e = spec_prev wl ops e.
Proof.
  intros Hop. unfold spec_prev. rewrite spec_snoc.
  destruct op as [x b|x|]; cbn [astep]; [destruct (x =? e); reflexivity ..|congruence].
Qed.

Lemma spec_pend_nil wl e : spec_pend wl [] e = O.
Proof. reflexivity. Qed.

Lemma spec_pend_despawn_same wl ops e : spec_pend wl (ops ++ [VDespawn e]) e = S (spec_pend wl ops e).
Proof. unfold spec_pend. rewrite spec_snoc. cbn [astep]. rewrite N.eqb_refl. reflexivity. Qed.

Lemma spec_pend_despawn_other wl ops e e' : e' <> e ->
  spec_pend wl (ops ++ [VDespawn e']) e = spec_pend wl ops e.
Proof.
  intros Hne. unfold spec_pend. rewrite spec_snoc. cbn [astep].
  apply N.eqb_neq in Hne. rewrite Hne. reflexivity.
Qed.

Lemma spec_pend_set wl ops e e' b : spec_pend wl (ops ++ [VSet e' b]) e = spec_pend wl ops e.
Proof. unfold spec_pend. rewrite spec_snoc. cbn [astep]. destruct (e' =? e); reflexivity. Qed.

Lemma spec_pend_tick wl ops e : spec_pend wl (ops ++ [VTick]) e = O.
Proof.
  unfold spec_pend. rewrite spec_snoc. cbn [astep]. destruct (a_pend (spec wl ops e)); reflexivity.
Qed.

(* ---------- (i) the query reports the most recent setting ---------- *)

Theorem vis_query_latest wl ops e :
  is_visible (s_vis (vis_exec (vis_init wl) ops)) e = spec_cur wl ops e.
Proof.
  destruct (reachable_Inv wl ops) as [Hwl Hinv]. destruct (Hinv e) as [Hv _].
  apply (is_visible_conc _ _ _ (spec_prev wl ops e)). rewrite Hwl. exact Hv.
Qed.

(* between ticks also `state` is determined *)
Theorem vis_state_any_time wl ops e :
  state (s_vis (vis_exec (vis_init wl) ops)) e = classify (spec_cur wl ops e) (spec_prev wl ops e).
Proof.
  destruct (reachable_Inv wl ops) as [Hwl Hinv]. destruct (Hinv e) as [Hv _].
  apply state_conc. rewrite Hwl. exact Hv.
Qed.

Theorem vis_pending_is_buffer wl ops e :
  count_occ N.eq_dec (s_pending (vis_exec (vis_init wl) ops)) e = spec_pend wl ops e.
Proof. destruct (reachable_Inv wl ops) as [_ Hinv]. destruct (Hinv e) as [_ Hc]. exact Hc. Qed.

(* ---------- (ii) classification at a tick ---------- *)

Theorem vis_state_classification wl ops e :
  let o := snd (vis_tick (vis_exec (vis_init wl) ops)) in
  let c := spec wl ops e in
  out_state o e = classify (mid_cur wl c) (mid_prev wl c) /\
  out_is_visible o e = mid_cur wl c.
Proof.
  cbv zeta.
  destruct (vis_tick_spec wl _ _ (reachable_Inv wl ops)) as [_ [Hwl Hall]].
  destruct (Hall e) as [_ Hv0]. unfold out_state, out_is_visible.
  set (vm := o_mid (snd (vis_tick (vis_exec (vis_init wl) ops)))) in *.
  assert (Hv : view vm e = conc (is_whitelist vm) (mid_cur wl (spec wl ops e))
                 (match a_pend (spec wl ops e) with
                  | O => a_prev (spec wl ops e) && a_cur (spec wl ops e)
                  | S _ => negb wl end)) by (rewrite Hwl; exact Hv0).
  split.
  - rewrite (state_conc _ _ _ _ Hv). unfold mid_cur, mid_prev.
    destruct (a_pend (spec wl ops e)); [apply classify_drained|reflexivity].
  - exact (is_visible_conc _ _ _ _ Hv).
Qed.

Lemma classify_gained cur prev : classify cur prev = VGained <-> cur && negb prev = true.
Proof. destruct cur, prev; cbn; split; intros H; try discriminate H; reflexivity. Qed.
Lemma classify_visible cur prev : classify cur prev = VVisible <-> cur && prev = true.
Proof. destruct cur, prev; cbn; split; intros H; try discriminate H; reflexivity. Qed.
Lemma classify_hidden cur prev : classify cur prev = VHidden <-> negb cur = true.
Proof. destruct cur, prev; cbn; split; intros H; try discriminate H; reflexivity. Qed.

(* for an entity without pending despawn, in the terms of the property statement *)
Corollary vis_state_classification_live wl ops e :
  spec_pend wl ops e = O ->
  let st := out_state (snd (vis_tick (vis_exec (vis_init wl) ops))) e in
  st = classify (spec_cur wl ops e) (spec_prev wl ops e) /\
  (st = VGained <-> spec_cur wl ops e && negb (spec_prev wl ops e) = true) /\
  (st = VVisible <-> spec_cur wl ops e && spec_prev wl ops e = true) /\
  (st = VHidden <-> negb (spec_cur wl ops e) = true).
Proof.
  intros Hp. cbv zeta. destruct (vis_state_classification wl ops e) as [H _]. rewrite H.
  unfold mid_cur, mid_prev. unfold spec_pend in Hp. rewrite Hp.
  split; [reflexivity|].
  split; [apply classify_gained|split; [apply classify_visible|apply classify_hidden]].
Qed.

(* an entity whose despawn is processed by this tick is read with the policy default *)
Corollary vis_state_classification_pending wl ops e :
  spec_pend wl ops e <> O ->
  out_state (snd (vis_tick (vis_exec (vis_init wl) ops))) e = if wl then VHidden else VVisible.
Proof.
  intros Hp. destruct (vis_state_classification wl ops e) as [H _]. cbv zeta in H. rewrite H.
  unfold mid_cur, mid_prev. unfold spec_pend in Hp.
  destruct (a_pend (spec wl ops e)); [congruence|]. destruct wl; reflexivity.
Qed.

(* no data for hidden entities: whatever collect_changes / collect_removals read at a tick
   for a live entity is "hidden" whenever the most recent setting is "hidden" *)
Corollary vis_hidden_is_skipped wl ops e :
  spec_pend wl ops e = O -> spec_cur wl ops e = false ->
  let o := snd (vis_tick (vis_exec (vis_init wl) ops)) in
  out_state o e = VHidden /\ out_is_visible o e = false.
Proof.
  intros Hp Hc. cbv zeta. destruct (vis_state_classification wl ops e) as [H1 H2].
  cbv zeta in H1, H2. rewrite H1, H2. unfold mid_cur, mid_prev.
  unfold spec_pend in Hp. unfold spec_cur in Hc. rewrite Hp, Hc. split; reflexivity.
Qed.

(* ---------- (iii) despawn records ---------- *)

Theorem vis_despawn_records wl ops e :
  In e (o_despawns (snd (vis_tick (vis_exec (vis_init wl) ops))))
  <-> despawn_record wl (spec wl ops e) = true.
Proof.
  destruct (vis_tick_spec wl _ _ (reachable_Inv wl ops)) as [_ [_ Hall]].
  destruct (Hall e) as [H _]. exact H.
Qed.

(* completeness: everything the client has been told about, and that is now hidden or
   despawned, gets a record (D03 is the case cur = false /\ pending) *)
Corollary vis_despawn_records_complete wl ops e :
  spec_prev wl ops e = true ->
  spec_cur wl ops e = false \/ spec_pend wl ops e <> O ->
  In e (o_despawns (snd (vis_tick (vis_exec (vis_init wl) ops)))).
Proof.
  intros Hp Hor. apply vis_despawn_records. unfold despawn_record.
  unfold spec_prev in Hp. unfold spec_cur, spec_pend in Hor. rewrite Hp.
  destruct (a_cur (spec wl ops e)); cbn [negb andb orb]; [|reflexivity].
  destruct Hor as [Hc | Hn]; [discriminate Hc|].
  destruct (a_pend (spec wl ops e)) as [|[|n]]; [congruence|reflexivity|reflexivity].
Qed.

(* soundness: a record is sent only for such an entity, or in exactly two harmless cases *)
Corollary vis_despawn_records_sound wl ops e :
  In e (o_despawns (snd (vis_tick (vis_exec (vis_init wl) ops)))) ->
  (spec_prev wl ops e = true /\ (spec_cur wl ops e = false \/ spec_pend wl ops e <> O))
  \/ (spec_prev wl ops e = false /\ spec_cur wl ops e = true /\ spec_pend wl ops e <> O)
  \/ (wl = false /\ spec_prev wl ops e = false /\ spec_cur wl ops e = false /\
      (2 <= spec_pend wl ops e)%nat).
Proof.
  intros Hin. apply vis_despawn_records in Hin. unfold despawn_record in Hin.
  unfold spec_prev, spec_cur, spec_pend.
  destruct (a_prev (spec wl ops e)), (a_cur (spec wl ops e)); cbn [negb andb orb] in Hin.
  - left. split; [reflexivity|]. right.
    destruct (a_pend (spec wl ops e)); [discriminate Hin|congruence].
  - left. split; [reflexivity|]. left. reflexivity.
  - right. left. split; [reflexivity|]. split; [reflexivity|].
    destruct (a_pend (spec wl ops e)); [discriminate Hin|congruence].
  - right. right.
    destruct (a_pend (spec wl ops e)) as [|[|n]]; [discriminate Hin|discriminate Hin|].
    destruct wl; [discriminate Hin|]. repeat split; lia.
Qed.

(* without pending despawn: exactly the entities that lost visibility *)
Corollary vis_despawn_records_live wl ops e :
  spec_pend wl ops e = O ->
  (In e (o_despawns (snd (vis_tick (vis_exec (vis_init wl) ops))))
   <-> spec_prev wl ops e && negb (spec_cur wl ops e) = true).
Proof.
  intros Hp. rewrite vis_despawn_records. unfold despawn_record, spec_prev, spec_cur.
  unfold spec_pend in Hp. rewrite Hp, orb_false_r. reflexivity.
Qed.

(* ---------- (iv) pointwise independence ---------- *)

Lemma spec_proj wl ops e : spec wl (proj e ops) e = spec wl ops e.
Proof.
  unfold spec, proj. generalize (a_init wl).
  induction ops as [|op r IH]; intros c; [reflexivity|].
  cbn [filter fold_left]. destruct (mentions e op) eqn:Hm.
  - cbn [fold_left]. apply IH.
  - rewrite IH. f_equal.
    destruct op as [x b|x|]; cbn [mentions] in Hm; cbn [astep]; try rewrite Hm; try reflexivity.
    discriminate Hm.
Qed.

(* everything observable about e (query, state, pending count, what the next tick reads and
   whether it emits a despawn record) depends only on the operations that mention e *)
Theorem vis_pointwise wl ops1 ops2 e : proj e ops1 = proj e ops2 ->
  let s1 := vis_exec (vis_init wl) ops1 in
  let s2 := vis_exec (vis_init wl) ops2 in
  is_visible (s_vis s1) e = is_visible (s_vis s2) e /\
  state (s_vis s1) e = state (s_vis s2) e /\
  out_state (snd (vis_tick s1)) e = out_state (snd (vis_tick s2)) e /\
  out_is_visible (snd (vis_tick s1)) e = out_is_visible (snd (vis_tick s2)) e /\
  (In e (o_despawns (snd (vis_tick s1))) <-> In e (o_despawns (snd (vis_tick s2)))).
Proof.
  intros Hp. cbv zeta.
  assert (Hs : spec wl ops1 e = spec wl ops2 e).
  { rewrite <- (spec_proj wl ops1), <- (spec_proj wl ops2), Hp. reflexivity. }
  rewrite !vis_query_latest, !vis_state_any_time, !vis_despawn_records.
  destruct (vis_state_classification wl ops1 e) as [H1 H1'].
  destruct (vis_state_classification wl ops2 e) as [H2 H2'].
  cbv zeta in H1, H1', H2, H2'. rewrite H1, H1', H2, H2'.
  unfold spec_cur, spec_prev. rewrite Hs. repeat split; intros H; exact H.
Qed.

(* in particular an operation on another entity changes nothing about e *)
Corollary vis_pointwise_step wl ops op e : mentions e op = false ->
  let s1 := vis_exec (vis_init wl) ops in
  let s2 := vis_exec (vis_init wl) (ops ++ [op]) in
  is_visible (s_vis s1) e = is_visible (s_vis s2) e /\
  state (s_vis s1) e = state (s_vis s2) e.
Proof.
  intros Hm. cbv zeta.
  assert (Hp : proj e ops = proj e (ops ++ [op])).
  { unfold proj. rewrite filter_app. cbn [filter]. rewrite Hm. rewrite app_nil_r. reflexivity. }
  destruct (vis_pointwise wl _ _ e Hp) as [H1 [H2 _]]. split; [exact H1|exact H2].
Qed.

(* vis_run agrees with vis_exec / vis_tick (so the driver exercises what the theorems cover) *)
Lemma vis_run_exec ops : forall s, fst (vis_run s ops) = vis_exec s ops.
Proof.
  induction ops as [|op r IH]; intros s; [reflexivity|].
  cbn [vis_run]. unfold vis_exec. cbn [fold_left].
  destruct (vis_step s op) as [s1 o]. specialize (IH s1).
  destruct (vis_run s1 r) as [s2 os]. cbn [fst] in *. exact IH.
Qed.
