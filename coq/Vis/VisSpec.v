(* Specification of one client's visibility as a function of the history of operations
   (definitions only).  History = list vop, oldest first.

   Everything is stated per entity e: `spec wl ops e` is the abstract record of e after the
   history `ops` under policy wl (false = blacklist, true = whitelist).  It is computed by a
   three-field state machine that looks only at the operations that mention e and at ticks,
   so independence between entities holds by construction (spec_proj in the proofs).
   The machine is THE SAME for both policies except for the default d = negb wl.

     a_cur    the most recent `VSet e b` since the entity last started, else the policy default
              d = negb wl (blacklist: visible, whitelist: hidden).
              "Started": a tick that processes a buffered `VDespawn e` calls remove_despawned,
              which forgets everything about e; so at a VTick with a pending despawn of e the
              setting is reset to d -- INCLUDING settings made after the VDespawn but before that
              tick (an entity whose `Replicated` marker is removed and re-inserted inside one
              tick window loses the settings made in that window; see Properties/C08.v,
              C08_reinsert_forgets_setting).
     a_prev   the value of a_cur at the last VTick = what this client has been told;
              reset to d when a despawn of e is processed (d and not "client does not have it":
              a blacklist has no entry for a fresh entity, so it classifies it as VVisible and
              it is src/server.rs that sends it in full because the marker was just added).
     a_pend   number of occurrences of e in the despawn buffer. *)
From RV Require Import Lib.Res Vis.Visibility.
Open Scope N_scope.

Record acell := mkCell { a_cur : bool; a_prev : bool; a_pend : nat }.

Definition a_init (wl : bool) : acell := mkCell (negb wl) (negb wl) 0.

Definition astep (wl : bool) (e : N) (c : acell) (op : vop) : acell :=
  match op with
  | VSet e' b =>
      if e' =? e then mkCell b (a_prev c) (a_pend c) else c
  | VDespawn e' =>
      if e' =? e then mkCell (a_cur c) (a_prev c) (S (a_pend c)) else c
  | VTick =>
      match a_pend c with
      | O => mkCell (a_cur c) (a_cur c) 0
      | S _ => a_init wl
      end
  end.

Definition spec (wl : bool) (ops : list vop) (e : N) : acell :=
  fold_left (astep wl e) ops (a_init wl).

Definition spec_cur wl ops e := a_cur (spec wl ops e).
Definition spec_prev wl ops e := a_prev (spec wl ops e).
Definition spec_pend wl ops e := a_pend (spec wl ops e).

(* ----- what a tick must output, as a function of the record just before the tick ----- *)

(* (cur, prev) as seen by collect_removals / collect_changes: a processed despawn has
   already reset the entity *)
Definition mid_cur (wl : bool) (c : acell) : bool :=
  match a_pend c with O => a_cur c | S _ => negb wl end.
Definition mid_prev (wl : bool) (c : acell) : bool :=
  match a_pend c with O => a_prev c | S _ => negb wl end.

Definition classify (cur prev : bool) : vstate :=
  if cur then (if prev then VVisible else VGained) else VHidden.

(* e gets a despawn record in this tick iff
     - the client has it and it is hidden now                       (lost visibility), or
     - it is visible now and a despawn of it is pending             (ordinary despawn), or
     - blacklist only: it is pending at least twice                 (the first processed despawn
       resets it to "visible", the second one then reports it).
   In terms of "the client has it" (p = a_prev) this is
       p && (negb cur || pending)                                   (every entity the client has
                                                                     and must drop gets a record)
    || negb p && cur && pending                                     (gained and despawned inside
                                                                     one window: extra record)
    || negb wl && pending twice                                     (extra record). *)
Definition despawn_record (wl : bool) (c : acell) : bool :=
  (a_prev c && negb (a_cur c))
  || match a_pend c with
     | O => false
     | S O => a_cur c
     | S (S _) => a_cur c || negb wl
     end.

(* the projection of a history on one entity *)
Definition mentions (e : N) (op : vop) : bool :=
  match op with VSet e' _ => e' =? e | VDespawn e' => e' =? e | VTick => true end.
Definition proj (e : N) (ops : list vop) : list vop := filter (mentions e) ops.
