(* src/server/client_visibility.rs: ClientVisibility (blacklist / whitelist, set_visibility,
   is_visible, state, update, remove_despawned, drain_lost) and the per-tick use made of it by
   src/server.rs (send_replication: collect_despawns, collect_removals, collect_changes,
   send_messages).  Definitions only; lemmas are in Vis/Visibility_proofs.v.

   Entities are N.  EntityHashMap / EntityHashSet are used by the Rust code only through
   get / insert / remove / entry / drain / clear, so they are modelled by association lists
   (first match wins; insert = cons after removing the key; remove = filter) and by
   duplicate-free lists.  The ORDER of the lists has no Rust counterpart (hash order):
   every list returned by this model (drain_lost, o_despawns) must be compared AS A SET
   (o_despawns: as a multiset at best, see vis_tick). *)
From RV Require Import Lib.Res.
Open Scope N_scope.

(* ---------- EntityHashMap<A> / EntityHashSet ---------- *)

Fixpoint lookup {A : Type} (e : N) (l : list (N * A)) : option A :=
  match l with
  | [] => None
  | (k, i) :: r => if k =? e then Some i else lookup e r
  end.

Definition map_remove {A : Type} (e : N) (l : list (N * A)) : list (N * A) :=
  filter (fun p => negb (fst p =? e)) l.

Definition map_insert {A : Type} (e : N) (i : A) (l : list (N * A)) : list (N * A) :=
  (e, i) :: map_remove e l.

Definition set_mem (e : N) (s : list N) : bool := existsb (fun k => k =? e) s.
Definition set_insert (e : N) (s : list N) : list N := if set_mem e s then s else e :: s.
Definition set_remove (e : N) (s : list N) : list N := filter (fun k => negb (k =? e)) s.

(* ---------- the data structure ---------- *)

Inductive blinfo := BlHidden | BlQueuedForRemoval.      (* enum BlacklistInfo *)
Inductive wlinfo := WlVisible | WlJustAdded.            (* enum WhitelistInfo *)

Inductive vlist :=                                      (* enum VisibilityList *)
| Blacklist (l : list (N * blinfo))
| Whitelist (l : list (N * wlinfo)).

Record vis := mkVis {                                   (* struct ClientVisibility *)
  v_list : vlist;
  v_added : list N;
  v_removed : list N
}.

Inductive vstate := VHidden | VGained | VVisible.       (* enum Visibility; hooks: 0 / 1 / 2 *)

Definition is_whitelist (v : vis) : bool :=
  match v_list v with Blacklist _ => false | Whitelist _ => true end.

Definition blacklist : vis := mkVis (Blacklist []) [] [].
Definition whitelist : vis := mkVis (Whitelist []) [] [].
(* mod verif: new(whitelist) *)
Definition vis_new (wl : bool) : vis := if wl then whitelist else blacklist.

(* fn update *)
Definition update (v : vis) : vis :=
  match v_list v with
  | Blacklist l =>
      (* for entity in self.removed.drain() { list.remove(&entity) }; self.added.clear() *)
      mkVis (Blacklist (fold_left (fun l0 e => map_remove e l0) (v_removed v) l)) [] []
  | Whitelist l =>
      (* for entity in self.added.drain() { list.insert(entity, Visible) }; self.removed.clear() *)
      mkVis (Whitelist (fold_left (fun l0 e => map_insert e WlVisible l0) (v_added v) l)) [] []
  end.

(* fn remove_despawned *)
Definition remove_despawned (v : vis) (e : N) : vis :=
  match v_list v with
  | Blacklist l =>
      match lookup e l with
      | Some _ => mkVis (Blacklist (map_remove e l)) (set_remove e (v_added v)) (set_remove e (v_removed v))
      | None => mkVis (Blacklist (map_remove e l)) (v_added v) (v_removed v)
      end
  | Whitelist l =>
      match lookup e l with
      | Some _ => mkVis (Whitelist (map_remove e l)) (set_remove e (v_added v)) (set_remove e (v_removed v))
      | None => mkVis (Whitelist (map_remove e l)) (v_added v) (v_removed v)
      end
  end.

(* fn drain_lost: the iterator is always consumed completely by its only caller
   (and by the hook).  The returned list is a SET (hash order in Rust). *)
Definition drain_lost (v : vis) : vis * list N :=
  match v_list v with
  | Blacklist _ => (mkVis (v_list v) [] (v_removed v), v_added v)
  | Whitelist _ => (mkVis (v_list v) (v_added v) [], v_removed v)
  end.

(* pub fn set_visibility; one branch per Rust branch, early returns included *)
Definition set_visibility (v : vis) (e : N) (visible : bool) : vis :=
  match v_list v with
  | Blacklist l =>
      if visible then
        match lookup e l with
        | None => v                                   (* let Entry::Occupied(..) else return *)
        | Some _ =>
            if set_mem e (v_added v) then             (* if self.added.remove(&entity) *)
              mkVis (Blacklist (map_remove e l)) (set_remove e (v_added v)) (v_removed v)
            else
              mkVis (Blacklist (map_insert e BlQueuedForRemoval l))
                    (set_remove e (v_added v)) (set_insert e (v_removed v))
        end
      else
        match lookup e l with
        | Some _ =>                                   (* list.insert(..).is_some() *)
            mkVis (Blacklist (map_insert e BlHidden l)) (v_added v) (set_remove e (v_removed v))
        | None =>
            mkVis (Blacklist (map_insert e BlHidden l)) (set_insert e (v_added v)) (v_removed v)
        end
  | Whitelist l =>
      if visible then
        if set_mem e (v_removed v) then               (* if self.removed.remove(&entity) *)
          mkVis (Whitelist (map_insert e WlVisible l)) (v_added v) (set_remove e (v_removed v))
        else
          match lookup e l with                       (* *list.entry(e).or_insert(JustAdded) *)
          | None =>
              mkVis (Whitelist (map_insert e WlJustAdded l))
                    (set_insert e (v_added v)) (set_remove e (v_removed v))
          | Some WlJustAdded =>
              mkVis (Whitelist l) (set_insert e (v_added v)) (set_remove e (v_removed v))
          | Some WlVisible =>
              mkVis (Whitelist l) (v_added v) (set_remove e (v_removed v))
          end
      else
        match lookup e l with
        | None => v                                   (* list.remove(..).is_none() => return *)
        | Some _ =>
            if set_mem e (v_added v) then             (* if self.added.remove(&entity) return *)
              mkVis (Whitelist (map_remove e l)) (set_remove e (v_added v)) (v_removed v)
            else
              mkVis (Whitelist (map_remove e l))
                    (set_remove e (v_added v)) (set_insert e (v_removed v))
        end
  end.

(* fn state *)
Definition state (v : vis) (e : N) : vstate :=
  match v_list v with
  | Blacklist l =>
      match lookup e l with
      | Some BlQueuedForRemoval => VGained
      | Some BlHidden => VHidden
      | None => VVisible
      end
  | Whitelist l =>
      match lookup e l with
      | Some WlJustAdded => VGained
      | Some WlVisible => VVisible
      | None => VHidden
      end
  end.

(* pub fn is_visible *)
Definition is_visible (v : vis) (e : N) : bool :=
  match state v e with VHidden => false | VGained | VVisible => true end.

(* hook encoding of `state`: 0 hidden, 1 gained, 2 visible *)
Definition vstate_code (s : vstate) : N :=
  match s with VHidden => 0 | VGained => 1 | VVisible => 2 end.

(* ---------- one client's visibility inside the server schedule ---------- *)

Inductive vop :=
| VSet (e : N) (visible : bool)   (* user code calls set_visibility between two ticks *)
| VDespawn (e : N)                (* buffer_despawns: `Replicated` removed from e (despawn or marker
                                     removal); e is pushed to DespawnBuffer and reaches the
                                     visibility only in the next send_replication *)
| VTick.                          (* one send_replication run *)

Record vsys := mkSys {
  s_vis : vis;
  s_pending : list N              (* DespawnBuffer (a Vec: duplicates possible, order kept) *)
}.

Record tick_out := mkOut {
  o_despawns : list N;            (* entities that got a despawn record in this client's update
                                     message: lost visibility ++ visible despawned.  The first
                                     part is in hash order in Rust; an entity that occurs more
                                     than once in DespawnBuffer can be recorded more than once *)
  o_mid : vis                     (* the visibility as read by collect_removals (is_visible) and
                                     collect_changes (state): after collect_despawns, before update *)
}.

(* second loop of collect_despawns, for one client *)
Fixpoint despawn_loop (v : vis) (buf : list N) : vis * list N :=
  match buf with
  | [] => (v, [])
  | e :: r =>
      let '(v', ds) := despawn_loop (remove_despawned v e) r in
      (v', if is_visible v e then e :: ds else ds)
  end.

(* send_replication for one client: collect_despawns (drain_lost first, then the buffer),
   collect_removals / collect_changes only read, send_messages calls update *)
Definition vis_tick (s : vsys) : vsys * tick_out :=
  let '(v1, lost) := drain_lost (s_vis s) in
  let '(v2, ds) := despawn_loop v1 (s_pending s) in
  (mkSys (update v2) [], mkOut (lost ++ ds) v2).

Definition out_state (o : tick_out) (e : N) : vstate := state (o_mid o) e.
Definition out_is_visible (o : tick_out) (e : N) : bool := is_visible (o_mid o) e.

Definition vis_step (s : vsys) (op : vop) : vsys * option tick_out :=
  match op with
  | VSet e b => (mkSys (set_visibility (s_vis s) e b) (s_pending s), None)
  | VDespawn e => (mkSys (s_vis s) (s_pending s ++ [e]), None)
  | VTick => let '(s', o) := vis_tick s in (s', Some o)
  end.

Definition vis_init (wl : bool) : vsys := mkSys (vis_new wl) [].

(* state after a history (what the theorems talk about) *)
Definition vis_exec (s : vsys) (ops : list vop) : vsys :=
  fold_left (fun s0 op => fst (vis_step s0 op)) ops s.

(* state and the outputs of all ticks, oldest first (for the correspondence driver) *)
Fixpoint vis_run (s : vsys) (ops : list vop) : vsys * list tick_out :=
  match ops with
  | [] => (s, [])
  | op :: r =>
      let '(s1, o) := vis_step s op in
      let '(s2, os) := vis_run s1 r in
      (s2, match o with Some x => x :: os | None => os end)
  end.
