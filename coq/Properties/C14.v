(* C14 -- Protocol hash and handshake (src/shared/protocol.rs, check_protocol in src/server.rs).
   "Two apps that perform the same sequence of replication-rule and remote-event registrations
    compute the same protocol hash in every run, and apps whose sequences differ in order, kind,
    type, priority or independence compute different hashes.  Under the default authorization
    method a client is authorized exactly when the hashes match; otherwise it is notified of
    the mismatch and a disconnect is requested."

   What is pinned here:
     - same sequence -> same hash (the hash is a function of the sequence);
     - different valid sequences -> different INPUTS to the hasher (C14_stream_injective);
     - inputs of equal length differing in one byte -> different hashes (C14_single_byte_separation
       and its liftings to kind / priority byte / name byte);
     - one FNV-1a step is a bijection of the 64-bit states (C14_step_bijective);
     - the handshake decision (C14_handshake).
   "Different sequences -> different hashes" in general is FALSE for any 64-bit hash (counting);
   it is available only with the explicit hypothesis [no_collision_assumption] about the two
   concrete streams (C14_hash_differs_under_no_collision_assumption).
   This file only pins statements; proofs live in Hash/*_proofs.v. *)
From RV Require Import Lib.Res Hash.Fnv Hash.Fnv_proofs Hash.Protocol Hash.Protocol_proofs.
Open Scope N_scope.

(* same registrations, same hash: in every run, on every machine *)
Theorem C14_deterministic : forall a b, a = b -> protocol_hash a = protocol_hash b.
Proof. exact protocol_hash_deterministic. Qed.

(* sequences that differ in order, kind, type name, priority or independence marks feed
   different bytes to the hasher *)
Theorem C14_stream_injective : forall a b, valid_regs a -> valid_regs b ->
  stream a = stream b -> a = b.
Proof. exact stream_injective. Qed.

(* one FNV-1a step with a fixed byte is a bijection of [0, 2^64) *)
Theorem C14_step_bijective : forall b, b < 256 ->
  (forall s1 s2, s1 < 2^64 -> s2 < 2^64 -> fnv_step s1 b = fnv_step s2 b -> s1 = s2) /\
  (forall o, o < 2^64 -> exists s, s < 2^64 /\ fnv_step s b = o).
Proof. exact fnv_step_bijective. Qed.

Theorem C14_step_injective_in_byte : forall s x y, s < 2^64 -> x < 256 -> y < 256 ->
  fnv_step s x = fnv_step s y -> x = y.
Proof. exact fnv_step_inj_byte. Qed.

Theorem C14_fnv_injective_in_state : forall bs s1 s2, bytes_ok bs -> s1 < 2^64 -> s2 < 2^64 ->
  fnv s1 bs = fnv s2 bs -> s1 = s2.
Proof. exact fnv_inj_state. Qed.

(* two inputs of equal length that differ in exactly one byte never collide *)
Theorem C14_single_byte_separation : forall s pre x y post,
  s < 2^64 -> x < 256 -> y < 256 -> bytes_ok post ->
  fnv s (pre ++ [x] ++ post) = fnv s (pre ++ [y] ++ post) -> x = y.
Proof. exact fnv_single_diff. Qed.

(* ... lifted to registrations, in any context [pre ... post] *)
Theorem C14_kind_separation : forall pre post p1 p2 nm,
  payload_free p1 -> payload_free p2 -> bytes_ok nm -> valid_regs post ->
  protocol_hash (pre ++ [mkReg p1 nm] ++ post) = protocol_hash (pre ++ [mkReg p2 nm] ++ post) ->
  p1 = p2.
Proof. exact hash_sep_kind. Qed.

Theorem C14_priority_byte_separation : forall pre post q1 q2 nm u x y w,
  q1 < 2^64 -> q2 < 2^64 ->
  le_bytes8 q1 = u ++ [x] ++ w -> le_bytes8 q2 = u ++ [y] ++ w ->
  bytes_ok nm -> valid_regs post ->
  protocol_hash (pre ++ [mkReg (Replicate q1) nm] ++ post) =
  protocol_hash (pre ++ [mkReg (Replicate q2) nm] ++ post) -> q1 = q2.
Proof. exact hash_sep_priority_byte. Qed.

Theorem C14_priority_low_byte_separation : forall pre post q1 q2 nm,
  q1 < 2^64 -> q2 < 2^64 -> q1 / 256 = q2 / 256 -> bytes_ok nm -> valid_regs post ->
  protocol_hash (pre ++ [mkReg (Replicate q1) nm] ++ post) =
  protocol_hash (pre ++ [mkReg (Replicate q2) nm] ++ post) -> q1 = q2.
Proof. exact hash_sep_priority_low. Qed.

Theorem C14_name_byte_separation : forall pre post p u x y w,
  x < 256 -> y < 256 -> bytes_ok w -> valid_regs post ->
  protocol_hash (pre ++ [mkReg p (u ++ [x] ++ w)] ++ post) =
  protocol_hash (pre ++ [mkReg p (u ++ [y] ++ w)] ++ post) -> x = y.
Proof. exact hash_sep_name_byte. Qed.

(* the general claim, with its unproved premise spelled out as a hypothesis *)
Theorem C14_hash_differs_under_no_collision_assumption : forall a b,
  valid_regs a -> valid_regs b -> a <> b ->
  no_collision_assumption (stream a) (stream b) -> protocol_hash a <> protocol_hash b.
Proof. exact hash_differs_under_assumption. Qed.

(* server decision: (insert AuthorizedClient, send ProtocolMismatch, write DisconnectRequest) *)
Theorem C14_handshake : forall client_hash server_hash,
  (client_hash = server_hash /\ check_protocol client_hash server_hash = (true, false, false)) \/
  (client_hash <> server_hash /\ check_protocol client_hash server_hash = (false, true, true)).
Proof. exact check_protocol_spec. Qed.

Theorem C14_handshake_same_sequence : forall a b, a = b ->
  check_protocol (protocol_hash a) (protocol_hash b) = (true, false, false).
Proof. exact handshake_same_sequence. Qed.

Theorem C14_handshake_different_under_no_collision_assumption : forall a b,
  valid_regs a -> valid_regs b -> a <> b -> no_collision_assumption (stream a) (stream b) ->
  check_protocol (protocol_hash a) (protocol_hash b) = (false, true, true).
Proof. exact handshake_different_under_assumption. Qed.

(* ---- non-vacuity ------------------------------------------------------------------------- *)
(* "bevy_replicon::shared::protocol::tests::" and the three unit-test types of protocol.rs *)
Definition test_prefix : list N :=
  [98; 101; 118; 121; 95; 114; 101; 112; 108; 105; 99; 111; 110; 58; 58; 115; 104; 97; 114; 101;
   100; 58; 58; 112; 114; 111; 116; 111; 99; 111; 108; 58; 58; 116; 101; 115; 116; 115; 58; 58].
Definition struct_a : list N := test_prefix ++ [83; 116; 114; 117; 99; 116; 65].
Definition struct_b : list N := test_prefix ++ [83; 116; 114; 117; 99; 116; 66].
Definition struct_c : list N := test_prefix ++ [83; 116; 114; 117; 99; 116; 67].

Example C14_empty : protocol_hash [] = fnv_offset /\ protocol_hash_of [] = Ok 14695981039346656037.
Proof. split; reflexivity. Qed.

(* the byte image of one registration: discriminant, priority (LE), name, 0xff *)
Example C14_reg_bytes_concrete :
  reg_bytes (mkReg (Replicate 258) [97; 98]) = [0; 2; 1; 0; 0; 0; 0; 0; 0; 97; 98; 255] /\
  reg_bytes (mkReg IndependentTrigger [97; 98]) = [7; 97; 98; 255].
Proof. split; reflexivity. Qed.

(* the value pinned by the crate's own unit test `determinism`
   (replicate::<StructA>(1), add_server_event::<StructB>, add_server_trigger::<StructC>,
    add_client_event::<StructB>, add_client_trigger::<StructC>, add_custom(0i32)) *)
Definition test_regs : list reg :=
  [mkReg (Replicate 1) struct_a; mkReg ServerEvent struct_b; mkReg ServerTrigger struct_c;
   mkReg ClientEvent struct_b; mkReg ClientTrigger struct_c].
Example C14_rust_unit_test_value :
  fnv (protocol_hash test_regs) [0; 0; 0; 0] = 11462723744753766090.
Proof. vm_compute. reflexivity. Qed.

Example C14_test_regs_valid : valid_regsb test_regs = true.
Proof. vm_compute. reflexivity. Qed.

(* unit tests `wrong_order`, `wrong_priority`, `different_parts` *)
Example C14_wrong_order :
  protocol_hash [mkReg (Replicate 1) struct_a; mkReg (Replicate 1) struct_b] <>
  protocol_hash [mkReg (Replicate 1) struct_b; mkReg (Replicate 1) struct_a].
Proof. vm_compute. discriminate. Qed.
Example C14_wrong_priority :
  protocol_hash [mkReg (Replicate 1) struct_a] <> protocol_hash [mkReg (Replicate 0) struct_a].
Proof. vm_compute. discriminate. Qed.
Example C14_different_parts :
  protocol_hash [mkReg ServerEvent struct_a] <> protocol_hash [mkReg ClientEvent struct_a].
Proof. vm_compute. discriminate. Qed.
Example C14_independence_matters :
  protocol_hash [mkReg ServerEvent struct_a] <>
  protocol_hash [mkReg ServerEvent struct_a; mkReg IndependentEvent struct_a].
Proof. vm_compute. discriminate. Qed.

(* the same facts for priority 0 / 1 and ServerEvent / ClientEvent hold for EVERY name and context,
   by the separation theorems rather than by computation *)
Example C14_wrong_priority_any_context : forall pre post nm, bytes_ok nm -> valid_regs post ->
  protocol_hash (pre ++ [mkReg (Replicate 1) nm] ++ post) <>
  protocol_hash (pre ++ [mkReg (Replicate 0) nm] ++ post).
Proof.
  intros pre post nm Hn Hp H.
  apply C14_priority_low_byte_separation in H; [discriminate|reflexivity|reflexivity|reflexivity|exact Hn|exact Hp].
Qed.
Example C14_different_parts_any_context : forall pre post nm, bytes_ok nm -> valid_regs post ->
  protocol_hash (pre ++ [mkReg ServerEvent nm] ++ post) <>
  protocol_hash (pre ++ [mkReg ClientEvent nm] ++ post).
Proof.
  intros pre post nm Hn Hp H.
  apply C14_kind_separation in H; [discriminate|exact I|exact I|exact Hn|exact Hp].
Qed.

(* the handshake on concrete values, and the hook's panic on an unknown part index *)
Example C14_handshake_concrete :
  check_protocol 5 5 = (true, false, false) /\ check_protocol 5 6 = (false, true, true) /\
  protocol_hash_of [(8, 0, [97])] = Panic /\
  protocol_hash_of [(7, 0, [97; 98])] = Ok 6938092532236385422.
Proof. repeat split; vm_compute; reflexivity. Qed.

(* the hypothesis of C14_hash_differs_under_no_collision_assumption is satisfiable *)
Example C14_assumption_instance :
  no_collision_assumption (stream [mkReg ServerEvent struct_a]) (stream [mkReg ClientEvent struct_a]).
Proof. intros _. vm_compute. discriminate. Qed.

Check C14_stream_injective : forall a b, valid_regs a -> valid_regs b -> stream a = stream b -> a = b.
Check C14_single_byte_separation : forall s pre x y post,
  s < 2^64 -> x < 256 -> y < 256 -> bytes_ok post ->
  fnv s (pre ++ [x] ++ post) = fnv s (pre ++ [y] ++ post) -> x = y.
Check C14_hash_differs_under_no_collision_assumption : forall a b,
  valid_regs a -> valid_regs b -> a <> b ->
  no_collision_assumption (stream a) (stream b) -> protocol_hash a <> protocol_hash b.
Print Assumptions C14_deterministic.
Print Assumptions C14_stream_injective.
Print Assumptions C14_step_bijective.
Print Assumptions C14_step_injective_in_byte.
Print Assumptions C14_fnv_injective_in_state.
Print Assumptions C14_single_byte_separation.
Print Assumptions C14_kind_separation.
Print Assumptions C14_priority_byte_separation.
Print Assumptions C14_priority_low_byte_separation.
Print Assumptions C14_name_byte_separation.
Print Assumptions C14_hash_differs_under_no_collision_assumption.
Print Assumptions C14_handshake.
Print Assumptions C14_handshake_same_sequence.
Print Assumptions C14_handshake_different_under_no_collision_assumption.
Print Assumptions C14_rust_unit_test_value.
