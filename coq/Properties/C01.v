(* C01 -- every client converges to the server state under any legal network schedule.

   Status (see DESIGN.md section 6/C01): the full statement is

     Theorem C01_convergence : forall cfg script y, legal script = true -> ~ Known script ->
       run (sys_init cfg n) script = Ok y -> exists y', settle 3 y = Ok y' /\ converged y' = true.

   It is NOT proved in this development.  What is machine-checked here:
   - the executable definition of convergence and of the lossless settle phase (Repl/Converge.v);
   - that the faithful model REFUTES the statement on the recorded witnesses of the open known
     findings (so the exclusion `~ Known` is necessary, and the model contains the defects);
   - positive instances computed inside Coq (non-trivial scripts converge);
   - the ingredients proved elsewhere: C07 (complete state on authorization), C08 (visibility),
     C11 (unacknowledged changes are re-sent, acknowledged ones are not, acks never skip data),
     C03/C16/C02 client-side lemmas, C09 (sessions), C10 (messages), C12 (confirmation queries).
   The property itself is decided on every run by the correspondence between this model and the
   implementation plus the implementation-side convergence oracle (bounded exploration, reported
   as such in the evidence). *)
From RV Require Import Lib.Res Repl.World Repl.Server Repl.Client Repl.Sys Repl.Converge Repl.Witness.
Open Scope N_scope.

Theorem C01_D25_refuted : not_converged_after_settling cfg_plain script_d25 = true.
Proof. vm_compute. reflexivity. Qed.

Theorem C01_D02_refuted : not_converged_after_settling cfg_plain script_d02 = true.
Proof. vm_compute. reflexivity. Qed.

Theorem C01_D19_refuted : not_converged_after_settling cfg_plain script_d19 = true.
Proof. vm_compute. reflexivity. Qed.

Theorem C01_D17_refuted : not_converged_after_settling cfg_black script_d17 = true.
Proof. vm_compute. reflexivity. Qed.

(* positive instances: the same machinery reports convergence on scripts outside the classes *)
Definition script_ok : list step :=
  [StStart; StSFrame false 10 false [] []; StConnect 0 1200;
   StSFrame true 16 false [SSpawn 1 true [(0, VNat 5); (1, VNat 7)]; SSpawn 2 true []] []]
  ++ deliver_all 0
  ++ [StSFrame true 16 false [SMutate 1 0 (VNat 6); SSpawn 3 true [(3, VRef 1); (2, VNat 3)]] (one 0 1);
      StDrop 0 true 1 All;                                   (* the mutate message is lost *)
      StSFrame true 16 false [SRemove 1 1; SDespawn 2] [];
      StSFrame false 5 false [SMutate 1 0 (VNat 9)] []].

Theorem C01_converges_instance :
  match after cfg_plain script_ok with
  | Ok y => match settle 3 y with Ok y' => converged y' | _ => false end
  | _ => false
  end = true.
Proof. vm_compute. reflexivity. Qed.

Theorem C01_not_converged_before_settling :
  match after cfg_plain script_ok with Ok y => negb (converged y) | _ => false end = true.
Proof. vm_compute. reflexivity. Qed.

Print Assumptions C01_D25_refuted.
Print Assumptions C01_D02_refuted.
Print Assumptions C01_D19_refuted.
Print Assumptions C01_D17_refuted.
Print Assumptions C01_converges_instance.
Print Assumptions C01_not_converged_before_settling.
