(* C09 end to end, the open item of Properties/C09E.v -- "Neither side panics whatever was in flight at the moment the
   session ended": no run panics.

   C09E proved that `run` / `erun` never return `Err` and that a `Panic` can only be `client_frame cl ops = Panic` for a
   CONNECTED client.  Here: in every state reached by a script within the premises of C03F / C12E that frame does not
   panic either, so `run (sys_init cfg n) script` and `erun (syse_init cfg n) script` are `Ok`.

   The `Panic` branches of Repl/Client.v and how each is excluded:
     `apply_mutations` -> `hist_set_last_tick`   NEVER (no premise): it is only called under `tick > last_tick`, and `>`
                                                  implies `>=` for the wrapping `Ord::cmp` (C09F_apply_mutations_nopanic)
     `confirm_tick` -> `hist_set_last_tick`       (debug_assert!(tick >= last_tick) for a removals / changes entry of an
                                                  update message)  the tick invariant [tfacts] (Repl/NoPanicAll_proofs.v):
                                                  every history the entity map reaches has a last tick below the tick of
                                                  every update message still in the inbox or in the queue
     `mt_confirm`                                 (debug assertions / overflow of `ServerMutateTicks::confirm`)  the tracker
                                                  invariant [tk]: the calls follow the sender's protocol of Layer 0 (C12)
   P1  C09F_run_nopanic / C09F_erun_nopanic / C09F_run_total, premises:
         script_okf script          legal deliveries (FIFO on the update channel), no `SMap`, `sessions_ok`
         parts_small script         (`m_count` fits a usize; needed by the counts of C12E)
         tick_frames script < 2^31  (the ticks have not wrapped)
       NOT needed: `no_tick0`, `regs_of < 2^16` (premises of the value theorems C02F..H only).  No premise on the session
       mode: the frames of a client whose server was stopped (MStale) - before its `StDisconnect`, and also when the server
       is started again WITHOUT having run a frame while stopped, so that its records survive and it goes on sending to a
       client that lost update messages (C09E_witness_stop_without_frame) - are covered (C09F_ex_stale).
       The invariant (C09F_run_invariant) is self-contained and speaks about ticks only; the session-structured variant
       for live slots, on top of `f_inv` / `m_inv`, is C09F_live_invariant (Repl/NoPanicRun_proofs.v).
   P2  which premise excludes which panic; every witness is a `vm_compute`d run:
         sessions_ok       C09F_witness_reconnect_history: server stopped, reset by its next frame (tick 0), restarted; the
                           client is disconnected and connected again WITHOUT a client frame in between (so `reset` never
                           ran: entity map and histories survive) - the first update message of the restarted server has
                           tick 1 < last tick 2: `set_last_tick` assertion.  C09F_witness_reconnect_tracker: same script
                           shape without any entity: tick 1 of the new session hits the tracker entry of tick 1 of the old
                           one: `received <= messages_count` assertion of `TickMessages::confirm`.
         tick_frames<2^31  C09F_witness_wrap (client level; a run needs 2^31 frames: known finding D31): a history with last
                           tick 0 and an update message of tick 2^31+1.
         no_smap           C09F_witness_remap (legal, `sessions_ok`, sessions separated by a client frame; `run_maps_okb` is
                           false): a pre-spawned client entity mapped in session 1 keeps its `ConfirmHistory` and marker
                           through `reset`; after a server restart a new server entity is mapped to it and confirmed at
                           tick 1 < 3.  Reported as a suspected defect of the crate (debug assertion reachable).
         parts_small       not shown necessary (2^64 parts cannot be built); it is what C12E needs for `m_count < 2^64`.
         legal             used through `f_inv` (server lemmas) and for the order of the update channel; no witness
                           searched.
   P3  C09F_run_nopanic_maps / C09F_run_total_maps: scripts WITH `SMap` operations (`script_okg`) under `run_maps_ok`
       (Properties/C03F.v part 6; decidable: `run_maps_okb`), same other premises.  A mapping adopts a pre-spawned client
       entity, possibly older than the last reset, into the entity map; it has no marker, hence (`cs_inv`) no history
       (Repl/NoPanicMaps_proofs.v).  C09F_witness_remap shows what `run_maps_ok` excludes.
   Not done: the event layer with mappings (`erun` is only covered for `script_okf`, the scope of `escript_ok`). *)
From RV Require Import Lib.Res Repl.ClientTicks Repl.World Vis.Visibility Repl.Server Repl.Client Repl.Sys
  Tick.RepliconTick Tick.ConfirmHistory Tick.MutateTicks
  Repl.Client_proofs Repl.ClientStructSpec Repl.StructE2E_proofs Repl.StructE2EMut_proofs Repl.StructE2ESess_proofs Repl.StructE2EMaps_proofs
  Repl.MtRunSpec Repl.MtRun_proofs Repl.SessRun_proofs Repl.ValSpec
  Repl.NoPanicCli_proofs Repl.NoPanicRun_proofs Repl.NoPanicAll_proofs Repl.NoPanicMaps_proofs.
From RV Require Import Events.Remote Events.RemoteSpec Events.RemoteRun Events.SessRunEv_proofs Events.NoPanicRunEv_proofs.
From RV Require Properties.C09E Properties.C12E.
Open Scope N_scope.

(* ================================================================== *)
(* A. one client                                                      *)
(* ================================================================== *)

Theorem C09F_apply_mutations_nopanic : forall c T e comps, apply_mutations c T e comps <> Panic.
Proof. exact apply_mutations_nopanic. Qed.

(* an update message of tick T without mappings: every history above the watermark W has a last tick satisfying Phi,
   Phi t -> t <= T < 2^31, Phi T *)
Theorem C09F_update_message_safe : forall (W : N -> Prop) (Phi : N -> Prop) T,
  (forall t, Phi t -> t <= T) -> T < 2 ^ 31 -> Phi T ->
  forall c u, u_tick u = T -> u_maps u = [] -> cli W Phi c ->
  apply_update_message c u <> Panic /\ forall c', apply_update_message c u = Ok c' -> cli W Phi c'.
Proof. exact update_safe. Qed.

(* the frame of a connected client panics only in its update messages or in its tracker *)
Theorem C09F_client_frame_nopanic : forall c ops, cl_status c = Connected ->
  fold_left (res_step apply_update_message) (cl_inbox_upd c) (Ok c) <> Panic ->
  (forall m0, cl_mticks c = Some m0 -> mt_confirm_all m0 (ncalls (frame_applied c)) <> Panic) ->
  client_frame c ops <> Panic.
Proof. exact frame_nopanic. Qed.

(* the tick facts of a connected client: its update messages do not panic, and its frame keeps the facts *)
Theorem C09F_tick_facts_frame : forall (Psi : N -> Prop), (forall t, Psi t -> t < 2 ^ 31) ->
  forall c lupd lmut ops, cl_status c = Connected -> tfacts nomapsP Psi c lupd lmut ->
  fold_left (res_step apply_update_message) (cl_inbox_upd c) (Ok c) <> Panic /\
  forall c' out, client_frame c ops = Ok (c', out) -> tfacts nomapsP Psi c' lupd lmut.
Proof.
  intros Psi HP c lupd lmut ops Hc H. split; [exact (tfacts_inbox Psi HP c lupd lmut H)|].
  intros c' out E. exact (tfacts_frame Psi HP c lupd lmut ops c' out Hc H E).
Qed.

Theorem C09F_tracker_facts_frame : forall Q c lmut ops, tk Q c lmut ->
  (forall m0, cl_mticks c = Some m0 -> mt_confirm_all m0 (ncalls (frame_applied c)) <> Panic) /\
  forall c' out, client_frame c ops = Ok (c', out) -> tk Q c' lmut.
Proof. intros Q c lmut ops H. split; [exact (tk_nopanic Q c lmut H)|]. intros c' out E. exact (tk_frame Q c lmut ops c' out H E). Qed.

(* ================================================================== *)
(* B. whole-system runs                                               *)
(* ================================================================== *)

(* the invariant: every client of every reachable state, whatever its session mode *)
Theorem C09F_run_invariant : forall cfg0 n script y,
  script_okf script = true -> parts_small script = true -> tick_frames script < 2 ^ 31 ->
  run (sys_init cfg0 n) script = Ok y ->
  forall slot c, al_get slot (y_clients y) = Some c ->
    slot_all nomapsP (cfg_track cfg0) (tick_frames script) (y_server y) slot (l_upd (get_link y slot)) (l_mut (get_link y slot)) c.
Proof. exact all_run. Qed.

(* the frame of EVERY connected client of a reachable state *)
Theorem C09F_frame_nopanic : forall cfg0 n script y slot cl ops,
  script_okf script = true -> parts_small script = true -> tick_frames script < 2 ^ 31 ->
  run (sys_init cfg0 n) script = Ok y -> al_get slot (y_clients y) = Some cl -> cl_status cl = Connected ->
  client_frame cl ops <> Panic.
Proof.
  intros cfg0 n script y slot cl ops H1 H2 H3 Hr Hc Hs.
  exact (frame_nopanic_all cfg0 script y slot cl ops (all_run cfg0 n script y H1 H2 H3 Hr) H3 Hc Hs).
Qed.

Theorem C09F_run_nopanic : forall cfg0 n script,
  script_okf script = true -> parts_small script = true -> tick_frames script < 2 ^ 31 ->
  run (sys_init cfg0 n) script <> Panic.
Proof. exact run_nopanic_all. Qed.

Theorem C09F_run_prefix_nopanic : forall cfg0 n script pre post, script = pre ++ post ->
  script_okf script = true -> parts_small script = true -> tick_frames script < 2 ^ 31 ->
  run (sys_init cfg0 n) pre <> Panic.
Proof. exact run_prefix_nopanic. Qed.

Theorem C09F_erun_nopanic : forall cfg0 n script,
  script_okf (proj_script script) = true -> parts_small (proj_script script) = true ->
  tick_frames (proj_script script) < 2 ^ 31 ->
  RemoteSpec.erun (syse_init cfg0 n) script <> Panic.
Proof. exact erun_nopanic. Qed.

(* with C09E_run_noerr / C09E_erun_noerr: the hypothesis `run ... = Ok y` of the run-level theorems can be discharged *)
Theorem C09F_run_total : forall cfg0 n script,
  script_okf script = true -> parts_small script = true -> tick_frames script < 2 ^ 31 ->
  exists y, run (sys_init cfg0 n) script = Ok y.
Proof.
  intros cfg0 n script H1 H2 H3. pose proof (run_nopanic_all cfg0 n script H1 H2 H3) as N1.
  pose proof (run_noerr script (sys_init cfg0 n)) as N2. destruct (run (sys_init cfg0 n) script) as [y| |]; [exists y; reflexivity|congruence|congruence].
Qed.

Theorem C09F_erun_total : forall cfg0 n script,
  script_okf (proj_script script) = true -> parts_small (proj_script script) = true ->
  tick_frames (proj_script script) < 2 ^ 31 ->
  exists e os, RemoteSpec.erun (syse_init cfg0 n) script = Ok (e, os).
Proof.
  intros cfg0 n script H1 H2 H3. pose proof (erun_nopanic cfg0 n script H1 H2 H3) as N1.
  pose proof (erun_noerr script (syse_init cfg0 n)) as N2.
  destruct (RemoteSpec.erun (syse_init cfg0 n) script) as [[e os]| |]; [exists e, os; reflexivity|congruence|congruence].
Qed.

(* the session-structured variant for slots in a session (mode MLive), on top of `f_inv` / `m_inv` *)
Theorem C09F_live_invariant : forall cfg0 n script y,
  script_okf script = true -> parts_small script = true -> tick_frames script < 2 ^ 31 ->
  run (sys_init cfg0 n) script = Ok y -> np_inv script y.
Proof. exact np_run. Qed.

Theorem C09F_live_tracker : forall cfg0 script y G slot c,
  m_inv cfg0 script y G -> tick_frames script < 2 ^ 31 ->
  al_get slot (y_clients y) = Some c -> mode_of script slot = MLive -> cl_status c = Connected ->
  forall m0, cl_mticks c = Some m0 -> mt_confirm_all m0 (ncalls (frame_applied c)) <> Panic.
Proof. exact tracker_live. Qed.

(* P3: scripts with pre-spawn mappings *)
Theorem C09F_run_invariant_maps : forall cfg0 n script y,
  script_okg script = true -> run_maps_ok (sys_init cfg0 n) script -> parts_small script = true -> tick_frames script < 2 ^ 31 ->
  run (sys_init cfg0 n) script = Ok y ->
  forall slot c, al_get slot (y_clients y) = Some c ->
    slot_all mapsP (cfg_track cfg0) (tick_frames script) (y_server y) slot (l_upd (get_link y slot)) (l_mut (get_link y slot)) c.
Proof. exact all_run_maps. Qed.

Theorem C09F_run_nopanic_maps : forall cfg0 n script,
  script_okg script = true -> run_maps_ok (sys_init cfg0 n) script -> parts_small script = true -> tick_frames script < 2 ^ 31 ->
  run (sys_init cfg0 n) script <> Panic.
Proof. exact run_nopanic_maps. Qed.

Theorem C09F_run_total_maps : forall cfg0 n script,
  script_okg script = true -> run_maps_okb (sys_init cfg0 n) script = true -> parts_small script = true -> tick_frames script < 2 ^ 31 ->
  exists y, run (sys_init cfg0 n) script = Ok y.
Proof.
  intros cfg0 n script H1 Hm H2 H3. pose proof (run_nopanic_maps cfg0 n script H1 (run_maps_okb_sound script _ Hm) H2 H3) as N1.
  pose proof (run_noerr script (sys_init cfg0 n)) as N2. destruct (run (sys_init cfg0 n) script) as [y| |]; [exists y; reflexivity|congruence|congruence].
Qed.

(* the update messages of an inbox with harmless mappings (one client) *)
Theorem C09F_update_message_safe_maps : forall (W : N -> Prop) (Phi : N -> Prop) T,
  (forall t, Phi t -> t <= T) -> T < 2 ^ 31 -> Phi T ->
  forall c u, u_tick u = T -> cs_inv c -> maps_ok (maps_pre c u) (u_maps u) -> cli W Phi c ->
  apply_update_message c u <> Panic /\
  forall c', apply_update_message c u = Ok c' -> exists W' : N -> Prop, (forall k, W k -> W' k) /\ cli W' Phi c'.
Proof. exact update_safe_maps. Qed.

Print Assumptions C09F_run_invariant_maps.
Print Assumptions C09F_run_nopanic_maps.
Print Assumptions C09F_run_total_maps.
Print Assumptions C09F_update_message_safe_maps.
Print Assumptions C09F_apply_mutations_nopanic.
Print Assumptions C09F_update_message_safe.
Print Assumptions C09F_client_frame_nopanic.
Print Assumptions C09F_tick_facts_frame.
Print Assumptions C09F_tracker_facts_frame.
Print Assumptions C09F_run_invariant.
Print Assumptions C09F_frame_nopanic.
Print Assumptions C09F_run_nopanic.
Print Assumptions C09F_run_prefix_nopanic.
Print Assumptions C09F_erun_nopanic.
Print Assumptions C09F_run_total.
Print Assumptions C09F_erun_total.
Print Assumptions C09F_live_invariant.
Print Assumptions C09F_live_tracker.

(* ================================================================== *)
(* C. the statements are not vacuous                                  *)
(* ================================================================== *)

(* C09E: a disconnect with an update message, two mutate messages, an acknowledgement and two event messages in flight *)
Example C09F_ex_disconnect_in_flight :
  script_okf (proj_script C09E.xs_script) = true /\ parts_small (proj_script C09E.xs_script) = true /\
  tick_frames (proj_script C09E.xs_script) = 4 /\
  exists e os, RemoteSpec.erun (syse_init C09E.xs_cfg 1) C09E.xs_script = Ok (e, os).
Proof.
  split; [vm_compute; reflexivity|]. split; [vm_compute; reflexivity|]. split; [vm_compute; reflexivity|].
  apply C09F_erun_total; vm_compute; reflexivity.
Qed.

(* C09E: a server stop with two clients connected and messages in flight, stopped frame, disconnects, restart *)
Example C09F_ex_stop_start :
  script_okf C09E.xt_script = true /\ parts_small C09E.xt_script = true /\
  exists y, run (sys_init C09E.xs_cfg 2) C09E.xt_script = Ok y.
Proof. split; [vm_compute; reflexivity|]. split; [vm_compute; reflexivity|]. apply C09F_run_total; vm_compute; reflexivity. Qed.

(* C12E: late and lost mutate messages, two sessions; and the 64-tick window *)
Example C09F_ex_late_lost :
  script_okf C12E.xs = true /\ (exists y, run (sys_init C12E.xcfg 1) C12E.xs = Ok y) /\
  script_okf (C12E.ws 64) = true /\ (exists y, run (sys_init C12E.xcfg 1) (C12E.ws 64) = Ok y).
Proof.
  split; [vm_compute; reflexivity|]. split; [apply C09F_run_total; vm_compute; reflexivity|].
  split; [vm_compute; reflexivity|]. apply C09F_run_total; vm_compute; reflexivity.
Qed.

Definition zfr (tick : bool) (ops : list sop) (parts : list (N * partition)) : step := StSFrame tick 16 false ops parts.
Definition zcfgT : cfg := mkCfg PAll AuthNone true 1000.
Definition zcfgN : cfg := mkCfg PAll AuthNone false 1000.
Definition is_panic {A} (r : res A) : bool := match r with Panic => true | _ => false end.
Definition is_ok {A} (r : res A) : bool := match r with Ok _ => true | _ => false end.

(* frames of a client whose server was stopped: with messages in its inbox and buffer; the server is started again
   without a frame while stopped (the record survives, the update message of tick 3 was lost with the queue), goes on
   sending, and the client applies what it gets.  Within the premises; slot 0 is MStale from step 8 on *)
Definition z_stale : list step :=
  [StStart; StConnect 0 1200;
   zfr true [SSpawn 1 true [(0, VNat 5)]] [(0, [[]])];
   zfr true [SMutate 1 0 (VNat 6)] [(0, [[1]])];
   StDeliver 0 true 0 All; StDeliver 0 true 1 First;
   zfr true [SInsert 1 1 (VNat 6)] [(0, [[1]])];
   StStop; StCFrame 0 []; StStart;
   zfr true [SMutate 1 0 (VNat 7)] [(0, [[1]])];
   zfr true [SInsert 1 2 (VNat 6)] [(0, [[1]])];
   StDeliver 0 true 1 All; StCFrame 0 []; StDeliver 0 true 0 All; StCFrame 0 []].

Example C09F_ex_stale :
  script_okf z_stale = true /\ parts_small z_stale = true /\ tick_frames z_stale = 5 /\
  mode_of (firstn 8 z_stale) 0 = MStale /\ mode_of z_stale 0 = MStale /\
  exists y, run (sys_init zcfgT 1) z_stale = Ok y.
Proof.
  split; [vm_compute; reflexivity|]. split; [vm_compute; reflexivity|]. split; [vm_compute; reflexivity|].
  split; [vm_compute; reflexivity|]. split; [vm_compute; reflexivity|]. apply C09F_run_total; vm_compute; reflexivity.
Qed.

(* ================================================================== *)
(* D. the premises that cannot be dropped                             *)
(* ================================================================== *)

(* without `sessions_ok`: stop, reset (tick 0), restart; disconnect and connect WITHOUT a client frame in between.  The
   history of entity 1 (last tick 2) survives; the first update message of the new session has tick 1 *)
Definition z_reconnect_hist : list step :=
  [StStart; StConnect 0 1200;
   zfr true [SSpawn 1 true [(0, VNat 5)]] [(0, [[]])];
   zfr true [SInsert 1 1 (VNat 6)] [(0, [[]])];
   StDeliver 0 true 0 All; StCFrame 0 [];
   StStop; zfr false [] []; StDisconnect 0; StStart; StConnect 0 1200;
   zfr true [] [(0, [[]])];
   StDeliver 0 true 0 All; StCFrame 0 []].

Example C09F_witness_reconnect_history :
  legal z_reconnect_hist = true /\ no_smap z_reconnect_hist = true /\ parts_small z_reconnect_hist = true /\
  tick_frames z_reconnect_hist = 3 /\ no_tick0 z_reconnect_hist = true /\ sessions_ok z_reconnect_hist = false /\
  is_ok (run (sys_init zcfgN 1) (removelast z_reconnect_hist)) = true /\
  is_panic (run (sys_init zcfgN 1) z_reconnect_hist) = true.
Proof. vm_compute. repeat split; reflexivity. Qed.

(* ... the same without any entity, tracking server: the mutate message of tick 1 of the new session is confirmed on
   the tracker entry of tick 1 of the old session (count 1, received 1) *)
Definition z_reconnect_mt : list step :=
  [StStart; StConnect 0 1200;
   zfr true [] [(0, [[]])]; zfr true [] [(0, [[]])];
   StDeliver 0 true 1 All; StCFrame 0 [];
   StStop; zfr false [] []; StDisconnect 0; StStart; StConnect 0 1200;
   zfr true [] [(0, [[]])];
   StDeliver 0 true 1 All; StCFrame 0 []].

Example C09F_witness_reconnect_tracker :
  legal z_reconnect_mt = true /\ no_smap z_reconnect_mt = true /\ parts_small z_reconnect_mt = true /\
  tick_frames z_reconnect_mt = 3 /\ sessions_ok z_reconnect_mt = false /\
  is_ok (run (sys_init zcfgT 1) (removelast z_reconnect_mt)) = true /\
  is_panic (run (sys_init zcfgT 1) z_reconnect_mt) = true.
Proof. vm_compute. repeat split; reflexivity. Qed.

(* with the client frame after the `StDisconnect` both scripts are within the premises *)
Definition with_frame (script : list step) : list step := firstn 9 script ++ StCFrame 0 [] :: skipn 9 script.

Example C09F_ex_reconnect_with_frame :
  script_okf (with_frame z_reconnect_hist) = true /\ script_okf (with_frame z_reconnect_mt) = true /\
  (exists y, run (sys_init zcfgN 1) (with_frame z_reconnect_hist) = Ok y) /\
  (exists y, run (sys_init zcfgT 1) (with_frame z_reconnect_mt) = Ok y).
Proof.
  split; [vm_compute; reflexivity|]. split; [vm_compute; reflexivity|].
  split; apply C09F_run_total; vm_compute; reflexivity.
Qed.

(* ticks that have wrapped (client level): a history with last tick 0, an update message of tick 2^31 + 1 *)
Definition z_wrap_client : client :=
  mkCli Connected true true 0 [(1, 0)] [(0, 1)] [(0, mkCEnt true None true (Some (hist_new 0)) [])] 1 [] None
        [mkUpd (2 ^ 31 + 1) [] [] [] [(1, [])]] [].

Example C09F_witness_wrap : is_panic (client_frame z_wrap_client []) = true.
Proof. vm_compute. reflexivity. Qed.

(* pre-spawn mappings outside `run_maps_ok`: the pre-spawned client entity is mapped in session 1 (history last tick 3,
   marker set), survives `reset`, and is mapped again by the restarted server, whose first update message has tick 1.
   Legal, `sessions_ok`, the sessions are separated by a client frame *)
Definition z_remap : list step :=
  [StStart; StConnect 0 1200; StCFrame 0 [CPrespawn 7];
   zfr true [SSpawn 1 true [(0, VNat 5)]; SMap 0 1 7] [(0, [[]])];
   zfr true [SMutate 1 0 (VNat 6)] [(0, [[]])];
   zfr true [SInsert 1 1 (VNat 6)] [(0, [[]])];
   StDeliver 0 true 0 All; StCFrame 0 [];
   StStop; zfr false [] []; StDisconnect 0; StCFrame 0 []; StStart; StConnect 0 1200;
   zfr true [SSpawn 2 true [(0, VNat 5)]; SMap 0 2 7] [(0, [[]])];
   StDeliver 0 true 0 All; StCFrame 0 []].

(* within `run_maps_ok`: in the second session (after the restart) ANOTHER pre-spawned entity, created before the reset
   and never mapped, is mapped: it is older than the reset, has no marker and no history *)
Definition z_map_ok : list step :=
  [StStart; StConnect 0 1200; StCFrame 0 [CPrespawn 7; CPrespawn 8];
   zfr true [SSpawn 1 true [(0, VNat 5)]; SMap 0 1 7] [(0, [[]])];
   zfr true [SMutate 1 0 (VNat 6)] [(0, [[]])];
   zfr true [SInsert 1 1 (VNat 6)] [(0, [[]])];
   StDeliver 0 true 0 All; StCFrame 0 [];
   StStop; zfr false [] []; StDisconnect 0; StCFrame 0 []; StStart; StConnect 0 1200;
   zfr true [SSpawn 2 true [(0, VNat 5)]; SMap 0 2 8] [(0, [[]])];
   StDeliver 0 true 0 All; StCFrame 0 []].

Example C09F_ex_maps :
  script_okg z_map_ok = true /\ no_smap z_map_ok = false /\ run_maps_okb (sys_init zcfgN 1) z_map_ok = true /\
  exists y, run (sys_init zcfgN 1) z_map_ok = Ok y.
Proof.
  split; [vm_compute; reflexivity|]. split; [vm_compute; reflexivity|]. split; [vm_compute; reflexivity|].
  apply C09F_run_total_maps; vm_compute; reflexivity.
Qed.

Example C09F_witness_remap :
  script_okg z_remap = true /\ parts_small z_remap = true /\ tick_frames z_remap = 4 /\ no_tick0 z_remap = true /\
  no_smap z_remap = false /\ run_maps_okb (sys_init zcfgN 1) z_remap = false /\
  is_ok (run (sys_init zcfgN 1) (removelast z_remap)) = true /\
  is_panic (run (sys_init zcfgN 1) z_remap) = true.
Proof. vm_compute. repeat split; reflexivity. Qed.
