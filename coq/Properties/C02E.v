(* C02 / C01 end to end, at the value level.

   C02 "The tick a client reports as confirmed for an entity is truthful: when an entity's confirmed tick is T,
        every replicated component of that entity on the client holds the value the server had at tick T
        (never a mixture of ticks)."
   C01 "Every client converges: ... once everything in flight has been delivered and acknowledged, every
        authorized client holds exactly the server's replicated state (entities, components, values)."

   Structure (entities, component kinds): Properties/C03S.v, Properties/C03E.v.  Here: values.
   Files: Repl/ValSpec.v (definitions), Repl/ValSnap_proofs.v, Repl/ValHist_proofs.v (server history),
   Repl/ValClient_proofs.v + Repl/ValCli_proofs.v (client half), Repl/ValServer_proofs.v + Repl/ValSrv_proofs.v +
   Repl/ValFrame_proofs.v (server half), Repl/ValE2E_proofs.v (whole-system runs), Repl/ValSettle_proofs.v (the
   lossless settle phase of Repl/Converge.v establishes the premises of the convergence theorem).

   Scope ([script_scope], Repl/ValE2E_proofs.v), for runs `Sys.run (sys_init cfg n) script = Ok y`, policy PAll:
     script_okm    legal deliveries, single session (no StStop / StDisconnect), no SMap        (as C03E)
     tick_frames   fewer than 2^31 ticking server frames (replicon ticks and run stamps do not wrap)   (as C03E)
     script_vals   components written by the script are of kind 0 or 1 (rate EveryTick) and hold `VNat`;
                   no `SUnmark` (an entity id is replicated during at most one interval of its life)
     no_tick0      no replication to a client at replicon tick 0 (known defect D19: the client's initial update
                   tick 0 also means "nothing received"); counterexample below
     regs_of < 2^16   fewer than 2^16 mutate messages registered per slot (the u16 mutate index does not wrap;
                   [regs_all] is a slot-independent bound)
   The `cleanup` flag of server frames is unrestricted (cleanup only forgets in-flight entries).

   Vocabulary (Repl/ValSpec.v):
     snap script t r s1   s1 is the server right after a frame of the script that ran `send_replication` at
                          replicon tick t with run stamp r
     agree cc sc          the client components cc carry the values of the server components sc on common kinds
     cview / sview        the value the client holds / the server replicates for (entity, kind)
     has c e x h          the client holds server entity e as the live replica x with confirm history h
     cg / conf_since      the client has e confirmed at the tick of a snapshot or later, or an update message
                          on its way will confirm it, or e is dead and gone for good
     cli_inv / srv_slot_inv   the invariant of a connected client / of its server record (K is `sv_K`) *)
From RV Require Import Lib.Res Repl.ClientTicks Repl.World Vis.Visibility Repl.Server Repl.ServerSpec
  Repl.StructSpec Repl.Client Repl.Sys Repl.Ack_proofs Repl.Converge Repl.Witness
  Repl.ClientStructSpec Repl.ClientStruct_proofs Repl.StructE2E_proofs Repl.StructE2EMut_proofs
  Repl.ValSpec Repl.ValSnap_proofs Repl.ValHist_proofs Repl.ValClient_proofs Repl.ValServer_proofs
  Repl.ValCli_proofs Repl.ValSrv_proofs Repl.ValFrame_proofs Repl.ValE2E_proofs Repl.ValSettle_proofs Tick.ConfirmHistory.
Open Scope N_scope.

(* ---- the scope ---- *)
Theorem C02E_scope : forall cfg0 nclients script,
  script_scope cfg0 nclients script <->
  (script_okm script = true /\ script_vals script = true /\ no_tick0 script = true /\ tick_frames script < 2 ^ 31 /\
   forall slot, regs_of (sys_init cfg0 nclients) script slot < 2 ^ 16).
Proof. intros. reflexivity. Qed.

Theorem C02E_regs_bound : forall script y slot, regs_of y script slot <= regs_all y script.
Proof. exact regs_of_le_all. Qed.

(* ---- the server history: stamps and snapshots ---- *)
Theorem C02E_server_history : forall cfg0 nclients, cfg_policy cfg0 = PAll -> forall script y,
  script_okm script = true -> script_vals script = true -> tick_frames script < 2 ^ 31 ->
  run (sys_init cfg0 nclients) script = Ok y -> srv_hist cfg0 nclients script (y_server y).
Proof. exact hist_run. Qed.

(* ---- the invariant of whole-system runs ---- *)
Theorem C02E_invariant : forall cfg0 nclients, cfg_policy cfg0 = PAll -> forall script y,
  script_scope cfg0 nclients script -> run (sys_init cfg0 nclients) script = Ok y -> v_inv cfg0 nclients script y.
Proof. exact v_run. Qed.

(* ---- T: truthfulness (C02).  A replica has exactly the component kinds, and carries exactly the values, the server
        entity had right after the frame that replicated at the entity's confirmed tick (and the entity was
        replicated then): no mixture of ticks. ---- *)
Theorem C02E_truthful : forall cfg0 nclients, cfg_policy cfg0 = PAll -> forall script y slot c e cid x h,
  script_scope cfg0 nclients script -> run (sys_init cfg0 nclients) script = Ok y ->
  al_get slot (y_clients y) = Some c -> cl_status c = Connected ->
  al_get e (cl_s2c c) = Some cid -> get_cent c cid = Some x -> ce_alive x = true -> ce_marker x = true -> ce_hist x = Some h ->
  exists pre post y1 x1, script = pre ++ post /\ run (sys_init cfg0 nclients) pre = Ok y1 /\
    sv_tick (y_server y1) = h_last h /\ repl_get (y_server y1) e = Some x1 /\ agree (ce_comps x) (se_comps x1) /\
    kinds_equiv (map fst (ce_comps x)) (map fst (se_comps x1)).
Proof. exact e2e_truthful. Qed.

(* ... as an equality of the two finite maps kind -> value *)
Theorem C02E_truthful_exact : forall cfg0 nclients, cfg_policy cfg0 = PAll -> forall script y slot c e cid x h,
  script_scope cfg0 nclients script -> run (sys_init cfg0 nclients) script = Ok y ->
  al_get slot (y_clients y) = Some c -> cl_status c = Connected ->
  al_get e (cl_s2c c) = Some cid -> get_cent c cid = Some x -> ce_alive x = true -> ce_marker x = true -> ce_hist x = Some h ->
  exists pre post y1, script = pre ++ post /\ run (sys_init cfg0 nclients) pre = Ok y1 /\ sv_tick (y_server y1) = h_last h /\
    forall k, al_get k (ce_comps x) = option_map cv_nat (sview (y_server y1) e k).
Proof. exact e2e_truthful_exact. Qed.

(* ---- K: an acknowledged stamp is backed by the client ---- *)
Theorem C02E_ack_sound : forall cfg0 nclients, cfg_policy cfg0 = PAll -> forall script y slot c cl e a,
  script_scope cfg0 nclients script -> run (sys_init cfg0 nclients) script = Ok y ->
  al_get slot (y_clients y) = Some c -> cl_status c = Connected ->
  In cl (sv_clients (y_server y)) -> sc_slot cl = slot -> mutation_tick (sc_ticks cl) e = Some a ->
  exists pre post y1, script = pre ++ post /\ run (sys_init cfg0 nclients) pre = Ok y1 /\ sv_last_run (y_server y1) = a /\
    ((exists u, In u (cl_inbox_upd c ++ l_upd (get_link y slot)) /\ mentions u e /\ sv_tick (y_server y1) <= u_tick u) \/
     (exists x h, has c e x h /\ sv_tick (y_server y1) <= h_last h)).
Proof. exact e2e_ack_sound. Qed.

(* ---- Q: convergence (C01).  No update message on its way, nothing pending on the server for the client
        (`quiescent_for` of C11): same entities, same kinds, same values. ---- *)
Theorem C02E_converged : forall cfg0 nclients, cfg_policy cfg0 = PAll -> forall script y slot c cl,
  script_scope cfg0 nclients script -> run (sys_init cfg0 nclients) script = Ok y ->
  al_get slot (y_clients y) = Some c -> cl_status c = Connected ->
  In cl (sv_clients (y_server y)) -> sc_slot cl = slot -> sc_authorized cl = true ->
  l_upd (get_link y slot) = [] -> cl_inbox_upd c = [] ->
  quiescent_for (y_server y) cl -> sv_removed_events (y_server y) = [] ->
  struct_equiv (client_struct c) (struct_of (y_server y)) /\
  forall e k, cview c e k = option_map cv_nat (sview (y_server y) e k).
Proof. exact e2e_converged. Qed.

(* ---- C01 in the shape of the property.  One lossless round: a ticking server frame without operations, then for every
        slot: all update messages, all mutate messages, a client frame, all acknowledgements
        ([ValSettle_proofs.settle_round slots]; the round of Repl/Converge.v is [settle_round (slots y)]).
        After two rounds the premises of C02E_converged hold for every client that was connected and authorized before
        (`live`): round 1 sends what is missing and brings every acknowledgement back, the frame of round 2 finds every
        entity acknowledged and sends nothing, round 2 empties the queues again.  The scope is the scope of the
        whole script, settle steps included (they take two ticks and register mutate messages). ---- *)
Theorem C02E_settle_premises : forall cfg0 nclients, cfg_policy cfg0 = PAll -> forall body slots sl y,
  let rounds := ValSettle_proofs.settle_round slots ++ ValSettle_proofs.settle_round slots in
  script_scope cfg0 nclients (body ++ rounds) -> run (sys_init cfg0 nclients) (body ++ rounds) = Ok y ->
  In sl slots -> (exists yb, run (sys_init cfg0 nclients) body = Ok yb /\ live yb sl) ->
  exists c cl, al_get sl (y_clients y) = Some c /\ cl_status c = Connected /\
    In cl (sv_clients (y_server y)) /\ sc_slot cl = sl /\ sc_authorized cl = true /\
    l_upd (get_link y sl) = [] /\ cl_inbox_upd c = [] /\ quiescent_for (y_server y) cl /\ sv_removed_events (y_server y) = [].
Proof. exact settle_premises. Qed.

Theorem C02E_settles : forall cfg0 nclients, cfg_policy cfg0 = PAll -> forall body slots sl y,
  let rounds := ValSettle_proofs.settle_round slots ++ ValSettle_proofs.settle_round slots in
  script_scope cfg0 nclients (body ++ rounds) -> run (sys_init cfg0 nclients) (body ++ rounds) = Ok y ->
  In sl slots -> (exists yb, run (sys_init cfg0 nclients) body = Ok yb /\ live yb sl) ->
  exists c cl, al_get sl (y_clients y) = Some c /\ cl_status c = Connected /\
    In cl (sv_clients (y_server y)) /\ sc_slot cl = sl /\ sc_authorized cl = true /\
    struct_equiv (client_struct c) (struct_of (y_server y)) /\
    forall e k, cview c e k = option_map cv_nat (sview (y_server y) e k).
Proof. exact e2e_settles. Qed.

(* ... with the settle phase of Repl/Converge.v (the one of the statement of C01) *)
Theorem C02E_settle_converges : forall cfg0 nclients body yb y sl, cfg_policy cfg0 = PAll ->
  let rounds := ValSettle_proofs.settle_round (Converge.slots yb) ++ ValSettle_proofs.settle_round (Converge.slots yb) in
  script_scope cfg0 nclients (body ++ rounds) ->
  run (sys_init cfg0 nclients) body = Ok yb -> Converge.settle 2 yb = Ok y -> live yb sl ->
  exists c cl, al_get sl (y_clients y) = Some c /\ cl_status c = Connected /\
    In cl (sv_clients (y_server y)) /\ sc_slot cl = sl /\ sc_authorized cl = true /\
    struct_equiv (client_struct c) (struct_of (y_server y)) /\
    forall e k, cview c e k = option_map cv_nat (sview (y_server y) e k).
Proof. exact e2e_settle_converges. Qed.

Print Assumptions C02E_scope.
Print Assumptions C02E_regs_bound.
Print Assumptions C02E_server_history.
Print Assumptions C02E_invariant.
Print Assumptions C02E_truthful.
Print Assumptions C02E_truthful_exact.
Print Assumptions C02E_ack_sound.
Print Assumptions C02E_converged.
Print Assumptions C02E_settle_premises.
Print Assumptions C02E_settles.
Print Assumptions C02E_settle_converges.

(* ================================================================== *)
(* the statements are not vacuous                                     *)
(* ================================================================== *)

Definition ex_cfg : cfg := mkCfg PAll AuthNone true 1000.
Definition sfr (tick : bool) (ops : list sop) : step := StSFrame tick 10 false ops [].

(* one entity with two components; four ticks.  The mutate message of tick 2 is lost, the one of tick 4 arrives
   before the one of tick 3 (which is then outdated and ignored), the acknowledgements are delayed until the end *)
Definition ex_val : list step :=
  [StStart; sfr false []; StConnect 0 1200;
   sfr true [SSpawn 1 true [(0, VNat 1); (1, VNat 2)]];
   StDeliver 0 true 0 All; StDeliver 0 true 1 All; StCFrame 0 [];
   sfr true [SMutate 1 0 (VNat 10)];
   sfr true [SMutate 1 1 (VNat 20)];
   sfr true [SMutate 1 0 (VNat 11)];
   StDrop 0 true 1 First;
   StDeliver 0 true 1 Last; StCFrame 0 [];
   StDeliver 0 true 1 All; StCFrame 0 [];
   StDeliver 0 false 0 All;
   sfr true []].

Example C02E_ex_scope : script_scope ex_cfg 1 ex_val.
Proof. apply scope_by_bound; vm_compute; reflexivity. Qed.

(* per client: confirmed tick and components of every client entity, queued mutate messages (update tick, tick,
   body), queued acknowledgements; the server's components of every entity, the server tick, the acknowledged stamps *)
Definition ex_view (r : res sys) :=
  match r with
  | Ok y => Some (map (fun sc => (map (fun kv => (match ce_hist (snd kv) with Some h => Some (h_last h) | None => None end, ce_comps (snd kv)))
                                      (cl_ents (snd sc)),
                                  map (fun m => (m_upd_tick m, m_tick m, m_body m)) (l_mut (get_link y (fst sc))),
                                  l_ack (get_link y (fst sc)))) (y_clients y),
                  map (fun ex => (fst ex, map (fun kc => (fst kc, c_val (snd kc))) (se_comps (snd ex)))) (sv_ents (y_server y)),
                  sv_tick (y_server y),
                  map (fun cl => ct_mutation_ticks (sc_ticks cl)) (sv_clients (y_server y)))
  | _ => None
  end.

Example C02E_ex_run :
  (* after tick 1 was delivered, three more ticks ran and the first mutate message was dropped: the client still
     holds the snapshot of tick 1, confirmed at tick 1, while the server is at tick 4 *)
  ex_view (run (sys_init ex_cfg 1) (firstn 11 ex_val))
    = Some ([([(Some 1, [(0, CNat 1); (1, CNat 2)])],
              [(1, 3, [(1, [(0, VNat 10); (1, VNat 20)])]); (1, 4, [(1, [(0, VNat 11); (1, VNat 20)])])], [[0]])],
            [(1, [(0, VNat 11); (1, VNat 20)])], 4, [[(1, 2)]]) /\
  (* ... which is the server state right after the frame of tick 1 *)
  ex_view (run (sys_init ex_cfg 1) (firstn 4 ex_val))
    = Some ([([], [(1, 1, [])], [])], [(1, [(0, VNat 1); (1, VNat 2)])], 1, [[(1, 2)]]) /\
  (* the message of tick 4 overtakes the one of tick 3: confirmed tick 4, values of tick 4 *)
  ex_view (run (sys_init ex_cfg 1) (firstn 13 ex_val))
    = Some ([([(Some 4, [(0, CNat 11); (1, CNat 20)])], [(1, 3, [(1, [(0, VNat 10); (1, VNat 20)])])], [[0]; [3]])],
            [(1, [(0, VNat 11); (1, VNat 20)])], 4, [[(1, 2)]]) /\
  (* the late message of tick 3 is ignored; the delayed acknowledgements arrive; the stamp of the entity moves to the
     run of tick 4 (stamp 5) and the server has nothing left to send *)
  ex_view (run (sys_init ex_cfg 1) ex_val)
    = Some ([([(Some 4, [(0, CNat 11); (1, CNat 20)])], [(1, 5, [])], [])],
            [(1, [(0, VNat 11); (1, VNat 20)])], 5, [[(1, 5)]]).
Proof. vm_compute. repeat split; reflexivity. Qed.

(* C02E_truthful instantiated at the intermediate moment *)
Example C02E_ex_truthful_instance :
  exists y c x h, run (sys_init ex_cfg 1) (firstn 11 ex_val) = Ok y /\ al_get 0 (y_clients y) = Some c /\
    get_cent c 0 = Some x /\ ce_hist x = Some h /\ h_last h = 1 /\ sv_tick (y_server y) = 4 /\
    exists pre post y1 x1, firstn 11 ex_val = pre ++ post /\ run (sys_init ex_cfg 1) pre = Ok y1 /\
      sv_tick (y_server y1) = h_last h /\ repl_get (y_server y1) 1 = Some x1 /\ agree (ce_comps x) (se_comps x1) /\
      kinds_equiv (map fst (ce_comps x)) (map fst (se_comps x1)).
Proof.
  destruct (run (sys_init ex_cfg 1) (firstn 11 ex_val)) as [y| |] eqn:E; [|vm_compute in E; discriminate|vm_compute in E; discriminate].
  destruct (al_get 0 (y_clients y)) as [c|] eqn:Ec; [|vm_compute in E; inversion E; subst y; vm_compute in Ec; discriminate].
  destruct (get_cent c 0) as [x|] eqn:Ex; [|vm_compute in E; inversion E; subst y; vm_compute in Ec; inversion Ec; subst c; vm_compute in Ex; discriminate].
  destruct (ce_hist x) as [h|] eqn:Eh;
    [|vm_compute in E; inversion E; subst y; vm_compute in Ec; inversion Ec; subst c; vm_compute in Ex; inversion Ex; subst x; vm_compute in Eh; discriminate].
  exists y, c, x, h. split; [reflexivity|]. split; [exact Ec|]. split; [exact Ex|]. split; [exact Eh|].
  assert (Hsc : script_scope ex_cfg 1 (firstn 11 ex_val)) by (apply scope_by_bound; vm_compute; reflexivity).
  assert (Hfacts : h_last h = 1 /\ sv_tick (y_server y) = 4 /\ cl_status c = Connected /\ al_get 1 (cl_s2c c) = Some 0 /\ ce_alive x = true /\ ce_marker x = true).
  { vm_compute in E. inversion E; subst y. vm_compute in Ec. inversion Ec; subst c. vm_compute in Ex. inversion Ex; subst x.
    vm_compute in Eh. inversion Eh; subst h. vm_compute. repeat split; reflexivity. }
  destruct Hfacts as (F1 & F2 & F3 & F4 & F5 & F6). split; [exact F1|]. split; [exact F2|].
  exact (C02E_truthful ex_cfg 1 eq_refl (firstn 11 ex_val) y 0 c 1 0 x h Hsc E Ec F3 F4 Ex F5 F6 Eh).
Qed.

(* the premises of C02E_converged hold at the end of the run: instance *)
Example C02E_ex_converged_instance :
  exists y c cl, run (sys_init ex_cfg 1) ex_val = Ok y /\ al_get 0 (y_clients y) = Some c /\ sv_clients (y_server y) = [cl] /\
    struct_equiv (client_struct c) (struct_of (y_server y)) /\
    (forall e k, cview c e k = option_map cv_nat (sview (y_server y) e k)) /\
    cview c 1 0 = Some (CNat 11) /\ cview c 1 1 = Some (CNat 20).
Proof.
  destruct (run (sys_init ex_cfg 1) ex_val) as [y| |] eqn:E; [|vm_compute in E; discriminate|vm_compute in E; discriminate].
  destruct (al_get 0 (y_clients y)) as [c|] eqn:Ec; [|vm_compute in E; inversion E; subst y; vm_compute in Ec; discriminate].
  destruct (sv_clients (y_server y)) as [|cl [|cl2 r]] eqn:Ecl;
    [vm_compute in E; inversion E; subst y; vm_compute in Ecl; discriminate| |vm_compute in E; inversion E; subst y; vm_compute in Ecl; discriminate].
  exists y, c, cl. split; [reflexivity|]. split; [exact Ec|]. split; [exact Ecl|].
  assert (Hq : cl_status c = Connected /\ sc_slot cl = 0 /\ sc_authorized cl = true /\ l_upd (get_link y 0) = [] /\ cl_inbox_upd c = [] /\
               quiescent_for (y_server y) cl /\ sv_removed_events (y_server y) = [] /\
               cview c 1 0 = Some (CNat 11) /\ cview c 1 1 = Some (CNat 20)).
  { vm_compute in E. inversion E; subst y. vm_compute in Ec. inversion Ec; subst c. vm_compute in Ecl. inversion Ecl; subst cl.
    split; [reflexivity|]. split; [reflexivity|]. split; [reflexivity|]. split; [reflexivity|]. split; [reflexivity|].
    split; [|split; [reflexivity|split; reflexivity]].
    split; [reflexivity|]. split; [reflexivity|]. split; [reflexivity|]. split; [exact I|].
    intros e x madd Hin. vm_compute in Hin. destruct Hin as [Hin|[]]. inversion Hin; subst. right.
    split; [reflexivity|]. exists 5. split; [reflexivity|]. split; [reflexivity|].
    intros k comp [Hk|[Hk|[]]]; inversion Hk; subst; cbn; split; discriminate. }
  destruct Hq as (Q1 & Q2 & Q3 & Q4 & Q5 & Q6 & Q7 & Q8 & Q9).
  assert (Hin : In cl (sv_clients (y_server y))) by (rewrite Ecl; left; reflexivity).
  destruct (C02E_converged ex_cfg 1 eq_refl ex_val y 0 c cl C02E_ex_scope E Ec Q1 Hin Q2 Q3 Q4 Q5 Q6 Q7) as [A B].
  split; [exact A|]. split; [exact B|]. split; [exact Q8|exact Q9].
Qed.

(* C02E_settle_converges at the intermediate moment: the client holds the snapshot of tick 1, a mutate message was lost,
   two are in flight, an acknowledgement is on its way; two rounds of the settle phase later it holds the server's values *)
Example C02E_ex_settles :
  exists yb y c, run (sys_init ex_cfg 1) (firstn 11 ex_val) = Ok yb /\ Converge.settle 2 yb = Ok y /\ al_get 0 (y_clients y) = Some c /\
    (forall e k, cview c e k = option_map cv_nat (sview (y_server y) e k)) /\
    cview c 1 0 = Some (CNat 11) /\ cview c 1 1 = Some (CNat 20).
Proof.
  destruct (run (sys_init ex_cfg 1) (firstn 11 ex_val)) as [yb| |] eqn:E; [|vm_compute in E; discriminate|vm_compute in E; discriminate].
  destruct (Converge.settle 2 yb) as [y| |] eqn:Es;
    [|vm_compute in E; inversion E; subst yb; vm_compute in Es; discriminate|vm_compute in E; inversion E; subst yb; vm_compute in Es; discriminate].
  assert (Hsl : Converge.slots yb = [0]) by (vm_compute in E; inversion E; subst yb; reflexivity).
  assert (Hsc : script_scope ex_cfg 1 (firstn 11 ex_val ++ ValSettle_proofs.settle_round (Converge.slots yb) ++ ValSettle_proofs.settle_round (Converge.slots yb))).
  { rewrite Hsl. apply scope_by_bound; vm_compute; reflexivity. }
  assert (Hlive : live yb 0).
  { vm_compute in E. inversion E; subst yb. eexists. eexists. split; [reflexivity|]. split; [reflexivity|]. split; [left; reflexivity|]. split; reflexivity. }
  destruct (C02E_settle_converges ex_cfg 1 _ yb y 0 eq_refl Hsc E Es Hlive) as (c & cl & Hc & _ & _ & _ & _ & _ & Hv).
  exists yb, y, c. split; [reflexivity|]. split; [exact Es|]. split; [exact Hc|]. split; [exact Hv|].
  vm_compute in E. inversion E; subst yb. vm_compute in Es. inversion Es; subst y. vm_compute in Hc. inversion Hc; subst c. split; reflexivity.
Qed.

(* ================================================================== *)
(* why `no_tick0` is there (defect D19)                               *)
(* ================================================================== *)

(* The client is connected while the server replicates at replicon tick 0.  The mutate message of tick 1 (required
   update tick 0) passes the client's gate BEFORE the update message of tick 0 has arrived (the client's initial
   update tick is 0), hits an unknown entity, is skipped and acknowledged.  The server believes the client has the
   state of tick 1; the mutate message of tick 2 therefore carries only component 1.  The client ends up with
   component 0 of tick 0 and component 1 of tick 2, confirmed at tick 2: a mixture of ticks.
   The script satisfies every hypothesis of C02E_truthful except `no_tick0`. *)
Definition ex_t0 : list step :=
  [StStart; StConnect 0 1200;
   StSFrame false 10 false [SSpawn 1 true [(0, VNat 1); (1, VNat 1)]] [];
   StSFrame true 16 false [SMutate 1 0 (VNat 2)] (one 0 1);
   StDeliver 0 true 1 All; StCFrame 0 []; StDeliver 0 false 0 All;
   StDeliver 0 true 0 All; StCFrame 0 [];
   StSFrame true 16 false [SMutate 1 1 (VNat 3)] (one 0 1);
   StDeliver 0 true 1 All; StCFrame 0 []].

Example C02E_tick0_counterexample :
  script_okm ex_t0 = true /\ script_vals ex_t0 = true /\ tick_frames ex_t0 = 2 /\ regs_all (sys_init cfg_plain 1) ex_t0 = 2 /\
  no_tick0 ex_t0 = false /\
  (* the client: entity confirmed at tick 2 with components (0 -> 1, 1 -> 3); the server at tick 2: (0 -> 2, 1 -> 3) *)
  ex_view (run (sys_init cfg_plain 1) ex_t0)
    = Some ([([(Some 2, [(0, CNat 1); (1, CNat 3)])], [], [[1]])], [(1, [(0, VNat 2); (1, VNat 3)])], 2, [[(1, 2)]]) /\
  (* the states of the run whose server tick is 2 all have component 0 = 2 *)
  forallb (fun k => match run (sys_init cfg_plain 1) (firstn k ex_t0) with
                    | Ok y1 => negb (sv_tick (y_server y1) =? 2) ||
                               match get_ent (y_server y1) 1 with
                               | Some x1 => match al_get 0 (se_comps x1) with Some cc => val_eqb (c_val cc) (VNat 2) | None => false end
                               | None => false
                               end
                    | _ => true
                    end) (seq 0 13) = true.
Proof. vm_compute. repeat split; reflexivity. Qed.

(* the same class breaks convergence: Properties/C01.v, C01_D19_refuted (script_d19) *)
Example C02E_tick0_convergence : no_tick0 script_d19 = false /\ not_converged_after_settling cfg_plain script_d19 = true.
Proof. vm_compute. split; reflexivity. Qed.
