(* C02 / C01 end to end, at the value level, WITH ENTITY REFERENCES (every visibility policy, several sessions,
   re-replication; component kinds of rate `EveryTick` - 0 A, 1 B, 3 R of the harness pool - holding `VNat` or `VRef`).

   C02 "The tick a client reports as confirmed for an entity is truthful: when an entity's confirmed tick is T, every
        replicated component of that entity on the client holds the value the server had at tick T."
   For a reference "holds the value" means: the client component `CRef cid` maps back, through the client's entity map, to
   exactly the server entity `t` the server component referenced after the frame of tick T (`al_get cid (cl_c2s c) = Some t`;
   this is `Converge.cval_matches` and what `Sys.describe` reports), whether `t` itself is replicated to the client (then
   `cid` is its replica) or not (then `cid` is a live PLACEHOLDER reserved by `Client.map_value`, adopted if `t` is
   replicated later).

   Generalises Properties/C02F.v (T `C02F_truthful`, K `C02F_ack_sound`, Q `C02F_converged`, the settle corollaries).
   Scope ([script_scoper], Repl/ValRefE2E_proofs.v), for runs `Sys.run (sys_init cfg n) script = Ok y`, any policy:
     script_okf, no_tick0, tick_frames < 2^31, regs_of < 2^16      as C02F
     script_valsr   components written by the script are of a kind whose rate is `EveryTick` (not 2 `Once`, not 4
                    `Periodic`); ANY value (instead of `script_valsu`: kinds 0 / 1, `VNat`)
     refs_kept      the one hypothesis about references: a despawn record sent to a client at tick T names no entity that
                    an entity visible to that client referenced in an EARLIER snapshot (tick < T) of the client's session.
                    Decidable by running the script: `refs_keptb` (sound: C02G_refs_kept_check).
   The boundary is sharp in both directions:
     * allowed: losing an entity BEFORE it is referenced (the reference then makes a placeholder; a late mutate message of
       the entity's earlier life finds the placeholder - this was defect D29, found by this proof and repaired: the data is
       skipped; C02G_D29_fixed), and losing it in the very tick in which the reference appears (the client reads despawns
       before changes: C02G_ex_run, entity 3);
     * excluded, and each breaks the statement (witnesses below): un-replicate + re-replicate the target (D25), hide + show
       it (D25), despawn it while the reference stays (the reference dangles: `al_get cid (cl_c2s c) = None`), and a
       pre-spawn mapping for a referenced entity (D17; pre-spawn mappings are outside `script_okf`).
   Not covered: kind 2 (`Once`: the client holds the value of the last full send, a different statement), kind 4
   (`Periodic`, open defect D02), pre-spawn mappings.
   Files: Repl/ValRefSpec.v, ValRefHist_proofs.v, ValRefCheck_proofs.v, ValRefClient_proofs.v, ValRefCli_proofs.v,
   ValRefSrv_proofs.v, ValRefFrame_proofs.v, ValRefE2E_proofs.v, ValRefSettle_proofs.v. *)
From RV Require Import Lib.Res Repl.ClientTicks Repl.World Vis.Visibility Repl.Server Repl.ServerSpec
  Repl.StructSpec Repl.StructVisSpec Repl.Client Repl.Sys Repl.Ack_proofs Repl.Converge Repl.Witness
  Repl.ClientStructSpec Repl.ClientStruct_proofs Repl.StructE2E_proofs Repl.StructE2EMut_proofs Repl.StructE2ESess_proofs
  Repl.ValSpec Repl.ValSnap_proofs Repl.ValHist_proofs Repl.ValE2E_proofs Repl.ValSettle_proofs
  Repl.ValClient_proofs Repl.ValVisSpec Repl.ValVisHist_proofs Repl.ValVisE2E_proofs Repl.ValVisSettle_proofs
  Repl.ValRefSpec Repl.ValRefHist_proofs Repl.ValRefCheck_proofs Repl.ValRefClient_proofs Repl.ValRefCli_proofs
  Repl.ValRefE2E_proofs Repl.ValRefSettle_proofs Tick.ConfirmHistory.
Open Scope N_scope.

(* ---- the scope ---- *)
Theorem C02G_scope : forall cfg0 nclients script,
  script_scoper cfg0 nclients script <->
  (script_okf script = true /\ script_valsr script = true /\ no_tick0 script = true /\ tick_frames script < 2 ^ 31 /\
   (forall slot, regs_of (sys_init cfg0 nclients) script slot < 2 ^ 16) /\
   forall slot, In slot (client_slots nclients) -> refs_kept cfg0 nclients script slot).
Proof. intros. reflexivity. Qed.

(* the hypothesis about references, spelled out *)
Theorem C02G_refs_kept_def : forall cfg0 nclients script slot,
  refs_kept cfg0 nclients script slot <->
  (forall pre st post y0, script = pre ++ st :: post -> run (sys_init cfg0 nclients) pre = Ok y0 ->
     forall d, In d (desp_step y0 st slot) ->
       forall t r s0, snaps cfg0 nclients slot pre t r s0 ->
         ~ exists e x1 k c, vrepl slot s0 e = Some x1 /\ al_get k (se_comps x1) = Some c /\ c_val c = VRef d).
Proof. intros. reflexivity. Qed.

(* ... its executable check is sound *)
Theorem C02G_refs_kept_check : forall cfg0 nclients script, refs_keptb_all cfg0 nclients script = true ->
  forall slot, In slot (client_slots nclients) -> refs_kept cfg0 nclients script slot.
Proof. exact refs_keptb_all_sound. Qed.

(* the scope of Properties/C02F.v is a special case: without references nothing is ever referenced *)
Theorem C02G_scope_of_C02F : forall cfg0 nclients script, script_scopev cfg0 nclients script -> script_scoper cfg0 nclients script.
Proof. exact scopev_scoper. Qed.

Theorem C02G_scope_by_bound : forall cfg0 nclients script,
  script_okf script = true -> script_valsr script = true -> no_tick0 script = true -> tick_frames script < 2 ^ 31 ->
  regs_all (sys_init cfg0 nclients) script < 2 ^ 16 -> refs_keptb_all cfg0 nclients script = true ->
  script_scoper cfg0 nclients script.
Proof. exact scoper_by_bound. Qed.

(* the kinds in scope are exactly those replicated every tick *)
Theorem C02G_kinds : forall k, kind_et k = true <-> rate_of k = EveryTick.
Proof. exact kind_et_rate. Qed.

(* ---- the client-side facts about references (Repl/ValRefClient_proofs.v) ---- *)

(* applying an update message: the client entity of every server entity afterwards.  A mentioned entity is a live replica
   confirmed at the tick of the message whose components are the old ones minus the removals, overwritten by the entry,
   every reference written as the client entity the map gives for its target AFTER the message (a placeholder is reserved
   for an unknown target); an entity that is not mentioned is despawned, left alone, or (unknown so far) gets a placeholder *)
Theorem C02G_update_message : forall c u c', cs_inv c -> mapped_okr c -> upd_shaper u -> apply_update_message c u = Ok c' ->
  cs_inv c' /\ cl_upd_tick c' = u_tick u /\ mapped_okr c' /\
  (forall e cid, al_get e (cl_s2c c) = Some cid -> mem_N e (u_despawns u) = false -> al_get e (cl_s2c c') = Some cid) /\
  forall e,
    let o1 := if mem_N e (u_despawns u) then None else centof c e in
    if touched u e then
      geb_hist (u_tick u) o1 /\
      exists x', centof c' e = Some x' /\ live_at (u_tick u) x' /\
                 ce_comps x' = wr_compsr (cl_s2c c') (al_dflt e (u_changes u)) (rm_comps (al_dflt e (u_removals u)) (comps_of o1)) /\
                 ClientMut_proofs.refs_mapped c' (al_dflt e (u_changes u))
    else centof c' e = o1 \/ (o1 = None /\ exists x', centof c' e = Some x' /\ ce_marker x' = false).
Proof. exact update_view_r. Qed.

(* a client value keeps standing for a server value across an update message unless the referenced entity is despawned by it *)
Theorem C02G_value_kept : forall c u c' v cv, cs_inv c -> mapped_okr c -> upd_shaper u -> apply_update_message c u = Ok c' ->
  vrel c v cv -> (forall t, v = VRef t -> mem_N t (u_despawns u) = false) -> vrel c' v cv.
Proof. exact vrel_update. Qed.

(* `vrel` is the comparison of Repl/Converge.v *)
Theorem C02G_vrel_converge : forall c v cv, Converge.cval_matches c v cv = true <-> vrel c v cv.
Proof. exact cval_matches_vrel. Qed.

(* ---- the server history ---- *)
Theorem C02G_server_history : forall cfg0 nclients script y,
  script_valsr script = true -> tick_frames script < 2 ^ 31 ->
  run (sys_init cfg0 nclients) script = Ok y -> srv_histr cfg0 nclients script (y_server y).
Proof. exact histr_run. Qed.

(* ---- the invariant of whole-system runs ---- *)
Theorem C02G_invariant : forall cfg0 nclients script y,
  script_scoper cfg0 nclients script -> run (sys_init cfg0 nclients) script = Ok y -> w_invr cfg0 nclients script y.
Proof. exact wr_run. Qed.

(* ---- T: truthfulness (C02), all values.  `agreer c` : a `CNat` equals the server's `VNat`, a `CRef cid` maps back
        through `cl_c2s c` to the entity the server's `VRef` names ---- *)
Theorem C02G_truthful : forall cfg0 nclients script y slot c e cid x h,
  script_scoper cfg0 nclients script -> run (sys_init cfg0 nclients) script = Ok y ->
  al_get slot (y_clients y) = Some c -> mode_of script slot = MLive -> cl_status c = Connected ->
  al_get e (cl_s2c c) = Some cid -> get_cent c cid = Some x -> ce_alive x = true -> ce_marker x = true -> ce_hist x = Some h ->
  exists pre post y1 cl1 x1, script = pre ++ post /\ run (sys_init cfg0 nclients) pre = Ok y1 /\
    forallb (fun st => negb (ends_session slot st)) post = true /\
    sv_tick (y_server y1) = h_last h /\
    find_client (y_server y1) slot = Some cl1 /\ vis_visible (sc_vis cl1) e = true /\
    al_get e (struct_vis (y_server y1) cl1) = Some (map fst (se_comps x1)) /\
    repl_get (y_server y1) e = Some x1 /\ agreer c (ce_comps x) (se_comps x1) /\
    kinds_equiv (map fst (ce_comps x)) (map fst (se_comps x1)).
Proof. exact e2er_truthful. Qed.

(* ... kind by kind: the client holds a value exactly where the server replicated one at that tick, and it stands for it *)
Theorem C02G_truthful_exact : forall cfg0 nclients script y slot c e cid x h,
  script_scoper cfg0 nclients script -> run (sys_init cfg0 nclients) script = Ok y ->
  al_get slot (y_clients y) = Some c -> mode_of script slot = MLive -> cl_status c = Connected ->
  al_get e (cl_s2c c) = Some cid -> get_cent c cid = Some x -> ce_alive x = true -> ce_marker x = true -> ce_hist x = Some h ->
  exists pre post y1, script = pre ++ post /\ run (sys_init cfg0 nclients) pre = Ok y1 /\
    forallb (fun st => negb (ends_session slot st)) post = true /\ sv_tick (y_server y1) = h_last h /\
    vrepl slot (y_server y1) e <> None /\
    forall k, opt_vrel c (sviewv slot (y_server y1) e k) (al_get k (ce_comps x)).
Proof. exact e2er_truthful_exact. Qed.

(* ---- R1: references are truthful.  A reference held by a replica confirmed at tick T maps back to exactly the entity the
        server component referenced after the frame of tick T; the client entity it points at is mapped both ways and
        alive (a replica or a placeholder); and the replica holds a reference wherever the server component is one ---- *)
Theorem C02G_truthful_ref : forall cfg0 nclients script y slot c e cid x h,
  script_scoper cfg0 nclients script -> run (sys_init cfg0 nclients) script = Ok y ->
  al_get slot (y_clients y) = Some c -> mode_of script slot = MLive -> cl_status c = Connected ->
  al_get e (cl_s2c c) = Some cid -> get_cent c cid = Some x -> ce_alive x = true -> ce_marker x = true -> ce_hist x = Some h ->
  exists pre post y1, script = pre ++ post /\ run (sys_init cfg0 nclients) pre = Ok y1 /\
    forallb (fun st => negb (ends_session slot st)) post = true /\ sv_tick (y_server y1) = h_last h /\
    (forall k rcid, al_get k (ce_comps x) = Some (CRef rcid) ->
       exists t xt, sviewv slot (y_server y1) e k = Some (VRef t) /\ al_get rcid (cl_c2s c) = Some t /\
                    al_get t (cl_s2c c) = Some rcid /\ get_cent c rcid = Some xt /\ ce_alive xt = true) /\
    (forall k t, sviewv slot (y_server y1) e k = Some (VRef t) ->
       exists rcid, al_get k (ce_comps x) = Some (CRef rcid) /\ al_get rcid (cl_c2s c) = Some t).
Proof. exact e2er_truthful_ref. Qed.

(* ---- K: an acknowledged stamp is backed by the client ---- *)
Theorem C02G_ack_sound : forall cfg0 nclients script y slot c cl e a,
  script_scoper cfg0 nclients script -> run (sys_init cfg0 nclients) script = Ok y ->
  al_get slot (y_clients y) = Some c -> mode_of script slot = MLive -> cl_status c = Connected ->
  In cl (sv_clients (y_server y)) -> sc_slot cl = slot -> mutation_tick (sc_ticks cl) e = Some a ->
  exists pre post y1, script = pre ++ post /\ run (sys_init cfg0 nclients) pre = Ok y1 /\
    forallb (fun st => negb (ends_session slot st)) post = true /\ sv_last_run (y_server y1) = a /\
    ((exists u, In u (cl_inbox_upd c ++ l_upd (get_link y slot)) /\ mentions u e /\ sv_tick (y_server y1) <= u_tick u) \/
     (exists x h, has c e x h /\ sv_tick (y_server y1) <= h_last h)).
Proof. exact e2er_ack_sound. Qed.

(* ---- Q / R2: convergence (C01).  Nothing on its way, nothing pending on the server for the client: the client's
        structure is `struct_vis` of its record, and every value of every visible entity stands for the server's value -
        for a reference: it maps back to the server's referenced entity ---- *)
Theorem C02G_converged : forall cfg0 nclients script y slot c cl,
  script_scoper cfg0 nclients script -> run (sys_init cfg0 nclients) script = Ok y ->
  al_get slot (y_clients y) = Some c -> mode_of script slot = MLive -> cl_status c = Connected ->
  In cl (sv_clients (y_server y)) -> sc_slot cl = slot -> sc_authorized cl = true ->
  l_upd (get_link y slot) = [] -> cl_inbox_upd c = [] ->
  quiescent_for (y_server y) cl -> sv_removed_events (y_server y) = [] ->
  struct_equiv (client_struct c) (struct_vis (y_server y) cl) /\
  forall e k, view_agrees c slot (y_server y) e k.
Proof. exact e2er_converged. Qed.

Theorem C02G_view_agrees_def : forall c slot s e k,
  view_agrees c slot s e k <->
  match cview c e k, sviewv slot s e k with
  | Some cv, Some v => vrel c v cv
  | None, None => True
  | _, _ => False
  end.
Proof. intros. reflexivity. Qed.

Theorem C02G_settle_premises : forall cfg0 nclients body slots sl y,
  let rounds := ValSettle_proofs.settle_round slots ++ ValSettle_proofs.settle_round slots in
  script_scoper cfg0 nclients (body ++ rounds) -> run (sys_init cfg0 nclients) (body ++ rounds) = Ok y ->
  In sl slots -> (exists yb, run (sys_init cfg0 nclients) body = Ok yb /\ livev body yb sl) ->
  mode_of (body ++ rounds) sl = MLive /\
  exists c cl, al_get sl (y_clients y) = Some c /\ cl_status c = Connected /\
    In cl (sv_clients (y_server y)) /\ sc_slot cl = sl /\ sc_authorized cl = true /\
    l_upd (get_link y sl) = [] /\ cl_inbox_upd c = [] /\ quiescent_for (y_server y) cl /\ sv_removed_events (y_server y) = [].
Proof. exact settler_premises. Qed.

Theorem C02G_settles : forall cfg0 nclients body slots sl y,
  let rounds := ValSettle_proofs.settle_round slots ++ ValSettle_proofs.settle_round slots in
  script_scoper cfg0 nclients (body ++ rounds) -> run (sys_init cfg0 nclients) (body ++ rounds) = Ok y ->
  In sl slots -> (exists yb, run (sys_init cfg0 nclients) body = Ok yb /\ livev body yb sl) ->
  exists c cl, al_get sl (y_clients y) = Some c /\ cl_status c = Connected /\
    In cl (sv_clients (y_server y)) /\ sc_slot cl = sl /\ sc_authorized cl = true /\
    struct_equiv (client_struct c) (struct_vis (y_server y) cl) /\
    forall e k, view_agrees c sl (y_server y) e k.
Proof. exact e2er_settles. Qed.

Theorem C02G_settle_converges : forall cfg0 nclients body yb y sl,
  let rounds := ValSettle_proofs.settle_round (Converge.slots yb) ++ ValSettle_proofs.settle_round (Converge.slots yb) in
  script_scoper cfg0 nclients (body ++ rounds) ->
  run (sys_init cfg0 nclients) body = Ok yb -> Converge.settle 2 yb = Ok y -> livev body yb sl ->
  exists c cl, al_get sl (y_clients y) = Some c /\ cl_status c = Connected /\
    In cl (sv_clients (y_server y)) /\ sc_slot cl = sl /\ sc_authorized cl = true /\
    struct_equiv (client_struct c) (struct_vis (y_server y) cl) /\
    forall e k, view_agrees c sl (y_server y) e k.
Proof. exact e2er_settle_converges. Qed.

Theorem C02G_settle_values : forall cfg0 nclients body yb y sl,
  let rounds := ValSettle_proofs.settle_round (Converge.slots yb) ++ ValSettle_proofs.settle_round (Converge.slots yb) in
  script_scoper cfg0 nclients (body ++ rounds) ->
  run (sys_init cfg0 nclients) body = Ok yb -> Converge.settle 2 yb = Ok y -> livev body yb sl ->
  exists c, al_get sl (y_clients y) = Some c /\
    (forall e k n, cview c e k = Some (CNat n) <-> sviewv sl (y_server y) e k = Some (VNat n)) /\
    (forall e k t, sviewv sl (y_server y) e k = Some (VRef t) <->
                   exists cid, cview c e k = Some (CRef cid) /\ al_get cid (cl_c2s c) = Some t).
Proof. exact e2er_settle_values. Qed.

Print Assumptions C02G_scope.
Print Assumptions C02G_refs_kept_def.
Print Assumptions C02G_refs_kept_check.
Print Assumptions C02G_scope_of_C02F.
Print Assumptions C02G_scope_by_bound.
Print Assumptions C02G_kinds.
Print Assumptions C02G_update_message.
Print Assumptions C02G_value_kept.
Print Assumptions C02G_vrel_converge.
Print Assumptions C02G_server_history.
Print Assumptions C02G_invariant.
Print Assumptions C02G_truthful.
Print Assumptions C02G_truthful_exact.
Print Assumptions C02G_truthful_ref.
Print Assumptions C02G_ack_sound.
Print Assumptions C02G_converged.
Print Assumptions C02G_view_agrees_def.
Print Assumptions C02G_settle_premises.
Print Assumptions C02G_settles.
Print Assumptions C02G_settle_converges.
Print Assumptions C02G_settle_values.

(* ================================================================== *)
(* the statements are not vacuous                                     *)
(* ================================================================== *)

Definition gx_bl : cfg := mkCfg PBlack AuthNone true 1000.
Definition gfr (tick : bool) (ops : list sop) : step := StSFrame tick 10 false ops [].

(* Two clients, blacklist.  Tick 1: entity 2 is spawned, then entity 1 with a reference to 2 (same tick; the record of 1 comes
   BEFORE the record of 2 in the message: a placeholder is reserved for 2 and adopted two records later); entity 3 is
   hidden from client 0 and referenced by entity 4 (placeholder on client 0; the update message of tick 1 even carries a
   despawn record for 3 - it was never sent - next to the reference: same tick, harmless); client 1 sees 1, 2, 3 but not 4.
   Tick 2: the reference of 4 is re-targeted from 3 to 2; the mutate message is LOST for client 0.  Tick 3: entity 3 becomes
   visible to client 0 (the placeholder is adopted: same client entity, now a replica) and the re-target is sent again. *)
Definition gx_script : list step :=
  [StStart; gfr false []; StConnect 0 1200; StConnect 1 1200;
   gfr true [SSpawn 2 true [(0, VNat 5)]; SSpawn 1 true [(3, VRef 2)]; SSpawn 3 true [(0, VNat 7)];
             SSpawn 4 true [(0, VNat 1); (3, VRef 3)]; SVis 0 3 false; SVis 1 4 false];
   StDeliver 0 true 0 All; StDeliver 0 true 1 All; StCFrame 0 []; StDeliver 0 false 0 All;
   StDeliver 1 true 0 All; StDeliver 1 true 1 All; StCFrame 1 []; StDeliver 1 false 0 All;
   gfr true [SMutate 4 3 (VRef 2)];
   StDrop 0 true 1 All;
   gfr true [SVis 0 3 true];
   StDeliver 0 true 0 All; StDeliver 0 true 1 All; StCFrame 0 []; StDeliver 0 false 0 All;
   StDeliver 1 true 0 All; StDeliver 1 true 1 All; StCFrame 1 []].

Example C02G_ex_scope : script_scoper gx_bl 2 gx_script.
Proof. apply scoper_by_bound; vm_compute; reflexivity. Qed.

Example C02G_ex_script : script_okf gx_script = true /\ script_valsu gx_script = false /\ tick_frames gx_script = 3 /\
  mode_of gx_script 0 = MLive /\ mode_of gx_script 1 = MLive /\ refs_keptb_all gx_bl 2 gx_script = true.
Proof. vm_compute. repeat split; reflexivity. Qed.

(* per client: update tick; confirmed tick, alive, marked, components of every client entity; both entity maps; the update
   messages on their way (tick, despawn records, changes) and the mutate messages (update tick, tick, body);
   the server's components of every entity; the server tick *)
Definition gx_view (r : res sys) :=
  match r with
  | Ok y => Some (map (fun sc => (cl_upd_tick (snd sc),
                                  map (fun kv => (match ce_hist (snd kv) with Some h => Some (h_last h) | None => None end,
                                                  ce_alive (snd kv), ce_marker (snd kv), ce_comps (snd kv))) (cl_ents (snd sc)),
                                  cl_s2c (snd sc), cl_c2s (snd sc),
                                  map (fun u => (u_tick u, u_despawns u, u_changes u)) (l_upd (get_link y (fst sc))),
                                  map (fun m => (m_upd_tick m, m_tick m, m_body m)) (l_mut (get_link y (fst sc))))) (y_clients y),
                  map (fun ex => (fst ex, map (fun kc => (fst kc, c_val (snd kc))) (se_comps (snd ex)))) (sv_ents (y_server y)),
                  sv_tick (y_server y))
  | _ => None
  end.

Example C02G_ex_run :
  (* after the frame of tick 1: what is on its way *)
  gx_view (run (sys_init gx_bl 2) (firstn 5 gx_script))
    = Some ([(0, [], [], [], [(1, [3], [(1, [(3, VRef 2)]); (2, [(0, VNat 5)]); (4, [(0, VNat 1); (3, VRef 3)])])], [(1, 1, [])]);
             (0, [], [], [], [(1, [4], [(1, [(3, VRef 2)]); (2, [(0, VNat 5)]); (3, [(0, VNat 7)])])], [(1, 1, [])])],
            [(2, [(0, VNat 5)]); (1, [(3, VRef 2)]); (3, [(0, VNat 7)]); (4, [(0, VNat 1); (3, VRef 3)])], 1) /\
  (* both clients have applied tick 1.  Client 0: entity 1 -> client entity 0 with `CRef 1`, and client entity 1 is the
     replica of entity 2 (the placeholder reserved by the first record, adopted by the second); entity 4 -> client
     entity 2 with `CRef 3`, and client entity 3 is the unmarked placeholder mapped to the hidden entity 3 *)
  gx_view (run (sys_init gx_bl 2) (firstn 13 gx_script))
    = Some ([(1, [(Some 1, true, true, [(3, CRef 1)]); (Some 1, true, true, [(0, CNat 5)]);
                  (Some 1, true, true, [(0, CNat 1); (3, CRef 3)]); (None, true, false, [])],
              [(1, 0); (2, 1); (4, 2); (3, 3)], [(0, 1); (1, 2); (2, 4); (3, 3)], [], []);
             (1, [(Some 1, true, true, [(3, CRef 1)]); (Some 1, true, true, [(0, CNat 5)]); (Some 1, true, true, [(0, CNat 7)])],
              [(1, 0); (2, 1); (3, 2)], [(0, 1); (1, 2); (2, 3)], [], [])],
            [(2, [(0, VNat 5)]); (1, [(3, VRef 2)]); (3, [(0, VNat 7)]); (4, [(0, VNat 1); (3, VRef 3)])], 1) /\
  (* after tick 3: the mutate message of tick 2 (4.R := 2) was dropped for client 0; entity 3 is sent whole, the re-target is
     sent again (mutate message of tick 3, requires update tick 3) *)
  gx_view (run (sys_init gx_bl 2) (firstn 16 gx_script))
    = Some ([(1, [(Some 1, true, true, [(3, CRef 1)]); (Some 1, true, true, [(0, CNat 5)]);
                  (Some 1, true, true, [(0, CNat 1); (3, CRef 3)]); (None, true, false, [])],
              [(1, 0); (2, 1); (4, 2); (3, 3)], [(0, 1); (1, 2); (2, 4); (3, 3)],
              [(3, [], [(3, [(0, VNat 7)])])], [(3, 3, [(4, [(3, VRef 2)])])]);
             (1, [(Some 1, true, true, [(3, CRef 1)]); (Some 1, true, true, [(0, CNat 5)]); (Some 1, true, true, [(0, CNat 7)])],
              [(1, 0); (2, 1); (3, 2)], [(0, 1); (1, 2); (2, 3)], [], [(1, 2, []); (1, 3, [])])],
            [(2, [(0, VNat 5)]); (1, [(3, VRef 2)]); (3, [(0, VNat 7)]); (4, [(0, VNat 1); (3, VRef 2)])], 3) /\
  (* the end.  Client 0: the placeholder (client entity 3) has become the replica of entity 3, confirmed at tick 3; entity 4
     (client entity 2) is confirmed at tick 3 and its reference points at client entity 1 = entity 2 *)
  gx_view (run (sys_init gx_bl 2) gx_script)
    = Some ([(3, [(Some 1, true, true, [(3, CRef 1)]); (Some 1, true, true, [(0, CNat 5)]);
                  (Some 3, true, true, [(0, CNat 1); (3, CRef 1)]); (Some 3, true, true, [(0, CNat 7)])],
              [(1, 0); (2, 1); (4, 2); (3, 3)], [(0, 1); (1, 2); (2, 4); (3, 3)], [], []);
             (1, [(Some 1, true, true, [(3, CRef 1)]); (Some 1, true, true, [(0, CNat 5)]); (Some 1, true, true, [(0, CNat 7)])],
              [(1, 0); (2, 1); (3, 2)], [(0, 1); (1, 2); (2, 3)], [], [])],
            [(2, [(0, VNat 5)]); (1, [(3, VRef 2)]); (3, [(0, VNat 7)]); (4, [(0, VNat 1); (3, VRef 2)])], 3).
Proof. vm_compute. repeat split; reflexivity. Qed.

(* C02G_truthful_ref instantiated in the middle of the run (after both clients applied tick 1), client 0, entity 4 (client
   entity 2), confirmed at tick 1: its reference `CRef 3` maps back to entity 3, which is HIDDEN from client 0 - the client
   entity 3 is a live placeholder *)
Example C02G_ex_placeholder_instance :
  exists y c x h, run (sys_init gx_bl 2) (firstn 13 gx_script) = Ok y /\ al_get 0 (y_clients y) = Some c /\
    get_cent c 2 = Some x /\ ce_hist x = Some h /\ h_last h = 1 /\ al_get 3 (ce_comps x) = Some (CRef 3) /\
    get_cent c 3 = Some ClientStruct_proofs.placeholder /\ vrepl 0 (y_server y) 3 = None /\
    exists pre post y1, firstn 13 gx_script = pre ++ post /\ run (sys_init gx_bl 2) pre = Ok y1 /\
      forallb (fun st => negb (ends_session 0 st)) post = true /\ sv_tick (y_server y1) = h_last h /\
      (forall k rcid, al_get k (ce_comps x) = Some (CRef rcid) ->
         exists t xt, sviewv 0 (y_server y1) 4 k = Some (VRef t) /\ al_get rcid (cl_c2s c) = Some t /\
                      al_get t (cl_s2c c) = Some rcid /\ get_cent c rcid = Some xt /\ ce_alive xt = true) /\
      (forall k t, sviewv 0 (y_server y1) 4 k = Some (VRef t) ->
         exists rcid, al_get k (ce_comps x) = Some (CRef rcid) /\ al_get rcid (cl_c2s c) = Some t).
Proof.
  assert (Hsc : script_scoper gx_bl 2 (firstn 13 gx_script)) by (apply scoper_by_bound; vm_compute; reflexivity).
  destruct (run (sys_init gx_bl 2) (firstn 13 gx_script)) as [y| |] eqn:E; [|vm_compute in E; discriminate|vm_compute in E; discriminate].
  destruct (al_get 0 (y_clients y)) as [c|] eqn:Ec; [|vm_compute in E; inversion E; subst y; vm_compute in Ec; discriminate].
  destruct (get_cent c 2) as [x|] eqn:Ex; [|vm_compute in E; inversion E; subst y; vm_compute in Ec; inversion Ec; subst c; vm_compute in Ex; discriminate].
  destruct (ce_hist x) as [h|] eqn:Eh;
    [|vm_compute in E; inversion E; subst y; vm_compute in Ec; inversion Ec; subst c; vm_compute in Ex; inversion Ex; subst x; vm_compute in Eh; discriminate].
  exists y, c, x, h. split; [reflexivity|]. split; [exact Ec|]. split; [exact Ex|]. split; [exact Eh|].
  assert (Hfacts : h_last h = 1 /\ al_get 3 (ce_comps x) = Some (CRef 3) /\ get_cent c 3 = Some ClientStruct_proofs.placeholder /\
                   vrepl 0 (y_server y) 3 = None /\
                   cl_status c = Connected /\ al_get 4 (cl_s2c c) = Some 2 /\ ce_alive x = true /\ ce_marker x = true).
  { vm_compute in E; inversion E; subst y; vm_compute in Ec; inversion Ec; subst c; vm_compute in Ex; inversion Ex; subst x;
      vm_compute in Eh; inversion Eh; subst h; vm_compute; repeat split; reflexivity. }
  destruct Hfacts as (F1 & F2 & F3 & F4 & F5 & F6 & F7 & F8). split; [exact F1|]. split; [exact F2|]. split; [exact F3|]. split; [exact F4|].
  assert (Hm : mode_of (firstn 13 gx_script) 0 = MLive) by (vm_compute; reflexivity).
  exact (C02G_truthful_ref gx_bl 2 _ y 0 c 4 2 x h Hsc E Ec Hm F5 F6 Ex F7 F8 Eh).
Qed.

(* C02G_truthful_ref at the end of the run: entity 4 is confirmed at tick 3 and its reference maps back to entity 2 (the
   re-target of tick 2, whose first mutate message was lost) *)
Example C02G_ex_retarget_instance :
  exists y c x h, run (sys_init gx_bl 2) gx_script = Ok y /\ al_get 0 (y_clients y) = Some c /\
    get_cent c 2 = Some x /\ ce_hist x = Some h /\ h_last h = 3 /\ al_get 3 (ce_comps x) = Some (CRef 1) /\
    al_get 1 (cl_c2s c) = Some 2 /\
    exists pre post y1, gx_script = pre ++ post /\ run (sys_init gx_bl 2) pre = Ok y1 /\
      forallb (fun st => negb (ends_session 0 st)) post = true /\ sv_tick (y_server y1) = h_last h /\
      (forall k rcid, al_get k (ce_comps x) = Some (CRef rcid) ->
         exists t xt, sviewv 0 (y_server y1) 4 k = Some (VRef t) /\ al_get rcid (cl_c2s c) = Some t /\
                      al_get t (cl_s2c c) = Some rcid /\ get_cent c rcid = Some xt /\ ce_alive xt = true) /\
      (forall k t, sviewv 0 (y_server y1) 4 k = Some (VRef t) ->
         exists rcid, al_get k (ce_comps x) = Some (CRef rcid) /\ al_get rcid (cl_c2s c) = Some t).
Proof.
  pose proof C02G_ex_scope as Hsc.
  destruct (run (sys_init gx_bl 2) gx_script) as [y| |] eqn:E; [|vm_compute in E; discriminate|vm_compute in E; discriminate].
  destruct (al_get 0 (y_clients y)) as [c|] eqn:Ec; [|vm_compute in E; inversion E; subst y; vm_compute in Ec; discriminate].
  destruct (get_cent c 2) as [x|] eqn:Ex; [|vm_compute in E; inversion E; subst y; vm_compute in Ec; inversion Ec; subst c; vm_compute in Ex; discriminate].
  destruct (ce_hist x) as [h|] eqn:Eh;
    [|vm_compute in E; inversion E; subst y; vm_compute in Ec; inversion Ec; subst c; vm_compute in Ex; inversion Ex; subst x; vm_compute in Eh; discriminate].
  exists y, c, x, h. split; [reflexivity|]. split; [exact Ec|]. split; [exact Ex|]. split; [exact Eh|].
  assert (Hfacts : h_last h = 3 /\ al_get 3 (ce_comps x) = Some (CRef 1) /\ al_get 1 (cl_c2s c) = Some 2 /\
                   cl_status c = Connected /\ al_get 4 (cl_s2c c) = Some 2 /\ ce_alive x = true /\ ce_marker x = true).
  { vm_compute in E; inversion E; subst y; vm_compute in Ec; inversion Ec; subst c; vm_compute in Ex; inversion Ex; subst x;
      vm_compute in Eh; inversion Eh; subst h; vm_compute; repeat split; reflexivity. }
  destruct Hfacts as (F1 & F2 & F3 & F5 & F6 & F7 & F8). split; [exact F1|]. split; [exact F2|]. split; [exact F3|].
  exact (C02G_truthful_ref gx_bl 2 gx_script y 0 c 4 2 x h Hsc E Ec (proj1 (proj2 (proj2 (proj2 C02G_ex_script)))) F5 F6 Ex F7 F8 Eh).
Qed.

(* C02G_settle_converges at the end of the run, both clients (different visibility): two rounds later each holds what is
   visible to it; client 1 has never seen entity 4 *)
Example C02G_ex_settles :
  exists yb y, run (sys_init gx_bl 2) gx_script = Ok yb /\ Converge.settle 2 yb = Ok y /\ converged y = true /\
    forall sl, sl = 0 \/ sl = 1 ->
      exists c cl, al_get sl (y_clients y) = Some c /\ In cl (sv_clients (y_server y)) /\ sc_slot cl = sl /\
        struct_equiv (client_struct c) (struct_vis (y_server y) cl) /\
        (forall e k, view_agrees c sl (y_server y) e k) /\
        cview c 1 3 = Some (CRef 1) /\ al_get 1 (cl_c2s c) = Some 2 /\
        cview c 4 3 = (if sl =? 0 then Some (CRef 1) else None).
Proof.
  destruct (run (sys_init gx_bl 2) gx_script) as [yb| |] eqn:E; [|vm_compute in E; discriminate|vm_compute in E; discriminate].
  destruct (Converge.settle 2 yb) as [y| |] eqn:Es;
    [|vm_compute in E; inversion E; subst yb; vm_compute in Es; discriminate|vm_compute in E; inversion E; subst yb; vm_compute in Es; discriminate].
  assert (Hsl : Converge.slots yb = [0; 1]) by (vm_compute in E; inversion E; subst yb; reflexivity).
  assert (Hsc : script_scoper gx_bl 2 (gx_script ++ ValSettle_proofs.settle_round (Converge.slots yb) ++ ValSettle_proofs.settle_round (Converge.slots yb))).
  { rewrite Hsl. apply scoper_by_bound; vm_compute; reflexivity. }
  assert (Hlive : forall sl, sl = 0 \/ sl = 1 -> livev gx_script yb sl).
  { intros sl [->| ->]; (split; [vm_compute; reflexivity|]);
      vm_compute in E; inversion E; subst yb; eexists; eexists; (split; [reflexivity|]); (split; [reflexivity|]);
      first [solve [split; [left; reflexivity|split; reflexivity]]|solve [split; [right; left; reflexivity|split; reflexivity]]]. }
  exists yb, y. split; [reflexivity|]. split; [exact Es|]. split.
  { vm_compute in E; inversion E; subst yb; vm_compute in Es; inversion Es; subst y; vm_compute; reflexivity. }
  intros sl Hslc.
  destruct (C02G_settle_converges gx_bl 2 _ yb y sl Hsc E Es (Hlive sl Hslc)) as (c & cl & Hc & _ & Hin & Hs & _ & Hst & Hv).
  exists c, cl. split; [exact Hc|]. split; [exact Hin|]. split; [exact Hs|]. split; [exact Hst|]. split; [exact Hv|].
  destruct Hslc; subst sl; vm_compute in E; inversion E; subst yb; vm_compute in Es; inversion Es; subst y;
    vm_compute in Hc; inversion Hc; subst c; repeat split; reflexivity.
Qed.

(* ================================================================== *)
(* the boundary: what `refs_kept` excludes, and what it does not      *)
(* ================================================================== *)

Definition gsf (tick : bool) (ops : list sop) : step := StSFrame tick 16 false ops [].

(* what the witnesses below look at: client 0's entities (confirmed tick, alive, marked, components), its two entity maps;
   the server's components *)
Definition gx_cli (r : res sys) :=
  match r with
  | Ok y => Some (map (fun sc => (map (fun kv => (match ce_hist (snd kv) with Some h => Some (h_last h) | None => None end,
                                                  ce_alive (snd kv), ce_marker (snd kv), ce_comps (snd kv))) (cl_ents (snd sc)),
                                  cl_s2c (snd sc), cl_c2s (snd sc))) (y_clients y),
                  map (fun ex => (fst ex, map (fun kc => (fst kc, c_val (snd kc))) (se_comps (snd ex)))) (sv_ents (y_server y)))
  | _ => None
  end.

(* every hypothesis of the scope except `refs_kept` *)
Definition scope_but_refs (c0 : cfg) (n : N) (script : list step) : bool :=
  script_okf script && script_valsr script && no_tick0 script && (tick_frames script <? 2 ^ 31) && (regs_all (sys_init c0 n) script <? 2 ^ 16).

(* D25: entity 2 references entity 1; 1 is un-replicated (tick 2: despawn record) and replicated again (tick 3: a NEW client
   entity).  Entity 2 is still confirmed at tick 1 and the server component has been `VRef 1` all along, but the client
   reference `CRef 0` maps back to nothing: the conclusion of C02G_truthful_ref fails, and the system never converges *)
Example C02G_D25_counterexample :
  scope_but_refs cfg_plain 1 script_d25 = true /\ refs_keptb_all cfg_plain 1 script_d25 = false /\ mode_of script_d25 0 = MLive /\
  gx_cli (run (sys_init cfg_plain 1) script_d25)
    = Some ([([(None, false, false, []); (Some 1, true, true, [(3, CRef 0)]); (Some 3, true, true, [(0, CNat 5)])],
              [(2, 1); (1, 2)], [(1, 2); (2, 1)])],
            [(1, [(0, VNat 5)]); (2, [(3, VRef 1)])]) /\
  not_converged_after_settling cfg_plain script_d25 = true.
Proof. vm_compute. repeat split; reflexivity. Qed.

(* ... hence the script is NOT in scope: `refs_kept` fails for it (not only its executable check) *)
Example C02G_D25_not_in_scope : ~ script_scoper cfg_plain 1 script_d25.
Proof.
  intros Hsc.
  destruct (run (sys_init cfg_plain 1) script_d25) as [y| |] eqn:E; [|vm_compute in E; discriminate|vm_compute in E; discriminate].
  destruct (al_get 0 (y_clients y)) as [c|] eqn:Ec; [|vm_compute in E; inversion E; subst y; vm_compute in Ec; discriminate].
  destruct (get_cent c 1) as [x|] eqn:Ex; [|vm_compute in E; inversion E; subst y; vm_compute in Ec; inversion Ec; subst c; vm_compute in Ex; discriminate].
  destruct (ce_hist x) as [h|] eqn:Eh;
    [|vm_compute in E; inversion E; subst y; vm_compute in Ec; inversion Ec; subst c; vm_compute in Ex; inversion Ex; subst x; vm_compute in Eh; discriminate].
  assert (Hfacts : al_get 3 (ce_comps x) = Some (CRef 0) /\ al_get 0 (cl_c2s c) = None /\
                   cl_status c = Connected /\ al_get 2 (cl_s2c c) = Some 1 /\ ce_alive x = true /\ ce_marker x = true).
  { vm_compute in E; inversion E; subst y; vm_compute in Ec; inversion Ec; subst c; vm_compute in Ex; inversion Ex; subst x;
      vm_compute; repeat split; reflexivity. }
  destruct Hfacts as (F1 & F2 & F3 & F4 & F5 & F6).
  assert (Hm : mode_of script_d25 0 = MLive) by (vm_compute; reflexivity).
  destruct (C02G_truthful_ref cfg_plain 1 script_d25 y 0 c 2 1 x h Hsc E Ec Hm F3 F4 Ex F5 F6 Eh) as (pre & post & y1 & _ & _ & _ & _ & Href & _).
  destruct (Href 3 0 F1) as (t & xt & _ & Ht & _). congruence.
Qed.

(* the same with visibility: the target is hidden (tick 2) and shown again (tick 3) *)
Definition script_hide_show : list step :=
  [StStart; gsf false []; StConnect 0 1200; gsf true [SSpawn 1 true [(0, VNat 5)]; SSpawn 2 true [(3, VRef 1)]]]
  ++ deliver_all 0 ++ [gsf true [SVis 0 1 false]] ++ deliver_all 0 ++ [gsf true [SVis 0 1 true]] ++ deliver_all 0.

Example C02G_hide_show_counterexample :
  scope_but_refs cfg_black 1 script_hide_show = true /\ refs_keptb_all cfg_black 1 script_hide_show = false /\
  gx_cli (run (sys_init cfg_black 1) script_hide_show)
    = Some ([([(None, false, false, []); (Some 1, true, true, [(3, CRef 0)]); (Some 3, true, true, [(0, CNat 5)])],
              [(2, 1); (1, 2)], [(1, 2); (2, 1)])],
            [(1, [(0, VNat 5)]); (2, [(3, VRef 1)])]) /\
  not_converged_after_settling cfg_black script_hide_show = true.
Proof. vm_compute. repeat split; reflexivity. Qed.

(* despawning the target while the reference stays: no re-replication, yet the statement as it stands fails - the client
   reference dangles (`CRef 0` maps back to nothing) while the server component still is `VRef 1`; the comparison of
   Repl/Converge.v (and of the harness: `Sys.describe` reports `None` against the server's entity) calls this "not
   converged".  So despawning a referenced entity is NOT harmless for the property as stated; it is harmless only in the
   sense that nothing the client can still reach is wrong *)
Definition script_despawn_target : list step :=
  [StStart; gsf false []; StConnect 0 1200; gsf true [SSpawn 1 true [(0, VNat 5)]; SSpawn 2 true [(3, VRef 1)]]]
  ++ deliver_all 0 ++ [gsf true [SDespawn 1]] ++ deliver_all 0.

Example C02G_despawn_counterexample :
  scope_but_refs cfg_plain 1 script_despawn_target = true /\ refs_keptb_all cfg_plain 1 script_despawn_target = false /\
  gx_cli (run (sys_init cfg_plain 1) script_despawn_target)
    = Some ([([(None, false, false, []); (Some 1, true, true, [(3, CRef 0)])], [(2, 1)], [(1, 2)])],
            [(1, []); (2, [(3, VRef 1)])]) /\
  not_converged_after_settling cfg_plain script_despawn_target = true.
Proof. vm_compute. repeat split; reflexivity. Qed.

(* D17: a pre-spawn mapping for an entity the client already holds a placeholder for.  `refs_kept` holds (no despawn record
   at all); what fails is `script_okf` (no `SMap`): pre-spawn mappings are out of scope *)
Example C02G_D17_out_of_scope :
  script_okf script_d17 = false /\ script_valsr script_d17 = true /\ refs_keptb_all cfg_plain 1 script_d17 = true /\
  not_converged_after_settling cfg_plain script_d17 = true.
Proof. vm_compute. repeat split; reflexivity. Qed.

(* D29 (found by this proof, repaired in the code and in Repl/Client.v).  Entity 1 is mutated together with entity 2 (tick 2,
   one mutate message M2, held back), hidden from the client (tick 3: despawn record) and only THEN referenced by entity 3
   (tick 4: the client reserves a placeholder for it).  M2 arrives late and finds entity 1 mapped to a placeholder without a
   confirm history; M3 and M4 (which repeat entity 2's mutation) are lost.  Before the repair `apply_mutations` returned an
   error there ("missing history component"): the rest of M2 - the mutation of the UNRELATED entity 2 - was skipped although
   M2 had been acknowledged, and 2.A stayed 5 on the client for good (server: 50).  Now the entry is skipped like the entry
   of an unknown entity.  The script is in scope (the target is lost BEFORE it is referenced), so the theorems apply *)
Definition script_d29 : list step :=
  [StStart; gsf false []; StConnect 0 1200;
   gsf true [SSpawn 1 true [(0, VNat 1)]; SSpawn 2 true [(0, VNat 5)]; SSpawn 3 true [(0, VNat 7)]]]
  ++ deliver_all 0
  ++ [gsf true [SMutate 1 0 (VNat 10); SMutate 2 0 (VNat 50)];
      gsf true [SVis 0 1 false];
      gsf true [SInsert 3 3 (VRef 1)];
      StDeliver 0 true 0 All; StCFrame 0 [];
      StDeliver 0 true 1 First; StDrop 0 true 1 All; StCFrame 0 []; StDeliver 0 false 0 All].

Example C02G_D29_fixed :
  script_scoper cfg_black 1 script_d29 /\
  (* the client: entity 2 (client entity 1) confirmed at tick 2 with 2.A = 50; entity 3 references the placeholder of entity 1 *)
  gx_cli (run (sys_init cfg_black 1) script_d29)
    = Some ([([(None, false, false, []); (Some 2, true, true, [(0, CNat 50)]); (Some 4, true, true, [(0, CNat 7); (3, CRef 3)]);
               (None, true, false, [])], [(2, 1); (3, 2); (1, 3)], [(1, 2); (2, 3); (3, 1)])],
            [(1, [(0, VNat 10)]); (2, [(0, VNat 50)]); (3, [(0, VNat 7); (3, VRef 1)])]) /\
  not_converged_after_settling cfg_black script_d29 = false.
Proof. split; [apply scoper_by_bound; vm_compute; reflexivity|]. vm_compute. repeat split; reflexivity. Qed.
