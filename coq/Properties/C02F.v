(* C02 / C01 end to end, at the value level, for EVERY visibility policy, SEVERAL sessions and re-replication of an entity id.

   C02 "The tick a client reports as confirmed for an entity is truthful: when an entity's confirmed tick is T, every
        replicated component of that entity on the client holds the value the server had at tick T (never a mixture of
        ticks)."
   C01 "Every client converges: ... once everything in flight has been delivered and acknowledged, every authorized client
        holds exactly the server's replicated state (entities, components, values)."

   Generalises Properties/C02E.v (T `C02E_truthful`, K `C02E_ack_sound`, Q `C02E_converged`, the settle corollaries):
     V1   no hypothesis on `cfg_policy` (PAll / PBlack / PWhite), `SVis slot e b` anywhere.  The server state a client is
          compared with is what was VISIBLE to the record of its slot after the frame of the tick (`struct_vis`, `vrepl`).
          For one client an entity id can be replicated during several intervals: lost (despawn record from `drain_lost`,
          stamp removed) and gained again as a new entity (sent whole, fresh stamp).  A mutate message of the earlier interval
          that arrives late finds the entity unknown (after the despawn) or confirmed at a later tick (after the regain):
          `apply_mutations` ignores it -- proved, no defect found.
     V1b  `SUnmark` allowed (`script_valsu` instead of `script_vals`): same mechanism, also inside ONE update message (despawn
          record and full entry for the re-marked entity).
     V2   several sessions: `StDisconnect` and `StStop` / `StStart` anywhere, under [sessions_ok] of Properties/C03F.v (a
          `StDisconnect slot` and a `StCFrame slot` between the end of a session and the next `StConnect slot`).  Statements
          are per session: for a slot that is live (`mode_of script slot = MLive`) and whose client is connected, the
          snapshot is a prefix of the script after which the session of the slot has not ended.
   Files: Repl/ValVisSpec.v (definitions), Repl/ValVisHist_proofs.v (server history with stops), Repl/ValVisCli_proofs.v
   (client half), Repl/ValVisSrv_proofs.v + Repl/ValVisFrame_proofs.v (server half, every policy), Repl/ValVisE2E_proofs.v
   (whole-system runs), Repl/ValVisSettle_proofs.v (the lossless settle phase).

   Scope ([script_scopev], Repl/ValVisE2E_proofs.v), for runs `Sys.run (sys_init cfg n) script = Ok y`, any policy:
     script_okf    legal deliveries, no SMap, sessions_ok                                            (as C03F)
     tick_frames   fewer than 2^31 ticking server frames                                             (as C03F)
     script_valsu  components written by the script are of kind 0 or 1 (rate EveryTick) and hold `VNat`
     no_tick0      no replication to a client at replicon tick 0 (known defect D19).  Unchanged: after a stop the tick is
                   reset to 0 by the stopped server's `reset`, but the change of `ServerTick` made by `reset` is consumed in
                   the same stopped frame, so a restarted server replicates at tick 0 never again (C02F_server_history,
                   field hv_t0; C02F_ex_restart shows the ticks)
     regs_of < 2^16   fewer than 2^16 mutate messages registered per slot over the WHOLE script (the per-session mutate
                   index starts again at 0 for a new record: the invariant only needs "index <= number registered so far") *)
From RV Require Import Lib.Res Repl.ClientTicks Repl.World Vis.Visibility Repl.Server Repl.ServerSpec
  Repl.StructSpec Repl.StructVisSpec Repl.Client Repl.Sys Repl.Ack_proofs Repl.Converge Repl.Witness
  Repl.ClientStructSpec Repl.ClientStruct_proofs Repl.StructE2E_proofs Repl.StructE2EMut_proofs Repl.StructE2ESess_proofs
  Repl.ValSpec Repl.ValSnap_proofs Repl.ValHist_proofs Repl.ValE2E_proofs Repl.ValSettle_proofs
  Repl.ValVisSpec Repl.ValVisHist_proofs Repl.ValVisCli_proofs Repl.ValVisSrv_proofs Repl.ValVisFrame_proofs
  Repl.ValVisE2E_proofs Repl.ValVisSettle_proofs Tick.ConfirmHistory.
Open Scope N_scope.

(* ---- the scope ---- *)
Theorem C02F_scope : forall cfg0 nclients script,
  script_scopev cfg0 nclients script <->
  (script_okf script = true /\ script_valsu script = true /\ no_tick0 script = true /\ tick_frames script < 2 ^ 31 /\
   forall slot, regs_of (sys_init cfg0 nclients) script slot < 2 ^ 16).
Proof. intros. reflexivity. Qed.

(* the scope of Properties/C02E.v is a special case (whatever the policy) *)
Theorem C02F_scope_of_C02E : forall cfg0 nclients script, script_scope cfg0 nclients script -> script_scopev cfg0 nclients script.
Proof. exact scope_scopev. Qed.

Theorem C02F_scope_by_bound : forall cfg0 nclients script,
  script_okf script = true -> script_valsu script = true -> no_tick0 script = true -> tick_frames script < 2 ^ 31 ->
  regs_all (sys_init cfg0 nclients) script < 2 ^ 16 -> script_scopev cfg0 nclients script.
Proof. exact scopev_by_bound. Qed.

(* in a single-session script a connected client is live *)
Theorem C02F_single_session_live : forall cfg0 nclients script y slot c,
  script_okm script = true -> tick_frames script < 2 ^ 31 -> run (sys_init cfg0 nclients) script = Ok y ->
  al_get slot (y_clients y) = Some c -> cl_status c = Connected -> mode_of script slot = MLive.
Proof. exact okm_live. Qed.

(* ---- the server history, with stops and restarts ---- *)
Theorem C02F_server_history : forall cfg0 nclients script y,
  script_valsu script = true -> tick_frames script < 2 ^ 31 ->
  run (sys_init cfg0 nclients) script = Ok y -> srv_histv cfg0 nclients script (y_server y).
Proof. exact histv_run. Qed.

(* `no_tick0` (a premise on the first server frame of the script) suffices with stops and restarts: a frame that runs
   `send_replication` while a client record exists never has replicon tick 0 *)
Theorem C02F_no_replication_at_tick0 : forall cfg0 nclients script y t r s1,
  script_valsu script = true -> tick_frames script < 2 ^ 31 -> no_tick0 script = true ->
  run (sys_init cfg0 nclients) script = Ok y -> snap cfg0 nclients script t r s1 -> 1 <= t \/ sv_clients s1 = [].
Proof. exact no_tick0_run. Qed.

(* ---- the invariant of whole-system runs ---- *)
Theorem C02F_invariant : forall cfg0 nclients script y,
  script_scopev cfg0 nclients script -> run (sys_init cfg0 nclients) script = Ok y -> w_inv cfg0 nclients script y.
Proof. exact w_run. Qed.

(* ---- T: truthfulness (C02).  A replica has exactly the component kinds, and carries exactly the values, the server
        entity had right after the frame that replicated at the entity's confirmed tick, a frame of the CURRENT session of
        the slot in which the entity was visible to the record of the slot (it is in `struct_vis (y_server y1) cl1`): no
        mixture of ticks, no data of an earlier interval of the entity. ---- *)
Theorem C02F_truthful : forall cfg0 nclients script y slot c e cid x h,
  script_scopev cfg0 nclients script -> run (sys_init cfg0 nclients) script = Ok y ->
  al_get slot (y_clients y) = Some c -> mode_of script slot = MLive -> cl_status c = Connected ->
  al_get e (cl_s2c c) = Some cid -> get_cent c cid = Some x -> ce_alive x = true -> ce_marker x = true -> ce_hist x = Some h ->
  exists pre post y1 cl1 x1, script = pre ++ post /\ run (sys_init cfg0 nclients) pre = Ok y1 /\
    forallb (fun st => negb (ends_session slot st)) post = true /\
    sv_tick (y_server y1) = h_last h /\
    find_client (y_server y1) slot = Some cl1 /\ vis_visible (sc_vis cl1) e = true /\
    al_get e (struct_vis (y_server y1) cl1) = Some (map fst (se_comps x1)) /\
    repl_get (y_server y1) e = Some x1 /\ agree (ce_comps x) (se_comps x1) /\
    kinds_equiv (map fst (ce_comps x)) (map fst (se_comps x1)).
Proof. exact e2ev_truthful. Qed.

(* ... as an equality of the two finite maps kind -> value *)
Theorem C02F_truthful_exact : forall cfg0 nclients script y slot c e cid x h,
  script_scopev cfg0 nclients script -> run (sys_init cfg0 nclients) script = Ok y ->
  al_get slot (y_clients y) = Some c -> mode_of script slot = MLive -> cl_status c = Connected ->
  al_get e (cl_s2c c) = Some cid -> get_cent c cid = Some x -> ce_alive x = true -> ce_marker x = true -> ce_hist x = Some h ->
  exists pre post y1, script = pre ++ post /\ run (sys_init cfg0 nclients) pre = Ok y1 /\
    forallb (fun st => negb (ends_session slot st)) post = true /\ sv_tick (y_server y1) = h_last h /\
    vrepl slot (y_server y1) e <> None /\
    forall k, al_get k (ce_comps x) = option_map cv_nat (sviewv slot (y_server y1) e k).
Proof. exact e2ev_truthful_exact. Qed.

(* V1 in the vocabulary of C02E: single-session scripts (`script_scope` of C02E), no hypothesis on the policy *)
Theorem C02F_truthful_all_policies : forall cfg0 nclients script y slot c e cid x h,
  script_scope cfg0 nclients script -> run (sys_init cfg0 nclients) script = Ok y ->
  al_get slot (y_clients y) = Some c -> cl_status c = Connected ->
  al_get e (cl_s2c c) = Some cid -> get_cent c cid = Some x -> ce_alive x = true -> ce_marker x = true -> ce_hist x = Some h ->
  exists pre post y1 cl1 x1, script = pre ++ post /\ run (sys_init cfg0 nclients) pre = Ok y1 /\
    sv_tick (y_server y1) = h_last h /\
    find_client (y_server y1) slot = Some cl1 /\ vis_visible (sc_vis cl1) e = true /\
    al_get e (struct_vis (y_server y1) cl1) = Some (map fst (se_comps x1)) /\
    repl_get (y_server y1) e = Some x1 /\ agree (ce_comps x) (se_comps x1) /\
    kinds_equiv (map fst (ce_comps x)) (map fst (se_comps x1)).
Proof. exact e2ev_truthful_okm. Qed.

(* ---- K: an acknowledged stamp is backed by the client ---- *)
Theorem C02F_ack_sound : forall cfg0 nclients script y slot c cl e a,
  script_scopev cfg0 nclients script -> run (sys_init cfg0 nclients) script = Ok y ->
  al_get slot (y_clients y) = Some c -> mode_of script slot = MLive -> cl_status c = Connected ->
  In cl (sv_clients (y_server y)) -> sc_slot cl = slot -> mutation_tick (sc_ticks cl) e = Some a ->
  exists pre post y1, script = pre ++ post /\ run (sys_init cfg0 nclients) pre = Ok y1 /\
    forallb (fun st => negb (ends_session slot st)) post = true /\ sv_last_run (y_server y1) = a /\
    ((exists u, In u (cl_inbox_upd c ++ l_upd (get_link y slot)) /\ mentions u e /\ sv_tick (y_server y1) <= u_tick u) \/
     (exists x h, has c e x h /\ sv_tick (y_server y1) <= h_last h)).
Proof. exact e2ev_ack_sound. Qed.

(* ---- Q: convergence (C01).  No update message on its way, nothing pending on the server for the client
        (`quiescent_for` of C11): the client's structure is `struct_vis` of its record, and all values of the entities
        visible to it are equal. ---- *)
Theorem C02F_converged : forall cfg0 nclients script y slot c cl,
  script_scopev cfg0 nclients script -> run (sys_init cfg0 nclients) script = Ok y ->
  al_get slot (y_clients y) = Some c -> mode_of script slot = MLive -> cl_status c = Connected ->
  In cl (sv_clients (y_server y)) -> sc_slot cl = slot -> sc_authorized cl = true ->
  l_upd (get_link y slot) = [] -> cl_inbox_upd c = [] ->
  quiescent_for (y_server y) cl -> sv_removed_events (y_server y) = [] ->
  struct_equiv (client_struct c) (struct_vis (y_server y) cl) /\
  forall e k, cview c e k = option_map cv_nat (sviewv slot (y_server y) e k).
Proof. exact e2ev_converged. Qed.

(* ---- C01 in the shape of the property: two lossless rounds ([ValSettle_proofs.settle_round slots]; the round of
        Repl/Converge.v is [settle_round (slots y)]) after any script in scope give the premises of C02F_converged for every
        slot that was live with a connected, authorized client before (`livev`). ---- *)
Theorem C02F_settle_premises : forall cfg0 nclients body slots sl y,
  let rounds := ValSettle_proofs.settle_round slots ++ ValSettle_proofs.settle_round slots in
  script_scopev cfg0 nclients (body ++ rounds) -> run (sys_init cfg0 nclients) (body ++ rounds) = Ok y ->
  In sl slots -> (exists yb, run (sys_init cfg0 nclients) body = Ok yb /\ livev body yb sl) ->
  mode_of (body ++ rounds) sl = MLive /\
  exists c cl, al_get sl (y_clients y) = Some c /\ cl_status c = Connected /\
    In cl (sv_clients (y_server y)) /\ sc_slot cl = sl /\ sc_authorized cl = true /\
    l_upd (get_link y sl) = [] /\ cl_inbox_upd c = [] /\ quiescent_for (y_server y) cl /\ sv_removed_events (y_server y) = [].
Proof. exact settlev_premises. Qed.

Theorem C02F_settles : forall cfg0 nclients body slots sl y,
  let rounds := ValSettle_proofs.settle_round slots ++ ValSettle_proofs.settle_round slots in
  script_scopev cfg0 nclients (body ++ rounds) -> run (sys_init cfg0 nclients) (body ++ rounds) = Ok y ->
  In sl slots -> (exists yb, run (sys_init cfg0 nclients) body = Ok yb /\ livev body yb sl) ->
  exists c cl, al_get sl (y_clients y) = Some c /\ cl_status c = Connected /\
    In cl (sv_clients (y_server y)) /\ sc_slot cl = sl /\ sc_authorized cl = true /\
    struct_equiv (client_struct c) (struct_vis (y_server y) cl) /\
    forall e k, cview c e k = option_map cv_nat (sviewv sl (y_server y) e k).
Proof. exact e2ev_settles. Qed.

(* ... with the settle phase of Repl/Converge.v (the one of the statement of C01) *)
Theorem C02F_settle_converges : forall cfg0 nclients body yb y sl,
  let rounds := ValSettle_proofs.settle_round (Converge.slots yb) ++ ValSettle_proofs.settle_round (Converge.slots yb) in
  script_scopev cfg0 nclients (body ++ rounds) ->
  run (sys_init cfg0 nclients) body = Ok yb -> Converge.settle 2 yb = Ok y -> livev body yb sl ->
  exists c cl, al_get sl (y_clients y) = Some c /\ cl_status c = Connected /\
    In cl (sv_clients (y_server y)) /\ sc_slot cl = sl /\ sc_authorized cl = true /\
    struct_equiv (client_struct c) (struct_vis (y_server y) cl) /\
    forall e k, cview c e k = option_map cv_nat (sviewv sl (y_server y) e k).
Proof. exact e2ev_settle_converges. Qed.

Print Assumptions C02F_scope.
Print Assumptions C02F_scope_of_C02E.
Print Assumptions C02F_scope_by_bound.
Print Assumptions C02F_single_session_live.
Print Assumptions C02F_server_history.
Print Assumptions C02F_no_replication_at_tick0.
Print Assumptions C02F_invariant.
Print Assumptions C02F_truthful.
Print Assumptions C02F_truthful_exact.
Print Assumptions C02F_truthful_all_policies.
Print Assumptions C02F_ack_sound.
Print Assumptions C02F_converged.
Print Assumptions C02F_settle_premises.
Print Assumptions C02F_settles.
Print Assumptions C02F_settle_converges.

(* ================================================================== *)
(* the statements are not vacuous                                     *)
(* ================================================================== *)

Definition fx_bl : cfg := mkCfg PBlack AuthNone true 1000.
Definition fx_wl : cfg := mkCfg PWhite AuthNone true 1000.
Definition fx_all : cfg := mkCfg PAll AuthNone true 1000.
Definition sfr (tick : bool) (ops : list sop) : step := StSFrame tick 10 false ops [].

(* Two clients.  Entity 1 {0, 1} is visible to client 0 only, entity 2 {0} to both.  Entity 1 is mutated (tick 2), hidden
   from client 0 (tick 3: despawn record), mutated while hidden (tick 4), shown again (tick 5: sent whole, as a new entity)
   and mutated again (tick 6).  Client 0 applies the despawn, then the regain; the mutate message of tick 2 (first interval)
   arrives AFTER the regain and is ignored; the mutate message of tick 6 is lost.  Client 1 is disconnected, runs a frame,
   reconnects (for the whitelist its visibility is set again: the record is new) and receives its visible state again. *)
Definition fx_script : list step :=
  [StStart; sfr false []; StConnect 0 1200; StConnect 1 1200;
   sfr true [SSpawn 1 true [(0, VNat 1); (1, VNat 2)]; SSpawn 2 true [(0, VNat 5)];
             SVis 0 1 true; SVis 0 2 true; SVis 1 2 true; SVis 1 1 false];
   StDeliver 0 true 0 All; StDeliver 0 true 1 All; StCFrame 0 [];
   StDeliver 1 true 0 All; StDeliver 1 true 1 All; StCFrame 1 [];
   sfr true [SMutate 1 0 (VNat 10)];
   sfr true [SVis 0 1 false; SMutate 1 1 (VNat 20)];
   sfr true [SMutate 1 0 (VNat 11)];
   sfr true [SVis 0 1 true];
   sfr true [SMutate 1 1 (VNat 21)];
   StDeliver 0 true 0 First; StCFrame 0 [];
   StDeliver 0 true 0 First; StCFrame 0 [];
   StDeliver 0 true 1 First; StCFrame 0 [];
   StDrop 0 true 1 Last;
   StDisconnect 1; StCFrame 1 []; StConnect 1 1200;
   sfr true [SVis 1 2 true; SVis 1 1 false; SMutate 2 0 (VNat 6)];
   StDeliver 1 true 0 All; StCFrame 1 [];
   StDeliver 0 false 0 All].

Example C02F_ex_scope : forall c0, c0 = fx_bl \/ c0 = fx_wl -> script_scopev c0 2 fx_script.
Proof. intros c0 [->| ->]; apply scopev_by_bound; vm_compute; reflexivity. Qed.

Example C02F_ex_script : script_okf fx_script = true /\ single_session fx_script = false /\ tick_frames fx_script = 7 /\
  mode_of fx_script 0 = MLive /\ mode_of fx_script 1 = MLive /\ mode_of (firstn 24 fx_script) 1 = MLeft /\ mode_of (firstn 25 fx_script) 1 = MClean.
Proof. vm_compute. repeat split; reflexivity. Qed.

(* per client: update tick; confirmed tick, alive, components of every client entity; the entity map; ticks of the queued
   update messages; queued mutate messages (update tick, tick, body); queued acknowledgements;
   the server's components of every entity, the server tick; per record: slot, acknowledged stamps, visible structure *)
Definition fx_view (r : res sys) :=
  match r with
  | Ok y => Some (map (fun sc => (cl_upd_tick (snd sc),
                                  map (fun kv => (match ce_hist (snd kv) with Some h => Some (h_last h) | None => None end, ce_alive (snd kv), ce_comps (snd kv)))
                                      (cl_ents (snd sc)), cl_s2c (snd sc),
                                  map u_tick (l_upd (get_link y (fst sc))),
                                  map (fun m => (m_upd_tick m, m_tick m, m_body m)) (l_mut (get_link y (fst sc))),
                                  l_ack (get_link y (fst sc)))) (y_clients y),
                  map (fun ex => (fst ex, map (fun kc => (fst kc, c_val (snd kc))) (se_comps (snd ex)))) (sv_ents (y_server y)),
                  sv_tick (y_server y),
                  map (fun cl => (sc_slot cl, ct_mutation_ticks (sc_ticks cl), struct_vis (y_server y) cl)) (sv_clients (y_server y)))
  | _ => None
  end.

Example C02F_ex_run : forall c0, c0 = fx_bl \/ c0 = fx_wl ->
  (* after tick 6, before client 0 has seen anything newer than tick 1: in its queue the despawn (tick 3) and the regain
     (tick 5); the mutate message of tick 2 belongs to the first interval of entity 1, the one of tick 6 to the second *)
  fx_view (run (sys_init c0 2) (firstn 16 fx_script))
    = Some ([(1, [(Some 1, true, [(0, CNat 1); (1, CNat 2)]); (Some 1, true, [(0, CNat 5)])], [(1, 0); (2, 1)], [3; 5],
              [(1, 2, [(1, [(0, VNat 10)])]); (3, 3, []); (3, 4, []); (5, 5, []); (5, 6, [(1, [(1, VNat 21)])])], [[0]]);
             (1, [(Some 1, true, [(0, CNat 5)])], [(2, 0)], [], [(1, 2, []); (1, 3, []); (1, 4, []); (1, 5, []); (1, 6, [])], [[0]])],
            [(1, [(0, VNat 11); (1, VNat 21)]); (2, [(0, VNat 5)])], 6,
            [(0, [(2, 2); (1, 6)], [(1, [0; 1]); (2, [0])]); (1, [(2, 2)], [(2, [0])])]) /\
  (* the despawn applied: entity 1 is gone on client 0 *)
  fx_view (run (sys_init c0 2) (firstn 18 fx_script))
    = Some ([(3, [(None, false, []); (Some 1, true, [(0, CNat 5)])], [(2, 1)], [5],
              [(1, 2, [(1, [(0, VNat 10)])]); (3, 3, []); (3, 4, []); (5, 5, []); (5, 6, [(1, [(1, VNat 21)])])], [[0]]);
             (1, [(Some 1, true, [(0, CNat 5)])], [(2, 0)], [], [(1, 2, []); (1, 3, []); (1, 4, []); (1, 5, []); (1, 6, [])], [[0]])],
            [(1, [(0, VNat 11); (1, VNat 21)]); (2, [(0, VNat 5)])], 6,
            [(0, [(2, 2); (1, 6)], [(1, [0; 1]); (2, [0])]); (1, [(2, 2)], [(2, [0])])]) /\
  (* the regain applied: a NEW client entity (id 2) for entity 1, confirmed at tick 5 with the values of tick 5 (0 -> 11,
     1 -> 20) while the server (tick 6) has 1 -> 21: an older snapshot of the visible state *)
  fx_view (run (sys_init c0 2) (firstn 20 fx_script))
    = Some ([(5, [(None, false, []); (Some 1, true, [(0, CNat 5)]); (Some 5, true, [(0, CNat 11); (1, CNat 20)])], [(2, 1); (1, 2)], [],
              [(1, 2, [(1, [(0, VNat 10)])]); (3, 3, []); (3, 4, []); (5, 5, []); (5, 6, [(1, [(1, VNat 21)])])], [[0]]);
             (1, [(Some 1, true, [(0, CNat 5)])], [(2, 0)], [], [(1, 2, []); (1, 3, []); (1, 4, []); (1, 5, []); (1, 6, [])], [[0]])],
            [(1, [(0, VNat 11); (1, VNat 21)]); (2, [(0, VNat 5)])], 6,
            [(0, [(2, 2); (1, 6)], [(1, [0; 1]); (2, [0])]); (1, [(2, 2)], [(2, [0])])]) /\
  (* the mutate message of tick 2 (0 -> 10, first interval) arrives now: ignored (acknowledged, index 1), the new
     incarnation keeps the values of tick 5 *)
  fx_view (run (sys_init c0 2) (firstn 22 fx_script))
    = Some ([(5, [(None, false, []); (Some 1, true, [(0, CNat 5)]); (Some 5, true, [(0, CNat 11); (1, CNat 20)])], [(2, 1); (1, 2)], [],
              [(3, 3, []); (3, 4, []); (5, 5, []); (5, 6, [(1, [(1, VNat 21)])])], [[0]; [1]]);
             (1, [(Some 1, true, [(0, CNat 5)])], [(2, 0)], [], [(1, 2, []); (1, 3, []); (1, 4, []); (1, 5, []); (1, 6, [])], [[0]])],
            [(1, [(0, VNat 11); (1, VNat 21)]); (2, [(0, VNat 5)])], 6,
            [(0, [(2, 2); (1, 6)], [(1, [0; 1]); (2, [0])]); (1, [(2, 2)], [(2, [0])])]) /\
  (* the end: client 1 is in its second session (entity 2 again, as a new client entity, confirmed at tick 7) *)
  fx_view (run (sys_init c0 2) fx_script)
    = Some ([(5, [(None, false, []); (Some 1, true, [(0, CNat 5)]); (Some 5, true, [(0, CNat 11); (1, CNat 20)])], [(2, 1); (1, 2)], [],
              [(3, 3, []); (3, 4, []); (5, 5, []); (5, 7, [(1, [(1, VNat 21)]); (2, [(0, VNat 6)])])], []);
             (7, [(Some 1, true, [(0, CNat 5)]); (Some 7, true, [(0, CNat 6)])], [(2, 1)], [], [(7, 7, [])], [])],
            [(1, [(0, VNat 11); (1, VNat 21)]); (2, [(0, VNat 6)])], 7,
            [(0, [(2, 2); (1, 6)], [(1, [0; 1]); (2, [0])]); (1, [(2, 8)], [(2, [0])])]).
Proof. intros c0 [->| ->]; vm_compute; repeat split; reflexivity. Qed.

(* C02F_truthful instantiated at the end of the run, client 0, entity 1 (client entity 2): confirmed at tick 5 with the
   values of the visible state after the frame of tick 5 *)
Example C02F_ex_truthful_instance : forall c0, c0 = fx_bl \/ c0 = fx_wl ->
  exists y c x h, run (sys_init c0 2) fx_script = Ok y /\ al_get 0 (y_clients y) = Some c /\
    get_cent c 2 = Some x /\ ce_hist x = Some h /\ h_last h = 5 /\ sv_tick (y_server y) = 7 /\
    ce_comps x = [(0, CNat 11); (1, CNat 20)] /\
    exists pre post y1 cl1 x1, fx_script = pre ++ post /\ run (sys_init c0 2) pre = Ok y1 /\
      forallb (fun st => negb (ends_session 0 st)) post = true /\ sv_tick (y_server y1) = h_last h /\
      find_client (y_server y1) 0 = Some cl1 /\ vis_visible (sc_vis cl1) 1 = true /\
      al_get 1 (struct_vis (y_server y1) cl1) = Some (map fst (se_comps x1)) /\
      repl_get (y_server y1) 1 = Some x1 /\ agree (ce_comps x) (se_comps x1) /\
      kinds_equiv (map fst (ce_comps x)) (map fst (se_comps x1)).
Proof.
  intros c0 Hc0. pose proof (C02F_ex_scope c0 Hc0) as Hsc.
  destruct (run (sys_init c0 2) fx_script) as [y| |] eqn:E; [|destruct Hc0; subst c0; vm_compute in E; discriminate|destruct Hc0; subst c0; vm_compute in E; discriminate].
  destruct (al_get 0 (y_clients y)) as [c|] eqn:Ec; [|destruct Hc0; subst c0; vm_compute in E; inversion E; subst y; vm_compute in Ec; discriminate].
  destruct (get_cent c 2) as [x|] eqn:Ex;
    [|destruct Hc0; subst c0; vm_compute in E; inversion E; subst y; vm_compute in Ec; inversion Ec; subst c; vm_compute in Ex; discriminate].
  destruct (ce_hist x) as [h|] eqn:Eh;
    [|destruct Hc0; subst c0; vm_compute in E; inversion E; subst y; vm_compute in Ec; inversion Ec; subst c; vm_compute in Ex; inversion Ex; subst x; vm_compute in Eh; discriminate].
  exists y, c, x, h. split; [reflexivity|]. split; [exact Ec|]. split; [exact Ex|]. split; [exact Eh|].
  assert (Hfacts : h_last h = 5 /\ sv_tick (y_server y) = 7 /\ ce_comps x = [(0, CNat 11); (1, CNat 20)] /\
                   cl_status c = Connected /\ al_get 1 (cl_s2c c) = Some 2 /\ ce_alive x = true /\ ce_marker x = true).
  { destruct Hc0; subst c0; vm_compute in E; inversion E; subst y; vm_compute in Ec; inversion Ec; subst c; vm_compute in Ex; inversion Ex; subst x;
      vm_compute in Eh; inversion Eh; subst h; vm_compute; repeat split; reflexivity. }
  destruct Hfacts as (F1 & F2 & F7 & F3 & F4 & F5 & F6). split; [exact F1|]. split; [exact F2|]. split; [exact F7|].
  exact (C02F_truthful c0 2 fx_script y 0 c 1 2 x h Hsc E Ec (proj1 (proj2 (proj2 (proj2 C02F_ex_script)))) F3 F4 Ex F5 F6 Eh).
Qed.

(* C02F_ack_sound instantiated at the end of the run: the server holds the stamp 6 (the run of tick 5) for entity 1 and
   client 0; the client has entity 1 confirmed at tick 5 *)
Example C02F_ex_ack_instance : forall c0, c0 = fx_bl \/ c0 = fx_wl ->
  exists y c cl, run (sys_init c0 2) fx_script = Ok y /\ al_get 0 (y_clients y) = Some c /\
    find_client (y_server y) 0 = Some cl /\ mutation_tick (sc_ticks cl) 1 = Some 6 /\
    exists pre post y1, fx_script = pre ++ post /\ run (sys_init c0 2) pre = Ok y1 /\
      forallb (fun st => negb (ends_session 0 st)) post = true /\ sv_last_run (y_server y1) = 6 /\
      ((exists u, In u (cl_inbox_upd c ++ l_upd (get_link y 0)) /\ mentions u 1 /\ sv_tick (y_server y1) <= u_tick u) \/
       (exists x h, has c 1 x h /\ sv_tick (y_server y1) <= h_last h)).
Proof.
  intros c0 Hc0. pose proof (C02F_ex_scope c0 Hc0) as Hsc.
  destruct (run (sys_init c0 2) fx_script) as [y| |] eqn:E; [|destruct Hc0; subst c0; vm_compute in E; discriminate|destruct Hc0; subst c0; vm_compute in E; discriminate].
  destruct (al_get 0 (y_clients y)) as [c|] eqn:Ec; [|destruct Hc0; subst c0; vm_compute in E; inversion E; subst y; vm_compute in Ec; discriminate].
  destruct (find_client (y_server y) 0) as [cl|] eqn:Ef; [|destruct Hc0; subst c0; vm_compute in E; inversion E; subst y; vm_compute in Ef; discriminate].
  exists y, c, cl. split; [reflexivity|]. split; [exact Ec|]. split; [exact Ef|].
  assert (Hfacts : mutation_tick (sc_ticks cl) 1 = Some 6 /\ cl_status c = Connected /\ sc_slot cl = 0).
  { destruct Hc0; subst c0; vm_compute in E; inversion E; subst y; vm_compute in Ec; inversion Ec; subst c; vm_compute in Ef; inversion Ef; subst cl;
      repeat split; reflexivity. }
  destruct Hfacts as (F1 & F2 & F3). split; [exact F1|].
  assert (Hin : In cl (sv_clients (y_server y))) by (unfold find_client in Ef; apply find_some in Ef; exact (proj1 Ef)).
  exact (C02F_ack_sound c0 2 fx_script y 0 c cl 1 6 Hsc E Ec (proj1 (proj2 (proj2 (proj2 C02F_ex_script)))) F2 Hin F3 F1).
Qed.

(* C02F_settle_converges at the end of the run: client 0 holds an older snapshot (tick 5), a mutate message was lost, one is
   on its way, client 1 is in its second session; two rounds of the settle phase later both hold what is visible to them *)
Example C02F_ex_settles : forall c0, c0 = fx_bl \/ c0 = fx_wl ->
  exists yb y, run (sys_init c0 2) fx_script = Ok yb /\ Converge.settle 2 yb = Ok y /\ converged y = true /\
    forall sl, sl = 0 \/ sl = 1 ->
      exists c cl, al_get sl (y_clients y) = Some c /\ In cl (sv_clients (y_server y)) /\ sc_slot cl = sl /\
        struct_equiv (client_struct c) (struct_vis (y_server y) cl) /\
        (forall e k, cview c e k = option_map cv_nat (sviewv sl (y_server y) e k)) /\
        cview c 2 0 = Some (CNat 6) /\ cview c 1 1 = (if sl =? 0 then Some (CNat 21) else None).
Proof.
  intros c0 Hc0.
  destruct (run (sys_init c0 2) fx_script) as [yb| |] eqn:E; [|destruct Hc0; subst c0; vm_compute in E; discriminate|destruct Hc0; subst c0; vm_compute in E; discriminate].
  destruct (Converge.settle 2 yb) as [y| |] eqn:Es;
    [|destruct Hc0; subst c0; vm_compute in E; inversion E; subst yb; vm_compute in Es; discriminate
     |destruct Hc0; subst c0; vm_compute in E; inversion E; subst yb; vm_compute in Es; discriminate].
  assert (Hsl : Converge.slots yb = [0; 1]) by (destruct Hc0; subst c0; vm_compute in E; inversion E; subst yb; reflexivity).
  assert (Hsc : script_scopev c0 2 (fx_script ++ ValSettle_proofs.settle_round (Converge.slots yb) ++ ValSettle_proofs.settle_round (Converge.slots yb))).
  { rewrite Hsl. destruct Hc0; subst c0; apply scopev_by_bound; vm_compute; reflexivity. }
  assert (Hlive : forall sl, sl = 0 \/ sl = 1 -> livev fx_script yb sl).
  { intros sl [->| ->]; (split; [vm_compute; reflexivity|]);
      destruct Hc0; subst c0; vm_compute in E; inversion E; subst yb; eexists; eexists; (split; [reflexivity|]); (split; [reflexivity|]);
      first [solve [split; [left; reflexivity|split; reflexivity]]|solve [split; [right; left; reflexivity|split; reflexivity]]]. }
  exists yb, y. split; [reflexivity|]. split; [exact Es|]. split.
  { destruct Hc0; subst c0; vm_compute in E; inversion E; subst yb; vm_compute in Es; inversion Es; subst y; vm_compute; reflexivity. }
  intros sl Hslc.
  destruct (C02F_settle_converges c0 2 _ yb y sl Hsc E Es (Hlive sl Hslc)) as (c & cl & Hc & _ & Hin & Hs & _ & Hst & Hv).
  exists c, cl. split; [exact Hc|]. split; [exact Hin|]. split; [exact Hs|]. split; [exact Hst|]. split; [exact Hv|].
  destruct Hslc; subst sl; destruct Hc0; subst c0; vm_compute in E; inversion E; subst yb; vm_compute in Es; inversion Es; subst y;
    vm_compute in Hc; inversion Hc; subst c; split; reflexivity.
Qed.

(* ---- V1b: `SUnmark` / `SMark`, policy PAll.  Entity 1 is unmarked (tick 3: despawn record) and marked again (tick 4: sent
        whole as a new entity); the mutate message of tick 2 (first interval) arrives after the re-replication: ignored. ---- *)
Definition fx_unmark : list step :=
  [StStart; sfr false []; StConnect 0 1200;
   sfr true [SSpawn 1 true [(0, VNat 1); (1, VNat 2)]];
   StDeliver 0 true 0 All; StDeliver 0 true 1 All; StCFrame 0 [];
   sfr true [SMutate 1 0 (VNat 10)];
   sfr true [SUnmark 1; SMutate 1 1 (VNat 20)];
   sfr true [SMark 1];
   StDeliver 0 true 0 All; StCFrame 0 [];
   StDeliver 0 true 1 First; StCFrame 0 []].

Example C02F_ex_unmark :
  script_scopev fx_all 1 fx_unmark /\ script_vals fx_unmark = false /\
  fx_view (run (sys_init fx_all 1) (firstn 10 fx_unmark))
    = Some ([(1, [(Some 1, true, [(0, CNat 1); (1, CNat 2)])], [(1, 0)], [3; 4],
              [(1, 2, [(1, [(0, VNat 10)])]); (3, 3, []); (4, 4, [])], [[0]])],
            [(1, [(0, VNat 10); (1, VNat 20)])], 4, [(0, [(1, 5)], [(1, [0; 1])])]) /\
  fx_view (run (sys_init fx_all 1) fx_unmark)
    = Some ([(4, [(None, false, []); (Some 4, true, [(0, CNat 10); (1, CNat 20)])], [(1, 1)], [],
              [(3, 3, []); (4, 4, [])], [[0]; [1]])],
            [(1, [(0, VNat 10); (1, VNat 20)])], 4, [(0, [(1, 5)], [(1, [0; 1])])]).
Proof. split; [apply scopev_by_bound; vm_compute; reflexivity|]. vm_compute. repeat split; reflexivity. Qed.

(* ---- V2: stop and restart.  The clients of the stopped server are disconnected and run a frame, the stopped server runs
        a frame (`reset`: tick 0), after the restart the client reconnects; the first replication of the new session is at
        tick 1 again: ticks are only comparable within a session. ---- *)
Definition fx_stop : list step :=
  [StStart; sfr false []; StConnect 0 1200;
   sfr true [SSpawn 1 true [(0, VNat 1)]]; sfr true [SMutate 1 0 (VNat 2)];
   StDeliver 0 true 0 All; StDeliver 0 true 1 All; StCFrame 0 [];
   StStop; StDisconnect 0; StCFrame 0 []; sfr false [SMutate 1 0 (VNat 3)]; StStart; sfr false [];
   StConnect 0 1200; sfr true []; sfr true [SMutate 1 0 (VNat 4)];
   StDeliver 0 true 0 All; StCFrame 0 []].

Example C02F_ex_restart :
  script_scopev fx_all 1 fx_stop /\ mode_of fx_stop 0 = MLive /\
  (* before the stop: confirmed at tick 2 (value 2) *)
  fx_view (run (sys_init fx_all 1) (firstn 8 fx_stop))
    = Some ([(1, [(Some 2, true, [(0, CNat 2)])], [(1, 0)], [], [], [[1; 0]])], [(1, [(0, VNat 2)])], 2, [(0, [(1, 2)], [(1, [0])])]) /\
  (* the stopped server has run a frame: tick 0, no record; the restarted server does not replicate at tick 0 *)
  option_map (fun v => (snd (fst v), snd v)) (fx_view (run (sys_init fx_all 1) (firstn 14 fx_stop))) = Some (0, []) /\
  (* the second session: a new client entity, confirmed at tick 1 of the new epoch with the value the server had then (3) *)
  fx_view (run (sys_init fx_all 1) fx_stop)
    = Some ([(1, [(Some 2, true, [(0, CNat 2)]); (Some 1, true, [(0, CNat 3)])], [(1, 1)], [], [(1, 1, []); (1, 2, [(1, [(0, VNat 4)])])], [])],
            [(1, [(0, VNat 4)])], 2, [(0, [(1, 4)], [(1, [0])])]).
Proof. split; [apply scopev_by_bound; vm_compute; reflexivity|]. vm_compute. repeat split; reflexivity. Qed.

(* ================================================================== *)
(* why `no_tick0` is there (defect D19), whatever the policy          *)
(* ================================================================== *)

(* the counterexample of Properties/C02E.v (C02E_tick0_counterexample, `ex_t0`) satisfies every hypothesis of C02F_truthful
   except `no_tick0`, also under a blacklist: component 0 of tick 0 and component 1 of tick 2, confirmed at tick 2 *)
Definition fx_t0 : list step :=
  [StStart; StConnect 0 1200;
   StSFrame false 10 false [SSpawn 1 true [(0, VNat 1); (1, VNat 1)]] [];
   StSFrame true 16 false [SMutate 1 0 (VNat 2)] (one 0 1);
   StDeliver 0 true 1 All; StCFrame 0 []; StDeliver 0 false 0 All;
   StDeliver 0 true 0 All; StCFrame 0 [];
   StSFrame true 16 false [SMutate 1 1 (VNat 3)] (one 0 1);
   StDeliver 0 true 1 All; StCFrame 0 []].

Example C02F_tick0_counterexample : forall c0, c0 = mkCfg PBlack AuthNone false 10000 \/ c0 = cfg_plain ->
  script_okf fx_t0 = true /\ script_valsu fx_t0 = true /\ tick_frames fx_t0 = 2 /\ regs_all (sys_init c0 1) fx_t0 = 2 /\
  no_tick0 fx_t0 = false /\ mode_of fx_t0 0 = MLive /\
  (* the client: entity confirmed at tick 2 with components (0 -> 1, 1 -> 3); the server at tick 2: (0 -> 2, 1 -> 3) *)
  option_map (fun v => (map (fun cv => snd (fst (fst (fst (fst cv))))) (fst (fst (fst v))), snd (fst (fst v)), snd (fst v)))
             (fx_view (run (sys_init c0 1) fx_t0))
    = Some ([[(Some 2, true, [(0, CNat 1); (1, CNat 3)])]], [(1, [(0, VNat 2); (1, VNat 3)])], 2) /\
  (* the states of the run whose server tick is 2 all have component 0 = 2 *)
  forallb (fun k => match run (sys_init c0 1) (firstn k fx_t0) with
                    | Ok y1 => negb (sv_tick (y_server y1) =? 2) ||
                               match get_ent (y_server y1) 1 with
                               | Some x1 => match al_get 0 (se_comps x1) with Some cc => val_eqb (c_val cc) (VNat 2) | None => false end
                               | None => false
                               end
                    | _ => true
                    end) (seq 0 13) = true.
Proof. intros c0 [->| ->]; vm_compute; repeat split; reflexivity. Qed.
