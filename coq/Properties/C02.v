(* C02 -- an entity's state is never a mixture of two ticks and its confirmed tick never moves
   backwards (client side part).  This file only pins statements; proofs live in
   Repl/ClientMut_proofs.v. *)
From RV Require Import Lib.Res Repl.ClientTicks Repl.World Repl.Client
  Repl.Client_proofs Repl.ClientEnt_proofs Repl.ClientMut_proofs
  Tick.RepliconTick Tick.ConfirmHistory Tick.MutateTicks.
From Coq Require Import Sorting.Sorted.
Open Scope N_scope.

(* Along a successful client frame (reset, update messages, buffered mutate messages, the client's
   own spawns and despawns) every entity stays in the table with its script identity, a dead entity
   is never revived, and the confirmed tick of an entity that is alive afterwards was reached from
   the old one through steps that each satisfy `new >= old` in the wrapping order.
   [ewf]: unique keys and allocation counter above all keys (kept by every frame). *)
Theorem C02_confirmed_tick_monotone :
  (forall track, ewf (client_init track)) /\
  (forall c ops c' out, ewf c -> client_frame c ops = Ok (c', out) -> ewf c') /\
  (forall c ops c' out cid x, ewf c -> client_frame c ops = Ok (c', out) -> get_cent c cid = Some x ->
     exists x', get_cent c' cid = Some x' /\ ce_pre x' = ce_pre x /\
       (ce_alive x' = true -> ce_alive x = true /\
          forall h, ce_hist x = Some h -> exists h', ce_hist x' = Some h' /\ tick_chain (h_last h) (h_last h'))) /\
  (forall (uz : N -> Z) a b, (forall p q, tick_geb q p = true -> (uz p <= uz q)%Z) -> tick_chain a b -> (uz a <= uz b)%Z) /\
  (forall h tick h', hist_set_last_tick h tick = Ok h' -> h_last h' = tick /\ tick_geb tick (h_last h) = true).
Proof.
  split; [exact ewf_init|]. split; [exact ewf_frame|]. split; [exact confirmed_tick_monotone|].
  split; [exact tick_chain_unwrapped|exact hist_set_last_tick_ok].
Qed.

(* One entity of a mutate message: either nothing at all changes (unknown / dead / no history /
   not newer than the confirmed tick), or the message is newer ([tick_gtb]), ALL its components are
   written and the confirmed tick becomes the message tick; components not in the message keep
   their values. *)
Theorem C02_mutation_all_or_nothing : forall c tick e comps r,
  apply_mutations c tick e comps = Ok r -> NoDup (map fst comps) ->
  (mutation_skipped c tick e /\ sr_client r = c) \/
  (exists cid x h x',
     al_get e (cl_s2c c) = Some cid /\ get_cent c cid = Some x /\ ce_alive x = true /\ ce_hist x = Some h /\
     tick_gtb tick (h_last h) = true /\ tick_geb tick (h_last h) = true /\
     r = Continue (sr_client r) /\ get_cent (sr_client r) cid = Some x' /\
     ce_alive x' = true /\ ce_pre x' = ce_pre x /\ ce_marker x' = ce_marker x /\
     (exists h', ce_hist x' = Some h' /\ h_last h' = tick) /\
     (forall k v, In (k, v) comps -> exists cv, al_get k (ce_comps x') = Some cv /\ val_matches (sr_client r) v cv) /\
     (forall k, ~ In k (map fst comps) -> al_get k (ce_comps x') = al_get k (ce_comps x))).
Proof. exact mutation_all_or_nothing. Qed.

Theorem C02_outdated_message_ignored : forall c tick e comps cid x h,
  al_get e (cl_s2c c) = Some cid -> get_cent c cid = Some x -> ce_alive x = true -> ce_hist x = Some h ->
  tick_gtb tick (h_last h) = false -> apply_mutations c tick e comps = Ok (Continue c).
Proof. exact outdated_message_ignored. Qed.

(* The buffer: kept sorted by tick, newest first, when the ticks in play compare like unbounded
   counters ([agrees], implied by "pairwise less than half the range apart"); the frame processes
   it in that order, keeps exactly the messages whose update tick the client has not reached and
   acknowledges exactly the processed ones, in buffer order. *)
Theorem C02_buffered_newest_first_and_gated :
  (forall uz m l, agrees uz (map m_tick (m :: l)) -> desc_sorted uz l -> desc_sorted uz (buffer_insert m l)) /\
  (forall m l x, In x (buffer_insert m l) <-> x = m \/ In x l) /\
  (forall uz c c' out, agrees uz (map m_tick (cl_inbox_mut c ++ cl_buffered c)) -> desc_sorted uz (cl_buffered c) ->
     apply_replication c = Ok (c', out) -> desc_sorted uz (cl_buffered c')) /\
  (forall c c' out, apply_mutate_messages c = Ok (c', out) ->
     cl_buffered c' = filter (gated (cl_upd_tick c)) (cl_buffered c) /\
     cfo_acks out = map m_idx (filter (fun m => negb (gated (cl_upd_tick c) m)) (cl_buffered c))) /\
  (forall (uz : N -> Z) ts, (forall a, In a ts -> a = wrap (uz a)) ->
     (forall a b, In a ts -> In b ts -> (Z.abs (uz a - uz b) < 2 ^ 31)%Z) -> agrees uz ts).
Proof.
  split; [exact buffer_insert_sorted|]. split; [exact buffer_insert_in|]. split; [exact buffer_sorted|].
  split; [exact mutate_messages_kept_acks|exact agrees_of_window].
Qed.

(* ---- non-vacuity ---- *)
Definition ex_c0 : client := set_status (client_init false) Connected.
Definition ex_c1 : client :=
  match apply_update_message ex_c0 (mkUpd 5 [] [] [] [(0, [(0, VNat 1); (1, VNat 2)])]) with Ok c => c | _ => ex_c0 end.

Definition show (c : client) :=
  map (fun kv => (fst kv, match ce_hist (snd kv) with Some h => h_last h | None => 99 end, ce_comps (snd kv))) (cl_ents c).

(* newer message: both components written, tick 7; then an older one (6): nothing changes *)
Example C02_mutation_concrete :
  match apply_mutations ex_c1 7 0 [(0, VNat 10); (1, VNat 20)] with
  | Ok (Continue c2) =>
    (show c2, match apply_mutations c2 6 0 [(0, VNat 11); (1, VNat 21)] with Ok (Continue c3) => show c3 | _ => [] end)
  | _ => ([], [])
  end = ([(0, 7, [(0, CNat 10); (1, CNat 20)])], [(0, 7, [(0, CNat 10); (1, CNat 20)])]).
Proof. vm_compute. reflexivity. Qed.

(* a whole frame: mutate messages of ticks 6 and 8 arrive out of order, the one for update tick 9
   stays buffered, the others are applied newest first and acknowledged *)
Example C02_frame_concrete :
  let c := mkCli Connected true true (cl_upd_tick ex_c1) (cl_s2c ex_c1) (cl_c2s ex_c1) (cl_ents ex_c1) (cl_next ex_c1) [] None []
             [mkMut 5 6 1 0 [(0, [(0, VNat 60)])]; mkMut 9 10 1 2 [(0, [(0, VNat 100)])]; mkMut 5 8 1 1 [(0, [(0, VNat 80)])]] in
  match client_frame c [] with
  | Ok (c', out) => (show c', map m_tick (cl_buffered c'), cfo_acks out)
  | _ => ([], [], [])
  end = ([(0, 8, [(0, CNat 80); (1, CNat 2)])], [10], [1; 0]).
Proof. vm_compute. reflexivity. Qed.

Example C02_ewf_satisfiable : ewf ex_c1.
Proof.
  split; [vm_compute; constructor; [intros []|constructor]|].
  intros cid Hle. vm_compute in Hle |- *. destruct cid as [|p]; [exfalso; apply Hle; reflexivity|]. destruct p; reflexivity.
Qed.

Example C02_agrees_satisfiable :
  agrees (fun t => if (t <? 100) then (Z.of_N t + 4294967296)%Z else Z.of_N t) [4294967290; 4294967295; 2; 7].
Proof.
  apply agrees_of_window.
  - intros a [<-|[<-|[<-|[<-|[]]]]]; reflexivity.
  - intros a b [<-|[<-|[<-|[<-|[]]]]] [<-|[<-|[<-|[<-|[]]]]]; vm_compute; reflexivity.
Qed.

Check C02_confirmed_tick_monotone.
Check C02_mutation_all_or_nothing.
Check C02_buffered_newest_first_and_gated.
Print Assumptions C02_confirmed_tick_monotone.
Print Assumptions C02_mutation_all_or_nothing.
Print Assumptions C02_outdated_message_ignored.
Print Assumptions C02_buffered_newest_first_and_gated.
