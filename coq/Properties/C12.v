(* C12 -- tick-confirmation queries agree with what was actually received.
   This file only pins statements; proofs live in Tick/*_proofs.v, the specification
   vocabulary (plain set / plain log over unwrapped Z ticks) in Tick/TickSpec.v. *)
From RV Require Import Lib.Res Tick.RepliconTick Tick.ConfirmHistory Tick.MutateTicks Tick.TickSpec
  Tick.RepliconTick_proofs Tick.ConfirmHistory_proofs Tick.MutateTicks_proofs.
Open Scope Z_scope.

(* ---- tick order: two ticks less than half the counter range apart are ordered by
   their wrapping distance ---- *)
Theorem C12_tick_order : forall a b : Z, Z.abs (a - b) < 2 ^ 31 ->
  tick_cmp (wrap a) (wrap b) = Z.compare a b.
Proof. exact tick_cmp_spec. Qed.

(* ---- per-entity history ---- *)
Theorem C12_history_new : forall t, hist_R (hist_new (wrap t)) t [t].
Proof. exact hist_new_R. Qed.

(* one confirmation with an arbitrary gap (0, < 64, = 64, 128, ...; older ticks as well) *)
Theorem C12_history_confirm : forall h L S t, hist_R h L S -> Z.abs (t - L) < 2 ^ 31 ->
  exists h', hist_confirm h (wrap t) = Ok h' /\ hist_R h' (Z.max L t) (t :: S).
Proof. exact hist_confirm_R. Qed.

Theorem C12_history_confirm_no_panic : forall h t, hist_confirm h t <> Panic.
Proof. exact hist_confirm_no_panic. Qed.

Theorem C12_history_contains : forall h L S t, hist_R h L S -> Z.abs (t - L) < 2 ^ 31 ->
  hist_contains h (wrap t) = (t <=? L) && ((64 <=? L - t) || mem t S).
Proof. exact hist_contains_spec. Qed.

Theorem C12_history_contains_any : forall h L S a b, hist_R h L S ->
  a <= b -> b - a < 2 ^ 31 -> Z.abs (a - L) < 2 ^ 31 ->
  hist_contains_any h (wrap a) (wrap b) = Ok (existsb_range a b (spec_contains L S)).
Proof. exact hist_contains_any_spec. Qed.

Theorem C12_history_contains_any_iff : forall h L S a b, hist_R h L S ->
  a <= b -> b - a < 2 ^ 31 -> Z.abs (a - L) < 2 ^ 31 ->
  exists r, hist_contains_any h (wrap a) (wrap b) = Ok r /\
            (r = true <-> exists t, a <= t <= b /\ spec_contains L S t = true).
Proof. exact hist_contains_any_iff. Qed.

(* any sequence of confirmations starting from `ConfirmHistory::new(t0)` *)
Theorem C12_history_refines : forall t0 ts, within_half_range t0 ts ->
  let L := fst (spec_confirm_all (t0, [t0]) ts) in
  let S := snd (spec_confirm_all (t0, [t0]) ts) in
  exists h, hist_confirm_all (hist_new (wrap t0)) (map wrap ts) = Ok h /\
    hist_R h L S /\
    (forall t, hist_near L t -> hist_contains h (wrap t) = spec_contains L S t) /\
    (forall a b, a <= b -> b - a < 2 ^ 31 -> hist_near L a ->
       hist_contains_any h (wrap a) (wrap b) = Ok (existsb_range a b (spec_contains L S))).
Proof. exact hist_refines. Qed.

(* ... where L is the maximum and S the plain set of everything confirmed *)
Theorem C12_history_spec_is_plain_set : forall ts L S t,
  mem t (snd (spec_confirm_all (L, S) ts)) = mem t ts || mem t S.
Proof. exact spec_confirm_all_mem. Qed.
Theorem C12_history_spec_is_max : forall ts L S,
  fst (spec_confirm_all (L, S) ts) = fold_left Z.max ts L.
Proof. exact spec_confirm_all_max. Qed.

(* ---- global mutate-tick tracker ---- *)
Theorem C12_mutate_ticks_default : mt_R mt_default 0 mlog_empty.
Proof. exact mt_default_R. Qed.

Theorem C12_mutate_ticks_clear : forall m, length (mt_ticks m) = 64%nat -> mt_R (mt_clear m) 0 mlog_empty.
Proof. exact mt_clear_R. Qed.

(* `confirm` returns true exactly on the call that completes a tick still inside the window *)
Theorem C12_mutate_ticks_confirm : forall m L M t c, mt_R m L M -> Z.abs (t - L) < 2 ^ 31 ->
  proto_ok M t c = true ->
  exists m', mt_confirm m (wrap t) c = Ok (m', (L - 64 <? t) && (tm_received (M t) + 1 =? c)%N) /\
             mt_R m' (Z.max L t) (mlog_add M t c).
Proof. exact mt_confirm_R. Qed.

Theorem C12_mutate_ticks_contains : forall m L M t, mt_R m L M -> Z.abs (t - L) < 2 ^ 31 ->
  mt_contains m (wrap t) = (t <=? L) && ((64 <=? L - t) || tm_all_received (M t)).
Proof. exact mt_contains_spec. Qed.

Theorem C12_mutate_ticks_contains_any : forall m L M a b, mt_R m L M ->
  a <= b -> b - a < 2 ^ 31 -> Z.abs (a - L) < 2 ^ 31 ->
  mt_contains_any m (wrap a) (wrap b) = Ok (existsb_range a b (mspec_contains L M)).
Proof. exact mt_contains_any_spec. Qed.

Theorem C12_mutate_ticks_contains_any_iff : forall m L M a b, mt_R m L M ->
  a <= b -> b - a < 2 ^ 31 -> Z.abs (a - L) < 2 ^ 31 ->
  exists r, mt_contains_any m (wrap a) (wrap b) = Ok r /\
            (r = true <-> exists t, a <= t <= b /\ mspec_contains L M t = true).
Proof. exact mt_contains_any_iff. Qed.

Theorem C12_mutate_ticks_mask : forall m L M, mt_R m L M ->
  exists k, mt_mask m = Ok k /\ (k < 2 ^ 64)%N /\
            forall i, 0 <= i < 64 -> N.testbit k (Z.to_N i) = tm_all_received (M (L - i)).
Proof. exact mt_mask_spec. Qed.

(* any sequence of calls following the sender's protocol, starting from `default()` *)
Theorem C12_mutate_ticks_refines : forall calls, mcalls_ok 0 mlog_empty calls ->
  let L := fst (fst (mspec_confirm_all 0 mlog_empty calls)) in
  let M := snd (fst (mspec_confirm_all 0 mlog_empty calls)) in
  exists m, mt_confirm_all mt_default (wrap_calls calls) = Ok (m, snd (mspec_confirm_all 0 mlog_empty calls)) /\
    mt_R m L M /\
    (forall t, mt_near L t -> mt_contains m (wrap t) = mspec_contains L M t) /\
    (forall a b, a <= b -> b - a < 2 ^ 31 -> mt_near L a ->
       mt_contains_any m (wrap a) (wrap b) = Ok (existsb_range a b (mspec_contains L M))).
Proof. exact mt_refines. Qed.

(* the step-wise premise of C12_mutate_ticks_refines follows from the sender's protocol
   stated on the whole list of calls *)
Theorem C12_mutate_ticks_protocol : forall calls,
  sender_protocol calls -> within_half_range 0 (map fst calls) -> mcalls_ok 0 mlog_empty calls.
Proof. exact mcalls_ok_from_protocol. Qed.

(* the pop_back / push_front loop of `confirm` is the closed form used by the model *)
Theorem C12_mutate_ticks_shift_loop : forall delta l, length l = 64%nat -> (delta < 64)%N ->
  mt_shift_loop (N.to_nat delta) l = mt_shift delta l.
Proof. exact mt_shift_loop_eq. Qed.

(* ---- non-vacuity ---- *)
(* D11 regression: confirm 10, 11, 75 (gap 64): no stale bit, 74 is not confirmed *)
Example C12_ex_gap_64 :
  hist_confirm_all (hist_new 10) [11; 75]%N = Ok {| h_mask := 1; h_last := 75 |} /\
  hist_contains {| h_mask := 1; h_last := 75 |} 74 = false /\
  hist_contains {| h_mask := 1; h_last := 75 |} 75 = true /\
  hist_contains {| h_mask := 1; h_last := 75 |} 11 = true /\   (* 64 ticks old: counts as confirmed *)
  hist_contains {| h_mask := 1; h_last := 75 |} 12 = false.
Proof. vm_compute. repeat split; reflexivity. Qed.

(* D11 regression: a range covering the full window does not overflow a shift *)
Example C12_ex_full_window :
  hist_contains_any (hist_new 100) 37 100 = Ok true /\
  hist_contains_any (hist_new 100) 37 99 = Ok false /\
  hist_contains_any (hist_new 100) 36 99 = Ok true /\
  hist_contains_any (hist_new 100) 101 100 = Panic.              (* debug_assert!(start <= end) *)
Proof. vm_compute. repeat split; reflexivity. Qed.

(* a sequence crossing the 2^32 wrap, with its hypothesis *)
Example C12_ex_wrap_hyp : within_half_range (2 ^ 32 - 3) [2 ^ 32 - 1; 2 ^ 32 + 1; 2 ^ 32 + 2; 2 ^ 32 - 2].
Proof. vm_compute. repeat split; reflexivity. Qed.
Example C12_ex_wrap :
  map wrap [2 ^ 32 - 1; 2 ^ 32 + 1; 2 ^ 32 + 2; 2 ^ 32 - 2] = [4294967295; 1; 2; 4294967294]%N /\
  hist_confirm_all (hist_new (wrap (2 ^ 32 - 3))) (map wrap [2 ^ 32 - 1; 2 ^ 32 + 1; 2 ^ 32 + 2; 2 ^ 32 - 2])
    = Ok {| h_mask := 59; h_last := 2 |} /\
  hist_contains {| h_mask := 59; h_last := 2 |} 0 = false /\
  hist_contains_any {| h_mask := 59; h_last := 2 |} 4294967294 0 = Ok true.
Proof. vm_compute. repeat split; reflexivity. Qed.

(* the sender's protocol is satisfiable: 2 messages for tick 5, one for 3, a jump to 70
   (tick 5 leaves the window), a late message for tick 2 which is ignored *)
Example C12_ex_calls_ok : mcalls_ok 0 mlog_empty [(5, 2%N); (3, 1%N); (5, 2%N); (70, 1%N); (2, 1%N)].
Proof. vm_compute. repeat split; reflexivity. Qed.
Example C12_ex_calls :
  snd (mspec_confirm_all 0 mlog_empty [(5, 2%N); (3, 1%N); (5, 2%N); (70, 1%N); (2, 1%N)])
    = [false; true; true; true; false] /\
  (let* (m, bs) := mt_confirm_all mt_default [(5, 2); (3, 1); (5, 2); (70, 1); (2, 1)]%N in
   let* k := mt_mask m in
   Ok (bs, k, mt_last m, mt_contains m 6, mt_contains m 7, mt_contains_any m 7 69, mt_contains_any m 6 69))
    = Ok ([false; true; true; true; false], 1%N, 70%N, true, false, Ok false, Ok true).
Proof. vm_compute. split; reflexivity. Qed.

Example C12_ex_protocol : sender_protocol [(5, 2%N); (3, 1%N); (5, 2%N); (70, 1%N); (2, 1%N)].
Proof.
  intros t c H. cbn [In] in H.
  repeat (destruct H as [H | H];
    [ injection H as <- <-;
      split; [discriminate|]; split; [reflexivity|]; split;
      [ intros c' H'; cbn [In] in H'; repeat (destruct H' as [H' | H']; [congruence|]); contradiction
      | vm_compute; intros X; discriminate X ]
    | ]).
  contradiction.
Qed.

(* a protocol violation is a debug panic, not silently accepted *)
Example C12_ex_proto_violation :
  proto_ok (mlog_add mlog_empty 1 1) 1 1 = false /\
  mt_confirm_all mt_default [(1, 1); (1, 1)]%N = Panic /\
  mt_confirm_all mt_default [(1, 0)]%N = Panic /\
  mt_confirm_all mt_default [(1, 2); (1, 3)]%N = Panic.
Proof. vm_compute. repeat split; reflexivity. Qed.

(* the tracker crossing the 2^32 wrap, starting from default() *)
Example C12_ex_mt_wrap_hyp :
  mcalls_ok 0 mlog_empty [(2 ^ 31 - 1, 1%N); (2 ^ 32 - 2, 1%N); (2 ^ 32 + 1, 2%N); (2 ^ 32 - 1, 1%N); (2 ^ 32 + 1, 2%N)].
Proof. vm_compute. repeat split; reflexivity. Qed.
Example C12_ex_mt_wrap :
  (let* (m, bs) := mt_confirm_all mt_default
      (wrap_calls [(2 ^ 31 - 1, 1%N); (2 ^ 32 - 2, 1%N); (2 ^ 32 + 1, 2%N); (2 ^ 32 - 1, 1%N); (2 ^ 32 + 1, 2%N)]) in
   let* k := mt_mask m in Ok (bs, k, mt_last m))
  = Ok ([true; true; false; true; true], 13%N, 1%N).
Proof. vm_compute. reflexivity. Qed.

(* outside the hypothesis of C12_tick_order: at distance exactly 2^31 both are "less" *)
Example C12_ex_half_range : tick_cmp 0 (2 ^ 31) = Lt /\ tick_cmp (2 ^ 31) 0 = Lt.
Proof. exact tick_cmp_half_range. Qed.

Check C12_tick_order : forall a b : Z, Z.abs (a - b) < 2 ^ 31 -> tick_cmp (wrap a) (wrap b) = Z.compare a b.
Print Assumptions C12_tick_order.
Print Assumptions C12_history_new.
Print Assumptions C12_history_confirm.
Print Assumptions C12_history_confirm_no_panic.
Print Assumptions C12_history_contains.
Print Assumptions C12_history_contains_any.
Print Assumptions C12_history_contains_any_iff.
Print Assumptions C12_history_refines.
Print Assumptions C12_history_spec_is_plain_set.
Print Assumptions C12_history_spec_is_max.
Print Assumptions C12_mutate_ticks_default.
Print Assumptions C12_mutate_ticks_clear.
Print Assumptions C12_mutate_ticks_confirm.
Print Assumptions C12_mutate_ticks_contains.
Print Assumptions C12_mutate_ticks_contains_any.
Print Assumptions C12_mutate_ticks_contains_any_iff.
Print Assumptions C12_mutate_ticks_mask.
Print Assumptions C12_mutate_ticks_refines.
Print Assumptions C12_mutate_ticks_shift_loop.
Print Assumptions C12_mutate_ticks_protocol.

(* the widths the tick models hard-wire are those of the current source (Generated/Params.v is rewritten on every run) *)
Theorem C12_widths_pinned : (RV.Generated.Params.tick_width = 32 /\ RV.Generated.Params.hist_mask_width = 64 /\ RV.Generated.Params.mt_window_width = 64)%N.
Proof. exact widths_pinned. Qed.
Print Assumptions C12_widths_pinned.
