(* C08 (Layer 1) -- data of entities hidden from a client never reaches that client, and the
   clients do not interfere.  Model: Repl/Server.v; helper names: Repl/ServerSpec.v
   (`sfc_vis1 s cl` is the client's visibility after `collect_despawns`, the one read by
   `collect_removals` / `collect_changes`); proofs: Repl/Server_proofs.v.
   All statements hold for arbitrary server states, configurations and partition oracles.

   `comp_of x k v`: v is the current value of component k of the entity record x
   (`In (k, comp) (se_comps x)`, `v = c_val comp`, and `al_get k (se_comps x) = Some comp`
   when the component keys are unique). *)
From RV Require Import Lib.Res Repl.ClientTicks Repl.World Vis.Visibility Repl.Server Repl.ServerSpec
  Repl.Server_proofs.
Open Scope N_scope.

Theorem C08L1_comp_of : forall x k v,
  comp_of x k v <->
  exists comp, In (k, comp) (se_comps x) /\ v = c_val comp /\
               (NoDup (al_keys (se_comps x)) -> al_get k (se_comps x) = Some comp).
Proof. intros x k v. reflexivity. Qed.

(* 4. every entity in the changes array of the update message or in the body of a mutate message
      is not hidden, is a replicated entity (alive, marked: C08L1_replicated_ents), and every
      value sent is a current component value of it *)
Theorem C08L1_changes_only_visible : forall c s this_run cl p cl' out,
  send_for_client c s this_run cl p = Ok (cl', out) ->
  (forall u e en, co_update out = Some u -> In (e, en) (u_changes u) ->
     vis_state_of (sfc_vis1 s cl) e <> VHidden /\
     exists x madd, In (e, x, madd) (replicated_ents s) /\ forall k v, In (k, v) en -> comp_of x k v) /\
  (forall m e vals, In m (co_mutates out) -> In (e, vals) (m_body m) ->
     vis_state_of (sfc_vis1 s cl) e <> VHidden /\ vals <> [] /\
     exists x madd, In (e, x, madd) (replicated_ents s) /\ forall k v, In (k, v) vals -> comp_of x k v).
Proof. exact changes_only_visible. Qed.

Theorem C08L1_replicated_ents : forall s e x madd,
  (In (e, x, madd) (replicated_ents s) <->
   In (e, x) (sv_ents s) /\ se_marker x = Some madd /\ se_alive x = true) /\
  (ents_wf s -> In (e, x, madd) (replicated_ents s) ->
   get_ent s e = Some x /\ se_marker x = Some madd /\ se_alive x = true).
Proof. intros s e x madd. split; [apply replicated_ents_In|apply replicated_ents_get]. Qed.

(* 5. removal records only for visible entities (and they come from the removal buffer) *)
Theorem C08L1_removals_only_visible : forall c s this_run cl p cl' out u e ks,
  send_for_client c s this_run cl p = Ok (cl', out) -> co_update out = Some u -> In (e, ks) (u_removals u) ->
  vis_visible (sfc_vis1 s cl) e = true /\ vis_state_of (sfc_vis1 s cl) e <> VHidden /\
  In (e, ks) (sv_removal_buf s).
Proof. exact removals_only_visible. Qed.

(* 6. an entity whose visibility was just gained is sent whole, in the update message *)
Theorem C08L1_gained_sends_whole_entity : forall c s this_run cl p cl' out e x madd,
  send_for_client c s this_run cl p = Ok (cl', out) ->
  In (e, x, madd) (replicated_ents s) -> vis_state_of (sfc_vis1 s cl) e = VGained ->
  exists u, co_update out = Some u /\ In (e, all_comps x) (u_changes u).
Proof. exact gained_sends_whole_entity. Qed.

(* 7. what one client is sent does not depend on the other clients: `send_for_client` reads only
      the listed fields of the server, and `send_replication` maps the clients one by one *)
Theorem C08L1_send_for_client_independent : forall c s1 s2 this_run cl p,
  sv_tick s1 = sv_tick s2 -> sv_last_run s1 = sv_last_run s2 -> sv_elapsed s1 = sv_elapsed s2 ->
  sv_ents s1 = sv_ents s2 -> sv_despawn_buf s1 = sv_despawn_buf s2 -> sv_removal_buf s1 = sv_removal_buf s2 ->
  send_for_client c s1 this_run cl p = send_for_client c s2 this_run cl p.
Proof. exact send_for_client_independent. Qed.

Theorem C08L1_send_replication_per_client : forall c s parts s' outs,
  send_replication c s parts = Ok (s', outs) ->
  exists rs, Forall2 (fun cl r => client_result c s parts cl = Ok r) (sv_clients s) rs /\
             sv_clients s' = map fst rs /\ outs = outs_of rs.
Proof. exact send_replication_per_client. Qed.

Theorem C08L1_client_result : forall c s parts cl,
  client_result c s parts cl =
  if sc_authorized cl then
    let* (cl', out) := send_for_client c s (sv_now s) cl
                         (match al_get (sc_slot cl) parts with Some p => p | None => [] end) in
    Ok (cl', Some out)
  else Ok (cl, None).
Proof. reflexivity. Qed.

(* ---- non-vacuity: blacklist policy, two clients, entity 10 hidden from client 1 ---- *)
Definition ex08_cfg := mkCfg PBlack AuthNone false 1000.
Definition ex08_s1 := connect_client ex08_cfg (connect_client ex08_cfg (set_running server_init true) 1 1200) 2 1200.
Definition ex08_after (r : res (server * frame_out)) : server :=
  match r with Ok (s, _) => s | _ => server_init end.
Definition ex08_outs (r : res (server * frame_out)) : option (list client_out) :=
  match r with Ok (_, fo) => Some (fo_clients fo) | _ => None end.
Definition ex08_fA := server_frame ex08_cfg ex08_s1 true 16 false
  [SSpawn 10 true [(0, VNat 5); (1, VNat 7)]; SSpawn 11 true [(0, VNat 1)]; SVis 1 10 false] [].
Definition ex08_fB := server_frame ex08_cfg (ex08_after ex08_fA) true 16 false
  [SMutate 10 0 (VNat 6); SMutate 11 0 (VNat 2); SRemove 10 1] [(1, [[11]]); (2, [[11]])].
Definition ex08_fC := server_frame ex08_cfg (ex08_after ex08_fB) true 16 false
  [SVis 1 10 true; SMutate 11 0 (VNat 3)] [(1, [[11]]); (2, [[11]])].

(* first send: client 1 gets only entity 11, client 2 both *)
Example C08L1_ex_hidden_not_sent :
  ex08_outs ex08_fA =
  Some [mkCO 1 (Some (mkUpd 1 [] [10] [] [(11, [(0, VNat 1)])])) [] false;
        mkCO 2 (Some (mkUpd 1 [] [] [] [(10, [(0, VNat 5); (1, VNat 7)]); (11, [(0, VNat 1)])])) [] false].
Proof. vm_compute. reflexivity. Qed.

(* a mutation and a removal on the hidden entity: client 1 sees neither, client 2 both *)
Example C08L1_ex_hidden_mutation_and_removal :
  ex08_outs ex08_fB =
  Some [mkCO 1 None [mkMut 1 2 1 0 [(11, [(0, VNat 2)])]] false;
        mkCO 2 (Some (mkUpd 2 [] [] [(10, [1])] [(10, [(0, VNat 6)])])) [mkMut 2 2 1 0 [(11, [(0, VNat 2)])]] false].
Proof. vm_compute. reflexivity. Qed.

(* visibility gained: the whole entity (its current components) goes into the update message *)
Example C08L1_ex_gained :
  ex08_outs ex08_fC =
  Some [mkCO 1 (Some (mkUpd 3 [] [] [] [(10, [(0, VNat 6)])])) [mkMut 3 3 1 1 [(11, [(0, VNat 3)])]] false;
        mkCO 2 None [mkMut 2 3 1 1 [(11, [(0, VNat 3)])]] false].
Proof. vm_compute. reflexivity. Qed.

(* the visibility hypotheses are satisfiable: the states in which send_replication runs in frames
   B and C (entity 10 is hidden from / just gained by client 1, visible for client 2) *)
Definition ex08_preB := buffer_removals (fold_left apply_sop
  [SMutate 10 0 (VNat 6); SMutate 11 0 (VNat 2); SRemove 10 1] (receive_acks (with_time_tick (ex08_after ex08_fA) true 16))).
Definition ex08_preC := buffer_removals (fold_left apply_sop
  [SVis 1 10 true; SMutate 11 0 (VNat 3)] (receive_acks (with_time_tick (ex08_after ex08_fB) true 16))).
Example C08L1_ex_states :
  (exists cl1 cl2, sv_clients ex08_preB = [cl1; cl2] /\
     vis_state_of (sfc_vis1 ex08_preB cl1) 10 = VHidden /\ vis_state_of (sfc_vis1 ex08_preB cl2) 10 = VVisible) /\
  (exists cl1 cl2, sv_clients ex08_preC = [cl1; cl2] /\
     vis_state_of (sfc_vis1 ex08_preC cl1) 10 = VGained /\ vis_state_of (sfc_vis1 ex08_preC cl2) 10 = VVisible /\
     map ent_id (replicated_ents ex08_preC) = [10; 11]).
Proof.
  split.
  - do 2 eexists. split; [vm_compute; reflexivity|]. split; vm_compute; reflexivity.
  - do 2 eexists. split; [vm_compute; reflexivity|]. repeat split; vm_compute; reflexivity.
Qed.

Print Assumptions C08L1_changes_only_visible.
Print Assumptions C08L1_replicated_ents.
Print Assumptions C08L1_removals_only_visible.
Print Assumptions C08L1_gained_sends_whole_entity.
Print Assumptions C08L1_send_for_client_independent.
Print Assumptions C08L1_send_replication_per_client.
