(* C04 -- "A server event or trigger that is not marked independent is handed to a client's game logic only
   after that client has applied every spawn, insertion, removal and despawn the server had replicated to it
   up to the tick in which the event was sent.  Entities referenced by mapped events or trigger targets then
   resolve to the client's own corresponding entities; an event is withheld rather than delivered with an
   unresolved or wrong reference."

   Model: Events/Remote.v (validated against the implementation).  This file only pins statements; proofs
   live in Events/Remote_proofs.v, vocabulary in Events/RemoteSpec.v.
   What the model can express of C04: a dependent event leaves the server stamped with the receiver's update
   tick (the tick of the last update message the server sent to that client, Repl.Server), and the client
   hands it to its logic only when its own ServerUpdateTick (cl_upd_tick, set when the update message of
   that tick has been applied, Repl.Client) is not behind that stamp; until then the event sits in the
   per-type queue.  An event whose entity is not in the client's server->client map is DROPPED, not withheld
   (see C04_references_resolve_or_dropped and the report). *)
From Coq Require Import Permutation Sorted.
From RV Require Import Lib.Res Repl.ClientTicks Repl.World Repl.Server Repl.Client Repl.Sys Tick.RepliconTick
  Events.Remote Events.RemoteSpec Events.Remote_proofs.
Open Scope N_scope.

(* ---------- 1. the stamp ---------- *)

(* frame level, every reachable state: whatever a server frame hands to the backend is either an
   independent event without tick or a dependent event carrying the receiver's update tick *)
Theorem C04_dependent_events_carry_update_tick : forall c n e tick dt cleanup ops parts emit e' o,
  reachable c n e -> syse_step e (ESFrame tick dt cleanup ops parts emit) = Ok (e', o) ->
  forall slot m, In (slot, m) (eo_sent o) ->
  (sm_tick m = None /\ independent (sm_ty m) = true) \/
  (exists cl, find_client (y_server (e_sys e')) slot = Some cl /\
              sm_tick m = Some (ct_update_tick (sc_ticks cl)) /\ independent (sm_ty m) = false).
Proof. exact sframe_sent_reachable. Qed.

(* function level, all states whose buffer holds dependent events only *)
Theorem C04_send_buffered_stamps : forall e slot m,
  buffer_dependent e -> In (slot, m) (snd (send_buffered e)) ->
  exists cl, find_client (y_server (e_sys e)) slot = Some cl /\
             sm_tick m = Some (ct_update_tick (sc_ticks cl)) /\ independent (sm_ty m) = false.
Proof. exact dependent_events_carry_update_tick. Qed.

Theorem C04_send_or_buffer_no_tick : forall e slot m,
  In (slot, m) (snd (send_or_buffer e)) -> sm_tick m = None /\ independent (sm_ty m) = true.
Proof. exact independent_events_carry_no_tick. Qed.

Theorem C04_only_dependent_events_buffered : forall c n e, reachable c n e -> buffer_dependent e.
Proof. exact reachable_buffer_dependent. Qed.

(* ---------- 2. delivery waits for the tick ---------- *)

(* frame level, every reachable state: cl is the client AFTER it applied this frame's replication messages *)
Theorem C04_delivered_only_when_tick_applied : forall c n e slot ops emit e' o,
  reachable c n e -> syse_step e (ECFrame slot ops emit) = Ok (e', o) ->
  forall d, In d (eo_got o) ->
  exists cl m, al_get slot (y_clients (e_sys e')) = Some cl /\ deliverable cl m = Some d /\
    (sm_tick m = None \/ exists tk, sm_tick m = Some tk /\ tick_gtb tk (cl_upd_tick cl) = false) /\
    (forall se, sm_ent m = Some se -> al_get se (cl_s2c cl) <> None).
Proof. exact cframe_got_reachable. Qed.

(* all states, one event type *)
Theorem C04_delivered_only_when_tick_applied_type : forall c ce t ce' got,
  client_receive_type c ce t = (ce', got) ->
  forall d, In d got ->
  exists m, deliverable c m = Some d /\
    ((exists q, In q (ce_queue ce) /\ snd q = m /\ fst (fst q) = t /\ tick_gtb (qkey q) (cl_upd_tick c) = false) \/
     (In m (ce_inbox ce) /\ sm_ty m = t /\
      (sm_tick m = None \/ exists tk, sm_tick m = Some tk /\ tick_gtb tk (cl_upd_tick c) = false))).
Proof. exact delivered_only_when_tick_applied. Qed.

(* all states, all event types of one frame *)
Theorem C04_delivered_only_when_tick_applied_frame : forall c ce ce' got,
  client_receive c ce = (ce', got) ->
  forall d, In d got ->
  exists m, deliverable c m = Some d /\
    ((exists q, In q (ce_queue ce) /\ snd q = m /\ tick_gtb (qkey q) (cl_upd_tick c) = false) \/
     (In m (ce_inbox ce) /\
      (sm_tick m = None \/ exists tk, sm_tick m = Some tk /\ tick_gtb tk (cl_upd_tick c) = false))).
Proof. exact client_receive_delivered. Qed.

(* an event ahead of the client's tick stays in the queue, everything queued that is still ahead stays,
   the inbox is consumed, the queue invariant is kept *)
Theorem C04_withheld_not_lost : forall c ce ce' got,
  client_receive c ce = (ce', got) ->
  (forall m tk, In m (ce_inbox ce) -> sm_tick m = Some tk -> tick_gtb tk (cl_upd_tick c) = true ->
                In (sm_ty m, tk, m) (ce_queue ce')) /\
  (forall q, In q (ce_queue ce) -> tick_gtb (qkey q) (cl_upd_tick c) = true -> In q (ce_queue ce')) /\
  ce_inbox ce' = [] /\
  (queue_wf (ce_queue ce) -> queue_wf (ce_queue ce')).
Proof. exact client_receive_withheld. Qed.

(* nothing else enters the queue *)
Theorem C04_withheld_not_lost_type : forall c ce t ce' got,
  client_receive_type c ce t = (ce', got) ->
  (forall m tk, In m (ce_inbox ce) -> sm_ty m = t -> sm_tick m = Some tk -> tick_gtb tk (cl_upd_tick c) = true ->
                In (t, tk, m) (ce_queue ce')) /\
  (forall q, In q (ce_queue ce) -> fst (fst q) <> t \/ tick_gtb (qkey q) (cl_upd_tick c) = true -> In q (ce_queue ce')) /\
  (forall q, In q (ce_queue ce') ->
     In q (ce_queue ce) \/
     exists m tk, q = (t, tk, m) /\ In m (ce_inbox ce) /\ sm_ty m = t /\ sm_tick m = Some tk /\
                  tick_gtb tk (cl_upd_tick c) = true) /\
  ce_inbox ce' = filter (fun m => negb (sety_eqb (sm_ty m) t)) (ce_inbox ce).
Proof. exact withheld_not_lost. Qed.

(* ---------- 3. references ---------- *)

(* a delivered entity is mapped on this client; a ready message with an unmapped entity is consumed
   without producing an item (dropped, NOT kept for later) *)
Theorem C04_references_resolve_or_dropped : forall c ce t ce' got,
  client_receive_type c ce t = (ce', got) ->
  (forall ty sq se, In (ty, sq, Some se) got -> al_get se (cl_s2c c) <> None) /\
  (forall m, In m (now_msgs c ce t) -> deliverable c m = None ->
     (exists se, sm_ent m = Some se /\ al_get se (cl_s2c c) = None) /\
     forall l1 l2, now_msgs c ce t = l1 ++ m :: l2 -> got = omap (deliverable c) l1 ++ omap (deliverable c) l2).
Proof. exact delivered_references_resolve. Qed.

(* ---------- 4. tick order of the queue ---------- *)

(* for ticks of one window shorter than half the u32 range: the queue stays sorted, what is taken from
   it is sorted and precedes the new arrivals *)
Theorem C04_queue_tick_order : forall base c ce t ce' got,
  client_receive_type c ce t = (ce', got) ->
  Forall (fun q => in_window base (qkey q)) (ce_queue ce) ->
  (forall m tk, In m (ce_inbox ce) -> sm_tick m = Some tk -> in_window base tk) ->
  StronglySorted q_le (ce_queue ce) ->
  StronglySorted q_le (ce_queue ce') /\
  Forall (fun q => in_window base (qkey q)) (ce_queue ce') /\
  StronglySorted q_le (filter (q_ready (cl_upd_tick c) t) (ce_queue ce)) /\
  exists rest, now_msgs c ce t = map snd (filter (q_ready (cl_upd_tick c) t) (ce_queue ce)) ++ rest.
Proof. exact queue_sorted. Qed.

(* no window needed: the new entry goes behind everything it is not strictly before (arrival order among
   equal ticks) and directly in front of the first entry it is strictly before *)
Theorem C04_queue_insert_stable : forall x l,
  exists l1 l2, l = l1 ++ l2 /\ insert_by_tick x l = l1 ++ x :: l2 /\
    Forall (fun y => tick_ltb (qkey x) (qkey y) = false) l1 /\
    match l2 with [] => True | y :: _ => tick_ltb (qkey x) (qkey y) = true end.
Proof. exact insert_by_tick_split. Qed.

Theorem C04_queue_insert_sorted : forall base x l,
  Forall (fun q => in_window base (qkey q)) (x :: l) ->
  StronglySorted q_le l -> StronglySorted q_le (insert_by_tick x l).
Proof. exact insert_by_tick_sorted. Qed.

(* ---------- non-vacuity ---------- *)

Definition c04_cfg : cfg := mkCfg PAll AuthNone false 10000.

(* client 0 connects, the server spawns entity 1 and emits the mapped event SEM about it in a tick frame;
   the event message overtakes the update message: the client frame delivers nothing and queues it;
   after the update message arrived the next client frame delivers it, with the entity mapped *)
Definition c04_script_a : list estep :=
  [EBase StStart; ESFrame false 10 false [] [] []; EBase (StConnect 0 1200);
   ESFrame true 16 false [SSpawn 1 true [(0, VNat 5)]] [] [(SEM, (999, false, false), 7, Some 1)];
   EDeliverS2C 0 SEM All false;
   ECFrame 0 [] []].
Definition c04_script_b : list estep := [EBase (StDeliver 0 true 0 All); ECFrame 0 [] []].

Definition c04_view (r : res (syse * list eout)) :=
  match r with
  | Ok (e, os) => Some (map eo_sent os, map eo_got os, map (fun kv => ce_queue (snd kv)) (e_clients e))
  | _ => None
  end.

Example C04_withheld_then_delivered :
  let m := mkSMsg SEM (Some 1) 7 (Some 1) in
  c04_view (erun (syse_init c04_cfg 1) c04_script_a)
  = Some ([[]; []; []; [(0, m)]; []; []], [[]; []; []; []; []; []], [[(SEM, 1, m)]]) /\
  c04_view (erun (syse_init c04_cfg 1) (c04_script_a ++ c04_script_b))
  = Some ([[]; []; []; [(0, m)]; []; []; []; []], [[]; []; []; []; []; []; []; [(SEM, 7, Some 1)]], [[]]).
Proof. split; vm_compute; reflexivity. Qed.

(* the hypotheses of the frame-level theorems are satisfiable: these states are reachable *)
Example C04_reachable_example : exists e os,
  erun (syse_init c04_cfg 1) c04_script_a = Ok (e, os) /\ reachable c04_cfg 1 e.
Proof.
  destruct (erun (syse_init c04_cfg 1) c04_script_a) as [[e os]| |] eqn:E; [|vm_compute in E; discriminate..].
  exists e, os. split; [reflexivity|]. eapply erun_reachable; [apply reach_init|exact E].
Qed.

(* an event about an entity the client has no mapping for is dropped: the server despawned nothing, the
   client simply never got the spawn (the update message is still in flight when the event's tick is
   already applied is impossible here, so we use an entity that was never replicated: 9) *)
Definition c04_script_c : list estep :=
  [EBase StStart; ESFrame false 10 false [] [] []; EBase (StConnect 0 1200);
   ESFrame true 16 false [SSpawn 1 true [(0, VNat 5)]] [] [(SEM, (999, false, false), 7, Some 9)];
   EBase (StDeliver 0 true 0 All); EDeliverS2C 0 SEM All false; ECFrame 0 [] []; ECFrame 0 [] []].
Example C04_unmapped_dropped :
  c04_view (erun (syse_init c04_cfg 1) c04_script_c)
  = Some ([[]; []; []; [(0, mkSMsg SEM (Some 1) 7 (Some 9))]; []; []; []; []],
          [[]; []; []; []; []; []; []; []], [[]]).
Proof. vm_compute. reflexivity. Qed.

(* a window and a sorted queue exist *)
Example C04_window_example : in_window 0 5 /\ in_window 0 7 /\
  StronglySorted q_le [(SE0, 5, mkSMsg SE0 (Some 5) 1 None); (SE0, 7, mkSMsg SE0 (Some 7) 2 None)].
Proof.
  split; [exists 5%Z; split; [reflexivity|split; [discriminate|reflexivity]]|].
  split; [exists 7%Z; split; [reflexivity|split; [discriminate|reflexivity]]|].
  repeat constructor.
Qed.

Check C04_dependent_events_carry_update_tick.
Check C04_delivered_only_when_tick_applied.
Print Assumptions C04_dependent_events_carry_update_tick.
Print Assumptions C04_send_buffered_stamps.
Print Assumptions C04_send_or_buffer_no_tick.
Print Assumptions C04_only_dependent_events_buffered.
Print Assumptions C04_delivered_only_when_tick_applied.
Print Assumptions C04_delivered_only_when_tick_applied_type.
Print Assumptions C04_delivered_only_when_tick_applied_frame.
Print Assumptions C04_withheld_not_lost.
Print Assumptions C04_withheld_not_lost_type.
Print Assumptions C04_references_resolve_or_dropped.
Print Assumptions C04_queue_tick_order.
Print Assumptions C04_queue_insert_stable.
Print Assumptions C04_queue_insert_sorted.
