(* C11 end to end -- "A mutation keeps being re-sent every tick until the client acknowledges a message containing it
   and stops being re-sent afterwards; lost or late acknowledgements, and acknowledgements naming unknown messages,
   never cause data to be skipped.  When nothing replicated changes and everything has been acknowledged the server
   sends no replication messages at all, unless per-tick mutate-message tracking was requested, and it resumes with
   the next change."

   Properties/C11.v proves this for single states of the server model.  This file lifts it to every reachable state
   of `Sys.run (sys_init cfg n) script` (whole system: server, clients, links).  It only pins statements; proofs and
   vocabulary:
     Repl/AckRunSpec.v         the ghost: per slot and session the runs (stamp, tick), the mutate / update messages
                               sent (with the stamp `this_run` of their run) and the acknowledgements PROCESSED
                               (`arun`, `astep`, `frame_acked`, `acked_at`, `rebased_at`)
     Repl/AckRunSrv_proofs.v   one client record / one server frame (`tk_ok`, `frame_slot`)
     Repl/AckRun_proofs.v      the invariant of a run (`a_inv`), R1, R2
     Repl/AckRunIdle_proofs.v  R3 (`idle_for`, quiet tails, the settle phase of Properties/C02G.v)

   Premises.  R1, R2 and the invariant need ONLY `tick_frames script < 2^31` (neither the replicon tick nor the change
   stamps have wrapped: the model compares stamps in the plain order, Bevy by age): no legality of the script, no
   session discipline, any component kinds / values / visibility policy, `SMap` operations allowed, any partition
   oracle.  R2 is about a component kind whose rate is `EveryTick` (the other rates do not promise it: D02).  R3 uses
   the scope of Properties/C02G.v for the settle phase that makes the server idle, and nothing else afterwards.

   "Acknowledgement processed" is read off the model: `receive_acks` finds the index registered in the record of an
   authorized sender (`frame_acked`).  An index that is not registered (never handed out, acknowledged before, removed
   by `cleanup_acks`) is not processed and changes nothing (C11E_junk_acks); the invariant does not even mention the
   server's inbox (C11E_any_inbox), so the theorems hold whatever arrives on the acknowledgement channel. *)
From RV Require Import Lib.Res Repl.ClientTicks Repl.World Vis.Visibility Repl.Server Repl.ServerSpec Repl.Client Repl.Sys
  Wire.AckCodec Repl.Ack_proofs Repl.ClientSys_proofs Repl.StructE2EMut_proofs Repl.StructE2ESess_proofs
  Repl.ValSpec Repl.ValSettle_proofs Repl.ValVisSettle_proofs Repl.ValRefSpec Repl.ValRefE2E_proofs Repl.ValRefSettle_proofs
  Repl.MtRunSrv_proofs Repl.AckRunSpec Repl.AckRunSrv_proofs Repl.AckRun_proofs Repl.AckRunIdle_proofs.
Open Scope N_scope.

(* ---- the vocabulary, spelled out ---- *)

(* the acknowledgements a server frame processes for slot [k]: the server runs, the slot has an authorized record, and
   the index names a message registered in the record when its turn comes *)
Theorem C11E_frame_acked_def : forall s k,
  frame_acked s k =
  if sv_running s then
    match find_client s k with
    | Some cl => if sc_authorized cl then acked_infos (sc_ticks cl) (sv_now s) (acks_for k (sv_inbox_acks s)) else []
    | None => []
    end
  else [].
Proof. reflexivity. Qed.

Theorem C11E_acked_infos : forall ct now idxs i info,
  In (i, info) (acked_infos ct now idxs) <-> In i idxs /\ al_get i (ct_mutations ct) = Some info.
Proof. intros. split; [apply acked_infos_in|intros [H1 H2]; apply acked_infos_complete; assumption]. Qed.

(* junk: indices naming no registered message are not processed, and `receive_acks` leaves the record alone *)
Theorem C11E_junk_acks : forall ct now idxs, Forall (fun i => al_get i (ct_mutations ct) = None) idxs ->
  acked_infos ct now idxs = [] /\ ack_all ct now idxs = ct.
Proof. exact (fun ct now idxs => acked_infos_junk now idxs ct). Qed.

Theorem C11E_acked_at_def : forall g e T,
  acked_at g e T <-> exists i info, In (i, info) (ag_acked g) /\ In e (mi_entities info) /\ ClientTicks.mi_tick info = T.
Proof. intros. reflexivity. Qed.

Theorem C11E_rebased_at_def : forall g e T,
  rebased_at g e T <-> exists u, In (T, u) (ag_upds g) /\ (In e (map fst (u_removals u)) \/ In e (map fst (u_changes u))).
Proof. intros. reflexivity. Qed.

Theorem C11E_idle_for_def : forall s k,
  idle_for s k <-> sv_running s = true /\ sv_removed_events s = [] /\
                   exists cl, find_client s k = Some cl /\ sc_authorized cl = true /\ quiescent_for s cl.
Proof. intros. reflexivity. Qed.

Theorem C11E_idle_step_def : forall k st,
  idle_step k st = negb (ends_session k st) &&
                   match st with StSFrame _ _ _ ops _ => match ops with [] => true | _ => false end | _ => true end.
Proof. intros. reflexivity. Qed.

(* ---- the invariant of whole-system runs ---- *)
Theorem C11E_invariant : forall cfg0 n script y G,
  tick_frames script < 2 ^ 31 -> arun (sys_init cfg0 n) ags_empty script = Ok (y, G) -> a_inv script y G.
Proof. exact a_inv_run. Qed.

Theorem C11E_run_ghost : forall script y y', run y script = Ok y' -> forall G, exists G', arun y G script = Ok (y', G').
Proof. intros script y y' H G. exact (run_arun script y G y' H). Qed.

(* it is kept by every step, from any state that satisfies it ... *)
Theorem C11E_invariant_step : forall script st y G y' o,
  a_inv script y G -> tick_frames (script ++ [st]) < 2 ^ 31 -> sys_step y st = Ok (y', o) ->
  a_inv (script ++ [st]) y' (astep y G st).
Proof. exact a_inv_step. Qed.

(* ... and it does not read the acknowledgements waiting in the server's inbox *)
Theorem C11E_any_inbox : forall script y G ib,
  a_inv script y G -> a_inv script (set_server y (with_inbox (y_server y) ib)) G.
Proof. intros. apply a_inv_any_inbox. assumption. Qed.

(* what it says about a record: stamps below the counter, and
   R1 side: a processed acknowledgement is never forgotten (the entity's stamp stays at or above the acknowledged run);
   R2 side: a stamp IS the stamp of a processed acknowledgement or of an update message that mentions the entity *)
Theorem C11E_record : forall script y G k cl, a_inv script y G -> find_client (y_server y) k = Some cl ->
  (forall e a, mutation_tick (sc_ticks cl) e = Some a -> a < sv_now (y_server y)) /\
  (forall i info e t, In (i, info) (ag_acked (G k)) -> In e (mi_entities info) -> mutation_tick (sc_ticks cl) e = Some t ->
                      ClientTicks.mi_tick info <= t) /\
  (forall e t, mutation_tick (sc_ticks cl) e = Some t -> acked_at (G k) e t \/ rebased_at (G k) e t).
Proof.
  intros script y G k cl Hi Hf. pose proof (ai_tk _ _ _ Hi k cl Hf) as H.
  split; [exact (tk_b1 _ _ _ H)|]. split; [exact (tk_cov _ _ _ H)|exact (tk_org _ _ _ H)].
Qed.

(* a processed acknowledgement is the acknowledgement of a mutate message of the session: same index, sent by the run
   whose stamp the record kept, listing exactly the recorded entities *)
Theorem C11E_acked_is_sent : forall script y G k i info, a_inv script y G -> In (i, info) (ag_acked (G k)) ->
  exists m0, In (ClientTicks.mi_tick info, m0) (ag_sent (G k)) /\ m_idx m0 = i /\ map fst (m_body m0) = mi_entities info /\
             In (ClientTicks.mi_tick info, m_tick m0) (ag_runs (G k)).
Proof. exact acked_is_sent. Qed.

(* "in a later frame of the same session": while the slot's record exists its ghost only grows - a processed
   acknowledgement stays processed until `StDisconnect` / the `reset` of a stopped server removes the record *)
Theorem C11E_ghost_kept : forall y G st y' o k,
  sys_step y st = Ok (y', o) -> find_client (y_server y') k <> None ->
  List.incl (ag_acked (G k)) (ag_acked (astep y G st k)) /\ List.incl (ag_sent (G k)) (ag_sent (astep y G st k)) /\
  List.incl (ag_upds (G k)) (ag_upds (astep y G st k)) /\ List.incl (ag_runs (G k)) (ag_runs (astep y G st k)).
Proof. exact ghost_kept. Qed.

(* ---- R1: not re-sent after the acknowledgement ---- *)

(* stamps: once the acknowledgement of a message of run T listing [e] has been processed (in an earlier frame of the
   session or in the PreUpdate of this one), a mutate message carries component (e, kd) only with the component's
   current value and only if the component changed after run T *)
Theorem C11E_not_resent_after_ack : forall cfg0 n script y G tick dt cleanup ops parts y' fo vs k i info e m vals kd v,
  let fr := StSFrame tick dt cleanup ops parts in
  tick_frames (script ++ [fr]) < 2 ^ 31 -> arun (sys_init cfg0 n) ags_empty script = Ok (y, G) ->
  sys_step y fr = Ok (y', OSFrame fo vs) ->
  In (i, info) (ag_acked (astep y G fr k)) -> In e (mi_entities info) ->
  In m (mutates_for k (fo_clients fo)) -> In (e, vals) (m_body m) -> In (kd, v) vals ->
  exists x madd comp, In (e, x, madd) (replicated_ents (y_server y')) /\ In (kd, comp) (se_comps x) /\ v = c_val comp /\
    ClientTicks.mi_tick info < c_changed comp /\ c_changed comp <= sv_now (y_server y).
Proof. exact r1_run. Qed.

(* ticks: the acknowledged message m0 has tick `m_tick m0`; the change that is re-sent was first collected by the run
   of tick tc, after the tick of m0 and not after the tick of this run *)
Theorem C11E_not_resent_after_ack_ticks : forall cfg0 n script y G tick dt cleanup ops parts y' fo vs k i info e m vals kd v,
  let fr := StSFrame tick dt cleanup ops parts in
  tick_frames (script ++ [fr]) < 2 ^ 31 -> arun (sys_init cfg0 n) ags_empty script = Ok (y, G) ->
  sys_step y fr = Ok (y', OSFrame fo vs) ->
  let G' := astep y G fr in
  In (i, info) (ag_acked (G' k)) -> In e (mi_entities info) ->
  In m (mutates_for k (fo_clients fo)) -> In (e, vals) (m_body m) -> In (kd, v) vals ->
  exists m0 x madd comp tc,
    In (ClientTicks.mi_tick info, m0) (ag_sent (G' k)) /\ m_idx m0 = i /\ map fst (m_body m0) = mi_entities info /\
    In (e, x, madd) (replicated_ents (y_server y')) /\ In (kd, comp) (se_comps x) /\ v = c_val comp /\
    In (c_changed comp, tc) (ag_runs (G' k)) /\ m_tick m0 < tc /\ tc <= m_tick m.
Proof. exact r1_run_ticks. Qed.

(* the same from any state that satisfies the invariant (e.g. after arbitrary traffic on the acknowledgement channel) *)
Theorem C11E_not_resent_after_ack_step : forall script y G tick dt cleanup ops parts y' fo vs k i info e m vals kd v,
  a_inv script y G -> tick_frames (script ++ [StSFrame tick dt cleanup ops parts]) < 2 ^ 31 ->
  sys_step y (StSFrame tick dt cleanup ops parts) = Ok (y', OSFrame fo vs) ->
  In (i, info) (ag_acked (astep y G (StSFrame tick dt cleanup ops parts) k)) -> In e (mi_entities info) ->
  In m (mutates_for k (fo_clients fo)) -> In (e, vals) (m_body m) -> In (kd, v) vals ->
  exists x madd comp, In (e, x, madd) (replicated_ents (y_server y')) /\ In (kd, comp) (se_comps x) /\ v = c_val comp /\
    ClientTicks.mi_tick info < c_changed comp /\ c_changed comp <= sv_now (y_server y).
Proof. exact r1_step. Qed.

(* ---- R2: re-sent until the acknowledgement ---- *)

(* every run of `send_replication` (fo_ran) sends an every-tick component of an entity that is replicated and not
   hidden from the authorized client - in the update message or in a mutate message, and no entity is in two mutate
   messages of the run - unless an acknowledgement processed so far (this frame's PreUpdate included) or an update
   message sent in an earlier run of the session covers the component's change stamp.  Lost mutate messages, lost /
   late / duplicated / unknown acknowledgements, cleanups in between: no hypothesis mentions them *)
Theorem C11E_resent_until_acked : forall cfg0 n script y G tick dt cleanup ops parts y' fo vs k clp e x madd kd comp,
  let fr := StSFrame tick dt cleanup ops parts in
  tick_frames (script ++ [fr]) < 2 ^ 31 -> arun (sys_init cfg0 n) ags_empty script = Ok (y, G) ->
  sys_step y fr = Ok (y', OSFrame fo vs) -> fo_ran fo = true ->
  let pre := frame_pre (y_cfg y) (y_server y) tick dt cleanup ops in
  let G' := astep y G fr in
  find_client pre k = Some clp -> sc_authorized clp = true ->
  In (e, x, madd) (replicated_ents pre) -> vis_state_of (sfc_vis1 pre clp) e <> VHidden ->
  In (kd, comp) (se_comps x) -> rate_of kd = EveryTick ->
  (forall T, acked_at (G' k) e T -> T < c_changed comp) ->
  (forall T, rebased_at (G k) e T -> T < c_changed comp) ->
  ((exists u en, In u (updates_for k (fo_clients fo)) /\ In (e, en) (u_changes u) /\ In (kd, c_val comp) en) \/
   (exists m en, In m (mutates_for k (fo_clients fo)) /\ In (e, en) (m_body m) /\ In (kd, c_val comp) en)) /\
  NoDup (map fst (concat (map m_body (mutates_for k (fo_clients fo))))).
Proof. exact r2_run. Qed.

(* [frame_pre] is the state `send_replication` starts from: the world of the state after the frame *)
Theorem C11E_resent_state : forall y tick dt cleanup ops parts y' fo vs,
  sys_step y (StSFrame tick dt cleanup ops parts) = Ok (y', OSFrame fo vs) -> fo_ran fo = true ->
  replicated_ents (y_server y') = replicated_ents (frame_pre (y_cfg y) (y_server y) tick dt cleanup ops) /\
  sv_now (y_server y') = sv_now (y_server y) + 1 /\ sv_last_run (y_server y') = sv_now (y_server y).
Proof. exact r2_state. Qed.

(* the visibility premise is about the filter as `collect_changes` reads it (after `collect_despawns`); a record without
   a filter (policy `All`) hides nothing *)
Theorem C11E_resent_no_filter : forall s cl e, sc_vis cl = None -> vis_state_of (sfc_vis1 s cl) e = VVisible.
Proof. exact sfc_vis1_none. Qed.

(* "every ticking server frame": a ticking frame of a running server runs `send_replication` *)
Theorem C11E_ticking_frame_runs : forall c s dt (cleanup : bool) ops parts s' fo,
  sv_running s = true -> server_frame c s true dt cleanup ops parts = Ok (s', fo) -> fo_ran fo = true.
Proof. exact ticking_frame_runs. Qed.

Theorem C11E_resent_until_acked_step : forall script y G tick dt cleanup ops parts y' fo vs k clp e x madd kd comp,
  a_inv script y G -> tick_frames (script ++ [StSFrame tick dt cleanup ops parts]) < 2 ^ 31 ->
  sys_step y (StSFrame tick dt cleanup ops parts) = Ok (y', OSFrame fo vs) -> fo_ran fo = true ->
  let pre := frame_pre (y_cfg y) (y_server y) tick dt cleanup ops in
  let G' := astep y G (StSFrame tick dt cleanup ops parts) in
  find_client pre k = Some clp -> sc_authorized clp = true ->
  In (e, x, madd) (replicated_ents pre) -> vis_state_of (sfc_vis1 pre clp) e <> VHidden ->
  In (kd, comp) (se_comps x) -> rate_of kd = EveryTick ->
  (forall T, acked_at (G' k) e T -> T < c_changed comp) ->
  (forall T, rebased_at (G k) e T -> T < c_changed comp) ->
  ((exists u en, In u (updates_for k (fo_clients fo)) /\ In (e, en) (u_changes u) /\ In (kd, c_val comp) en) \/
   (exists m en, In m (mutates_for k (fo_clients fo)) /\ In (e, en) (m_body m) /\ In (kd, c_val comp) en)) /\
  NoDup (map fst (concat (map m_body (mutates_for k (fo_clients fo))))).
Proof. exact r2_step. Qed.

(* ---- R3: the idle server ---- *)

(* two lossless settle rounds after ANY history in the scope of Properties/C02G.v make the server idle for the client *)
Theorem C11E_idle_after_settle : forall cfg0 nclients body slots sl y,
  let rounds := settle_round slots ++ settle_round slots in
  script_scoper cfg0 nclients (body ++ rounds) -> run (sys_init cfg0 nclients) (body ++ rounds) = Ok y ->
  In sl slots -> (exists yb, run (sys_init cfg0 nclients) body = Ok yb /\ livev body yb sl) ->
  idle_for (y_server y) sl.
Proof. exact settled_idle. Qed.

(* idleness is kept by every quiet step: anything but the end of the slot's session and a server frame with game
   operations - for any number of steps *)
Theorem C11E_idle_kept : forall t script y G y' G' k,
  a_inv script y G -> tick_frames (script ++ t) < 2 ^ 31 -> idle_for (y_server y) k ->
  forallb (idle_step k) t = true -> arun y G t = Ok (y', G') ->
  a_inv (script ++ t) y' G' /\ idle_for (y_server y') k.
Proof. exact idle_tail. Qed.

(* a frame of an idle server: no update message, no mutate data; exactly one header-only mutate message (count 1, the
   tick of the frame) when tracking is on and the frame ran `send_replication`, nothing at all otherwise *)
Theorem C11E_idle_frame : forall script y G tick dt cleanup parts y' fo vs k,
  a_inv script y G -> tick_frames (script ++ [StSFrame tick dt cleanup [] parts]) < 2 ^ 31 ->
  idle_for (y_server y) k ->
  sys_step y (StSFrame tick dt cleanup [] parts) = Ok (y', OSFrame fo vs) ->
  updates_for k (fo_clients fo) = [] /\
  (if cfg_track (y_cfg y) && fo_ran fo
   then exists m, mutates_for k (fo_clients fo) = [m] /\ m_body m = [] /\ m_count m = 1 /\ m_tick m = fo_tick fo
   else mutates_for k (fo_clients fo) = []) /\
  idle_for (y_server y') k.
Proof. exact idle_frame. Qed.

(* over runs: the settle phase, any quiet tail, then a server frame *)
Theorem C11E_idle_silent : forall cfg0 nclients body slots sl y G t ya Ga tick dt cleanup parts yb fo vs,
  let rounds := settle_round slots ++ settle_round slots in
  script_scoper cfg0 nclients (body ++ rounds) -> arun (sys_init cfg0 nclients) ags_empty (body ++ rounds) = Ok (y, G) ->
  In sl slots -> (exists yb0, run (sys_init cfg0 nclients) body = Ok yb0 /\ livev body yb0 sl) ->
  forallb (idle_step sl) t = true ->
  tick_frames ((body ++ rounds) ++ t ++ [StSFrame tick dt cleanup [] parts]) < 2 ^ 31 ->
  arun y G t = Ok (ya, Ga) -> sys_step ya (StSFrame tick dt cleanup [] parts) = Ok (yb, OSFrame fo vs) ->
  updates_for sl (fo_clients fo) = [] /\
  (if cfg_track (y_cfg ya) && fo_ran fo
   then exists m, mutates_for sl (fo_clients fo) = [m] /\ m_body m = [] /\ m_count m = 1 /\ m_tick m = fo_tick fo
   else mutates_for sl (fo_clients fo) = []) /\
  idle_for (y_server yb) sl.
Proof. exact settled_silent. Qed.

(* ... and the first frame that changes something sends again *)
Theorem C11E_idle_resume : forall cfg0 nclients body slots sl y G t ya Ga tick dt cleanup parts yb fo vs cl e x madd kd old v,
  let rounds := settle_round slots ++ settle_round slots in
  script_scoper cfg0 nclients (body ++ rounds) -> arun (sys_init cfg0 nclients) ags_empty (body ++ rounds) = Ok (y, G) ->
  In sl slots -> (exists yb0, run (sys_init cfg0 nclients) body = Ok yb0 /\ livev body yb0 sl) ->
  forallb (idle_step sl) t = true ->
  tick_frames ((body ++ rounds) ++ t ++ [StSFrame tick dt cleanup [SMutate e kd v] parts]) < 2 ^ 31 ->
  arun y G t = Ok (ya, Ga) ->
  sys_step ya (StSFrame tick dt cleanup [SMutate e kd v] parts) = Ok (yb, OSFrame fo vs) -> fo_ran fo = true ->
  find_client (y_server ya) sl = Some cl ->
  In (e, x, madd) (replicated_ents (y_server ya)) -> vis_state_of (sc_vis cl) e <> VHidden ->
  al_get kd (se_comps x) = Some old -> val_ok (y_server ya) v = true -> rate_of kd = EveryTick ->
  (exists u en, In u (updates_for sl (fo_clients fo)) /\ In (e, en) (u_changes u) /\ In (kd, v) en) \/
  (exists m en, In m (mutates_for sl (fo_clients fo)) /\ In (e, en) (m_body m) /\ In (kd, v) en).
Proof. exact settled_resume. Qed.

Theorem C11E_idle_resume_step : forall script y G tick dt cleanup parts y' fo vs k cl e x madd kd old v,
  a_inv script y G -> tick_frames (script ++ [StSFrame tick dt cleanup [SMutate e kd v] parts]) < 2 ^ 31 ->
  idle_for (y_server y) k -> find_client (y_server y) k = Some cl ->
  sys_step y (StSFrame tick dt cleanup [SMutate e kd v] parts) = Ok (y', OSFrame fo vs) -> fo_ran fo = true ->
  In (e, x, madd) (replicated_ents (y_server y)) -> vis_state_of (sc_vis cl) e <> VHidden ->
  al_get kd (se_comps x) = Some old -> val_ok (y_server y) v = true -> rate_of kd = EveryTick ->
  (exists u en, In u (updates_for k (fo_clients fo)) /\ In (e, en) (u_changes u) /\ In (kd, v) en) \/
  (exists m en, In m (mutates_for k (fo_clients fo)) /\ In (e, en) (m_body m) /\ In (kd, v) en).
Proof. exact idle_resume. Qed.

Print Assumptions C11E_frame_acked_def.
Print Assumptions C11E_acked_infos.
Print Assumptions C11E_junk_acks.
Print Assumptions C11E_acked_at_def.
Print Assumptions C11E_rebased_at_def.
Print Assumptions C11E_idle_for_def.
Print Assumptions C11E_idle_step_def.
Print Assumptions C11E_invariant.
Print Assumptions C11E_run_ghost.
Print Assumptions C11E_invariant_step.
Print Assumptions C11E_any_inbox.
Print Assumptions C11E_record.
Print Assumptions C11E_acked_is_sent.
Print Assumptions C11E_ghost_kept.
Print Assumptions C11E_not_resent_after_ack.
Print Assumptions C11E_not_resent_after_ack_ticks.
Print Assumptions C11E_not_resent_after_ack_step.
Print Assumptions C11E_resent_until_acked.
Print Assumptions C11E_resent_state.
Print Assumptions C11E_resent_no_filter.
Print Assumptions C11E_ticking_frame_runs.
Print Assumptions C11E_resent_until_acked_step.
Print Assumptions C11E_idle_after_settle.
Print Assumptions C11E_idle_kept.
Print Assumptions C11E_idle_frame.
Print Assumptions C11E_idle_silent.
Print Assumptions C11E_idle_resume.
Print Assumptions C11E_idle_resume_step.

(* ================================================================== *)
(* the statements are not vacuous                                     *)
(* ================================================================== *)

Definition e_cfg (track : bool) : cfg := mkCfg PAll AuthNone track 1000.
Definition efr (ops : list sop) (parts : list (N * partition)) : step := StSFrame true 16 false ops parts.

Fixpoint e_outs (y : sys) (script : list step) : list (list client_out) :=
  match script with
  | [] => []
  | st :: r =>
    match sys_step y st with
    | Ok (y', OSFrame fo _) => fo_clients fo :: e_outs y' r
    | Ok (y', _) => e_outs y' r
    | _ => []
    end
  end.

(* per server frame and client: the changes of the update message; tick, index and body of the mutate messages *)
Definition e_view (y : sys) (script : list step) :=
  map (map (fun o => (match co_update o with Some u => Some (u_changes u) | None => None end,
                      map (fun m => (m_tick m, m_idx m, m_body m)) (co_mutates o)))) (e_outs y script).

(* the processed acknowledgements of a slot: index, run stamp, entities *)
Definition e_acked (c : cfg) (n : N) (script : list step) (k : N) :=
  match arun (sys_init c n) ags_empty script with
  | Ok (_, G) => map (fun a => (fst a, ClientTicks.mi_tick (snd a), mi_entities (snd a))) (ag_acked (G k))
  | _ => []
  end.

(* ---- two entities mutated in one tick, split over two mutate messages (the oracle of a maximum message size of one
        entity); the message of entity 2 is lost, so its acknowledgement never comes: entity 2 keeps being re-sent,
        entity 1 stops after its acknowledgement - and is sent again when it changes again ---- *)
Definition s_split_pre : list step :=
  [StStart; StConnect 0 1200;
   efr [SSpawn 1 true [(0, VNat 5)]; SSpawn 2 true [(0, VNat 7)]] [];
   StDeliver 0 true 0 All; StCFrame 0 [];
   efr [SMutate 1 0 (VNat 6); SMutate 2 0 (VNat 8)] [(0, [[1]; [2]])];
   StDrop 0 true 1 Last;
   StDeliver 0 true 1 All; StCFrame 0 []; StDeliver 0 false 0 All].
Definition s_split : list step :=
  s_split_pre ++ [efr [] [(0, [[2]])]; efr [] [(0, [[2]])]; efr [SMutate 1 0 (VNat 9)] [(0, [[1]; [2]])]].

Example C11E_ex_split :
  e_view (sys_init (e_cfg false) 1) s_split =
  [ [(Some [(1, [(0, VNat 5)]); (2, [(0, VNat 7)])], [])];
    [(None, [(2, 0, [(1, [(0, VNat 6)])]); (2, 1, [(2, [(0, VNat 8)])])])];
    [(None, [(3, 2, [(2, [(0, VNat 8)])])])];
    [(None, [(4, 3, [(2, [(0, VNat 8)])])])];
    [(None, [(5, 4, [(1, [(0, VNat 9)])]); (5, 5, [(2, [(0, VNat 8)])])])] ] /\
  e_acked (e_cfg false) 1 s_split 0 = [(0, 2, [1])] /\ legal s_split = true /\ tick_frames s_split = 5.
Proof. vm_compute. repeat split; reflexivity. Qed.

(* ---- a late acknowledgement: the client applied the message at once, its acknowledgement is delivered two ticks
        later; the data is re-sent until then and not afterwards ---- *)
Definition s_late : list step :=
  [StStart; StConnect 0 1200;
   efr [SSpawn 1 true [(0, VNat 5)]] [];
   StDeliver 0 true 0 All; StCFrame 0 [];
   efr [SMutate 1 0 (VNat 6)] [(0, [[1]])];
   StDeliver 0 true 1 All; StCFrame 0 [];
   efr [] [(0, [[1]])];
   efr [] [(0, [[1]])];
   StDeliver 0 false 0 All;
   efr [] [];
   efr [] []].

Example C11E_ex_late_ack :
  e_view (sys_init (e_cfg false) 1) s_late =
  [ [(Some [(1, [(0, VNat 5)])], [])];
    [(None, [(2, 0, [(1, [(0, VNat 6)])])])];
    [(None, [(3, 1, [(1, [(0, VNat 6)])])])];
    [(None, [(4, 2, [(1, [(0, VNat 6)])])])];
    [(None, [])]; [(None, [])] ] /\
  e_acked (e_cfg false) 1 s_late 0 = [(0, 2, [1])].
Proof. vm_compute. split; reflexivity. Qed.

(* ---- an acknowledgement after the cleanup timer: the frame of tick 3 runs `cleanup_acks` 2 s later (timeout 1 s) and
        drops the record of message 0; the acknowledgement that arrives afterwards names an unknown index, is NOT
        processed, and the data is simply re-sent (messages 1, 2, 3 are lost) ---- *)
Definition s_cleanup : list step :=
  [StStart; StConnect 0 1200;
   efr [SSpawn 1 true [(0, VNat 5)]] [];
   StDeliver 0 true 0 All; StCFrame 0 [];
   efr [SMutate 1 0 (VNat 6)] [(0, [[1]])];
   StDeliver 0 true 1 All; StCFrame 0 [];
   StSFrame true 2000 true [] [(0, [[1]])];
   StDrop 0 true 1 All;
   StDeliver 0 false 0 All;
   efr [] [(0, [[1]])];
   efr [] [(0, [[1]])]].

Example C11E_ex_ack_after_cleanup :
  e_view (sys_init (e_cfg false) 1) s_cleanup =
  [ [(Some [(1, [(0, VNat 5)])], [])];
    [(None, [(2, 0, [(1, [(0, VNat 6)])])])];
    [(None, [(3, 1, [(1, [(0, VNat 6)])])])];
    [(None, [(4, 2, [(1, [(0, VNat 6)])])])];
    [(None, [(5, 3, [(1, [(0, VNat 6)])])])] ] /\
  e_acked (e_cfg false) 1 s_cleanup 0 = [].
Proof. vm_compute. split; reflexivity. Qed.

(* ---- the quiet tail: any history (here: a lost mutation), two settle rounds, then frames without operations -
        ticking or not, with a cleanup, with the late acknowledgements of the settle phase arriving, with another
        client connecting - send client 0 nothing (without tracking) / one header-only message per run (with tracking);
        the frame that mutates the entity sends again ---- *)
Definition s_body : list step :=
  [StStart; StSFrame false 16 false [] []; StConnect 0 1200; efr [SSpawn 1 true [(0, VNat 5)]] [];
   StDeliver 0 true 0 All; StDeliver 0 true 1 All; StCFrame 0 []; StDeliver 0 false 0 All;
   efr [SMutate 1 0 (VNat 6)] [(0, [[1]])]; StDrop 0 true 1 All].
Definition s_settled : list step := s_body ++ settle_round [0] ++ settle_round [0].
Definition s_quiet : list step :=
  [efr [] []; StDeliver 0 true 1 All; StCFrame 0 []; StSFrame false 5 true [] []; StDeliver 0 false 0 All; efr [] []; StConnect 1 1200].
Definition s_resume : step := efr [SMutate 1 0 (VNat 7)] [(0, [[1]])].

Example C11E_ex_quiet :
  e_view (sys_init (e_cfg false) 2) (s_settled ++ s_quiet ++ [s_resume]) =
  [ []; [(Some [(1, [(0, VNat 5)])], [])];
    [(None, [(2, 0, [(1, [(0, VNat 6)])])])];
    [(None, [(3, 1, [(1, [(0, VNat 6)])])])]; [(None, [])];
    [(None, [])]; []; [(None, [])];
    [(None, [(7, 2, [(1, [(0, VNat 7)])])]); (Some [(1, [(0, VNat 7)])], [])] ] /\
  e_view (sys_init (e_cfg true) 2) (s_settled ++ s_quiet ++ [s_resume]) =
  [ []; [(Some [(1, [(0, VNat 5)])], [(1, 0, [])])];
    [(None, [(2, 1, [(1, [(0, VNat 6)])])])];
    [(None, [(3, 2, [(1, [(0, VNat 6)])])])]; [(None, [(4, 3, [])])];
    [(None, [(5, 4, [])])]; []; [(None, [(6, 5, [])])];
    [(None, [(7, 6, [(1, [(0, VNat 7)])])]); (Some [(1, [(0, VNat 7)])], [(7, 0, [])])] ] /\
  forallb (idle_step 0) s_quiet = true.
Proof. vm_compute. repeat split; reflexivity. Qed.

(* ---- the theorems instantiated on these runs ---- *)

Lemma e_ok_pair {A B} (a a' : A) (b b' : B) : Ok (a, b) = Ok (a', b') -> a = a' /\ b = b'.
Proof. intros H. inversion H. auto. Qed.

Definition s_split12 : list step := s_split_pre ++ [efr [] [(0, [[2]])]; efr [] [(0, [[2]])]].
Definition s_split_last : step := efr [SMutate 1 0 (VNat 9)] [(0, [[1]; [2]])].

(* R1 (ticks) at the last frame of [s_split]: the acknowledgement of message 0 (run stamp 2, tick 2, entity 1) was
   processed at tick 3; entity 1 is in a mutate message of tick 5 again - its component changed in the run of tick 5 *)
Example C11E_ex_R1_instance :
  exists y G, arun (sys_init (e_cfg false) 1) ags_empty s_split12 = Ok (y, G) /\
    match sys_step y s_split_last with
    | Ok (y', OSFrame fo vs) =>
      In (0, mkMI 2 32 [1]) (ag_acked (astep y G s_split_last 0)) /\
      In (mkMut 1 5 1 4 [(1, [(0, VNat 9)])]) (mutates_for 0 (fo_clients fo)) /\
      exists m0 x madd comp tc,
        In (2, m0) (ag_sent (astep y G s_split_last 0)) /\ m_idx m0 = 0 /\ map fst (m_body m0) = [1] /\
        In (1, x, madd) (replicated_ents (y_server y')) /\ In (0, comp) (se_comps x) /\ VNat 9 = c_val comp /\
        In (c_changed comp, tc) (ag_runs (astep y G s_split_last 0)) /\ m_tick m0 < tc /\ tc <= 5
    | _ => False
    end.
Proof.
  destruct (run (sys_init (e_cfg false) 1) s_split12) as [y| |] eqn:Er; [|vm_compute in Er; discriminate..].
  destruct (run_arun _ _ ags_empty _ Er) as [G Ea]. exists y, G. split; [exact Ea|].
  pose proof (arun_arun1 _ _ _ _ _ 0 Ea) as E1. vm_compute in E1. apply e_ok_pair in E1. destruct E1 as [Ey Eg].
  destruct (sys_step y s_split_last) as [[y' o]| |] eqn:Es;
    [|exfalso; rewrite <- Ey in Es; vm_compute in Es; discriminate..].
  destruct (ValHist_proofs.sframe_step_inv _ _ _ _ _ _ _ _ Es) as (fo & vs & -> & _).
  assert (Hfacts : In (0, mkMI 2 32 [1]) (ag_acked (astep y G s_split_last 0)) /\
                   In (mkMut 1 5 1 4 [(1, [(0, VNat 9)])]) (mutates_for 0 (fo_clients fo))).
  { rewrite (astep_pointwise y G s_split_last 0), <- Eg.
    pose proof Es as Es0. rewrite <- Ey in Es0. vm_compute in Es0. apply e_ok_pair in Es0. destruct Es0 as [_ Efo].
    injection Efo as Efo _. rewrite <- Ey, <- Efo. vm_compute. split; left; reflexivity. }
  destruct Hfacts as [F1 F2]. split; [exact F1|]. split; [exact F2|].
  assert (HB : tick_frames (s_split12 ++ [s_split_last]) < 2 ^ 31) by (vm_compute; reflexivity).
  exact (C11E_not_resent_after_ack_ticks (e_cfg false) 1 s_split12 y G true 16 false [SMutate 1 0 (VNat 9)] [(0, [[1]; [2]])]
           y' fo vs 0 0 (mkMI 2 32 [1]) 1 (mkMut 1 5 1 4 [(1, [(0, VNat 9)])]) [(0, VNat 9)] 0 (VNat 9) HB Ea Es F1
           (or_introl eq_refl) F2 (or_introl eq_refl) (or_introl eq_refl)).
Qed.

(* R2 at the frame of tick 3 of [s_split]: the mutate message of entity 2 was lost, no acknowledgement lists entity 2, the
   only update message of the session is older than the change (stamp 1 < 2): entity 2 is sent again *)
Definition s_split_10 : step := efr [] [(0, [[2]])].
Example C11E_ex_R2_instance :
  exists y G, arun (sys_init (e_cfg false) 1) ags_empty s_split_pre = Ok (y, G) /\
    match sys_step y s_split_10 with
    | Ok (y', OSFrame fo vs) =>
      ((exists u en, In u (updates_for 0 (fo_clients fo)) /\ In (2, en) (u_changes u) /\ In (0, VNat 8) en) \/
       (exists m en, In m (mutates_for 0 (fo_clients fo)) /\ In (2, en) (m_body m) /\ In (0, VNat 8) en)) /\
      NoDup (map fst (concat (map m_body (mutates_for 0 (fo_clients fo))))) /\
      mutates_for 0 (fo_clients fo) = [mkMut 1 3 1 2 [(2, [(0, VNat 8)])]] /\ updates_for 0 (fo_clients fo) = []
    | _ => False
    end.
Proof.
  destruct (run (sys_init (e_cfg false) 1) s_split_pre) as [y| |] eqn:Er; [|vm_compute in Er; discriminate..].
  destruct (run_arun _ _ ags_empty _ Er) as [G Ea]. exists y, G. split; [exact Ea|].
  pose proof (arun_arun1 _ _ _ _ _ 0 Ea) as E1. vm_compute in E1. apply e_ok_pair in E1. destruct E1 as [Ey Eg].
  destruct (sys_step y s_split_10) as [[y' o]| |] eqn:Es;
    [|exfalso; rewrite <- Ey in Es; vm_compute in Es; discriminate..].
  destruct (ValHist_proofs.sframe_step_inv _ _ _ _ _ _ _ _ Es) as (fo & vs & -> & _).
  pose proof Es as Es0. rewrite <- Ey in Es0. vm_compute in Es0. apply e_ok_pair in Es0. destruct Es0 as [_ Efo]. injection Efo as Efo _.
  set (pre := frame_pre (y_cfg y) (y_server y) true 16 false []).
  destruct (find_client pre 0) as [clp|] eqn:Hp; [|exfalso; unfold pre in Hp; rewrite <- Ey in Hp; vm_compute in Hp; discriminate].
  pose proof Hp as Hp0. unfold pre in Hp0. rewrite <- Ey in Hp0. vm_compute in Hp0. injection Hp0 as Eclp.
  set (comp := mkComp (VNat 8) 1 2). set (x := mkSEnt true (Some 1) [(0, comp)]).
  assert (Hau : sc_authorized clp = true) by (rewrite <- Eclp; reflexivity).
  assert (Hl : In (2, x, 1) (replicated_ents pre)) by (unfold pre; rewrite <- Ey; vm_compute; auto).
  assert (Hvis : vis_state_of (sfc_vis1 pre clp) 2 <> VHidden) by (unfold pre; rewrite <- Ey, <- Eclp; vm_compute; discriminate).
  assert (Hran : fo_ran fo = true) by (rewrite <- Efo; reflexivity).
  assert (Hack : forall T, acked_at (astep y G s_split_10 0) 2 T -> T < c_changed comp).
  { rewrite (astep_pointwise y G s_split_10 0), <- Eg, <- Ey. intros T (i & info & H1 & H2 & H3).
    vm_compute in H1. destruct H1 as [H1|[]]. inversion H1; subst i info. vm_compute in H2. destruct H2 as [H2|[]]. discriminate. }
  assert (Hreb : forall T, rebased_at (G 0) 2 T -> T < c_changed comp).
  { rewrite <- Eg. intros T (u & H1 & H2). vm_compute in H1. destruct H1 as [H1|[]]. inversion H1; subst T u. reflexivity. }
  assert (HB : tick_frames (s_split_pre ++ [s_split_10]) < 2 ^ 31) by (vm_compute; reflexivity).
  destruct (C11E_resent_until_acked (e_cfg false) 1 s_split_pre y G true 16 false [] [(0, [[2]])] y' fo vs 0 clp 2 x 1 0 comp
              HB Ea Es Hran Hp Hau Hl Hvis (or_introl eq_refl) eq_refl Hack Hreb) as [T1 T2].
  split; [exact T1|]. split; [exact T2|]. rewrite <- Efo. vm_compute. split; reflexivity.
Qed.

(* R3 on the quiet tail, with and without tracking: the settle phase makes the server idle for client 0; after the first
   five steps of [s_quiet] (a silent frame, a late delivery, a client frame, a non-ticking frame with cleanup, the
   acknowledgements) the next frame is silent, and the frame that mutates entity 1 after the whole tail sends *)
Example C11E_ex_R3_instance : forall track : bool,
  script_scoper (e_cfg track) 2 s_settled /\
  exists y G, arun (sys_init (e_cfg track) 2) ags_empty s_settled = Ok (y, G) /\ idle_for (y_server y) 0 /\
  exists ya Ga, arun y G (firstn 5 s_quiet) = Ok (ya, Ga) /\
    match sys_step ya (efr [] []) with
    | Ok (yb, OSFrame fo vs) =>
      fo_ran fo = true /\ cfg_track (y_cfg ya) = track /\ updates_for 0 (fo_clients fo) = [] /\
      (if cfg_track (y_cfg ya) && fo_ran fo
       then exists m, mutates_for 0 (fo_clients fo) = [m] /\ m_body m = [] /\ m_count m = 1 /\ m_tick m = fo_tick fo
       else mutates_for 0 (fo_clients fo) = []) /\
      idle_for (y_server yb) 0
    | _ => False
    end.
Proof.
  intros track.
  assert (Hsc : script_scoper (e_cfg track) 2 (s_body ++ settle_round [0] ++ settle_round [0]))
    by (destruct track; apply scoper_by_bound; vm_compute; reflexivity).
  split; [exact Hsc|].
  destruct (run (sys_init (e_cfg track) 2) s_settled) as [y| |] eqn:Er; [|destruct track; vm_compute in Er; discriminate..].
  destruct (run_arun _ _ ags_empty _ Er) as [G Ea]. exists y, G. split; [exact Ea|].
  assert (Hlive : exists yb0, run (sys_init (e_cfg track) 2) s_body = Ok yb0 /\ livev s_body yb0 0).
  { destruct (run (sys_init (e_cfg track) 2) s_body) as [yb0| |] eqn:Eb; [|destruct track; vm_compute in Eb; discriminate..].
    exists yb0. split; [reflexivity|]. split; [vm_compute; reflexivity|].
    destruct track; vm_compute in Eb; inversion Eb; subst yb0; eexists; eexists; (split; [reflexivity|]); (split; [reflexivity|]);
      (split; [left; reflexivity|split; reflexivity]). }
  pose proof (C11E_idle_after_settle (e_cfg track) 2 s_body [0] 0 y Hsc Er (or_introl eq_refl) Hlive) as Hid.
  split; [exact Hid|].
  destruct (run y (firstn 5 s_quiet)) as [ya| |] eqn:Et;
    [|exfalso; pose proof (arun_arun1 _ _ _ _ _ 0 Ea) as E1; destruct track; vm_compute in E1; apply e_ok_pair in E1; destruct E1 as [Ey _];
      rewrite <- Ey in Et; vm_compute in Et; discriminate..].
  destruct (run_arun _ _ G _ Et) as [Ga Eta]. exists ya, Ga. split; [exact Eta|].
  assert (Eya : exists yc, yc = ya /\ cfg_track (y_cfg yc) = track /\
            match sys_step yc (efr [] []) with Ok (_, OSFrame fo _) => fo_ran fo = true | _ => False end).
  { pose proof (arun_arun1 _ _ _ _ _ 0 Ea) as E1. destruct track; vm_compute in E1; apply e_ok_pair in E1; destruct E1 as [Ey _];
      rewrite <- Ey in Et; vm_compute in Et; injection Et as Et; eexists; (split; [exact Et|]); vm_compute; split; reflexivity. }
  destruct Eya as (yc & -> & Etr & Hst).
  destruct (sys_step ya (efr [] [])) as [[yb o]| |] eqn:Es; try contradiction.
  destruct (ValHist_proofs.sframe_step_inv _ _ _ _ _ _ _ _ Es) as (fo & vs & -> & _).
  split; [exact Hst|]. split; [exact Etr|].
  assert (HB : tick_frames ((s_body ++ settle_round [0] ++ settle_round [0]) ++ firstn 5 s_quiet ++ [StSFrame true 16 false [] []]) < 2 ^ 31)
    by (vm_compute; reflexivity).
  exact (C11E_idle_silent (e_cfg track) 2 s_body [0] 0 y G (firstn 5 s_quiet) ya Ga true 16 false [] yb fo vs
           Hsc Ea (or_introl eq_refl) Hlive eq_refl HB Eta Es).
Qed.

(* R2 at the last frame of [s_cleanup]: the acknowledgement arrived after `cleanup_acks` had dropped the record, so NO
   acknowledgement has been processed (the ghost's list is empty) and the theorem demands the re-send *)
Definition s_cleanup_pre : list step := firstn 12 s_cleanup.
Definition s_cleanup_last : step := efr [] [(0, [[1]])].
Example C11E_ex_R2_cleanup_instance :
  s_cleanup = s_cleanup_pre ++ [s_cleanup_last] /\
  exists y G, arun (sys_init (e_cfg false) 1) ags_empty s_cleanup_pre = Ok (y, G) /\ ag_acked (G 0) = [] /\
    match sys_step y s_cleanup_last with
    | Ok (y', OSFrame fo vs) =>
      ag_acked (astep y G s_cleanup_last 0) = [] /\
      ((exists u en, In u (updates_for 0 (fo_clients fo)) /\ In (1, en) (u_changes u) /\ In (0, VNat 6) en) \/
       (exists m en, In m (mutates_for 0 (fo_clients fo)) /\ In (1, en) (m_body m) /\ In (0, VNat 6) en)) /\
      mutates_for 0 (fo_clients fo) = [mkMut 1 5 1 3 [(1, [(0, VNat 6)])]]
    | _ => False
    end.
Proof.
  split; [reflexivity|].
  destruct (run (sys_init (e_cfg false) 1) s_cleanup_pre) as [y| |] eqn:Er; [|vm_compute in Er; discriminate..].
  destruct (run_arun _ _ ags_empty _ Er) as [G Ea]. exists y, G. split; [exact Ea|].
  pose proof (arun_arun1 _ _ _ _ _ 0 Ea) as E1. vm_compute in E1. apply e_ok_pair in E1. destruct E1 as [Ey Eg].
  split; [rewrite <- Eg; reflexivity|].
  destruct (sys_step y s_cleanup_last) as [[y' o]| |] eqn:Es;
    [|exfalso; rewrite <- Ey in Es; vm_compute in Es; discriminate..].
  destruct (ValHist_proofs.sframe_step_inv _ _ _ _ _ _ _ _ Es) as (fo & vs & -> & _).
  pose proof Es as Es0. rewrite <- Ey in Es0. vm_compute in Es0. apply e_ok_pair in Es0. destruct Es0 as [_ Efo]. injection Efo as Efo _.
  set (pre := frame_pre (y_cfg y) (y_server y) true 16 false []).
  destruct (find_client pre 0) as [clp|] eqn:Hp; [|exfalso; unfold pre in Hp; rewrite <- Ey in Hp; vm_compute in Hp; discriminate].
  pose proof Hp as Hp0. unfold pre in Hp0. rewrite <- Ey in Hp0. vm_compute in Hp0. injection Hp0 as Eclp.
  set (comp := mkComp (VNat 6) 1 2). set (x := mkSEnt true (Some 1) [(0, comp)]).
  assert (Hau : sc_authorized clp = true) by (rewrite <- Eclp; reflexivity).
  assert (Hl : In (1, x, 1) (replicated_ents pre)) by (unfold pre; rewrite <- Ey; vm_compute; auto).
  assert (Hvis : vis_state_of (sfc_vis1 pre clp) 1 <> VHidden) by (unfold pre; rewrite <- Ey, <- Eclp; vm_compute; discriminate).
  assert (Hran : fo_ran fo = true) by (rewrite <- Efo; reflexivity).
  assert (Hnone : ag_acked (astep y G s_cleanup_last 0) = []).
  { rewrite (astep_pointwise y G s_cleanup_last 0), <- Eg, <- Ey. vm_compute. reflexivity. }
  assert (Hack : forall T, acked_at (astep y G s_cleanup_last 0) 1 T -> T < c_changed comp).
  { intros T (i & info & H1 & _). rewrite Hnone in H1. destruct H1. }
  assert (Hreb : forall T, rebased_at (G 0) 1 T -> T < c_changed comp).
  { rewrite <- Eg. intros T (u & H1 & H2). vm_compute in H1. destruct H1 as [H1|[]]. inversion H1; subst T u. reflexivity. }
  assert (HB : tick_frames (s_cleanup_pre ++ [s_cleanup_last]) < 2 ^ 31) by (vm_compute; reflexivity).
  destruct (C11E_resent_until_acked (e_cfg false) 1 s_cleanup_pre y G true 16 false [] [(0, [[1]])] y' fo vs 0 clp 1 x 1 0 comp
              HB Ea Es Hran Hp Hau Hl Hvis (or_introl eq_refl) eq_refl Hack Hreb) as [T1 _].
  split; [exact Hnone|]. split; [exact T1|]. rewrite <- Efo. vm_compute. reflexivity.
Qed.

(* R3, resumption: after the settle phase and the WHOLE quiet tail the frame that mutates entity 1 sends the new value *)
Example C11E_ex_resume_instance : forall track : bool,
  exists y G ya Ga, arun (sys_init (e_cfg track) 2) ags_empty s_settled = Ok (y, G) /\ arun y G s_quiet = Ok (ya, Ga) /\
    match sys_step ya s_resume with
    | Ok (yb, OSFrame fo vs) =>
      (exists u en, In u (updates_for 0 (fo_clients fo)) /\ In (1, en) (u_changes u) /\ In (0, VNat 7) en) \/
      (exists m en, In m (mutates_for 0 (fo_clients fo)) /\ In (1, en) (m_body m) /\ In (0, VNat 7) en)
    | _ => False
    end.
Proof.
  intros track.
  assert (Hsc : script_scoper (e_cfg track) 2 (s_body ++ settle_round [0] ++ settle_round [0]))
    by (destruct track; apply scoper_by_bound; vm_compute; reflexivity).
  destruct (run (sys_init (e_cfg track) 2) s_settled) as [y| |] eqn:Er; [|destruct track; vm_compute in Er; discriminate..].
  destruct (run_arun _ _ ags_empty _ Er) as [G Ea].
  assert (Hlive : exists yb0, run (sys_init (e_cfg track) 2) s_body = Ok yb0 /\ livev s_body yb0 0).
  { destruct (run (sys_init (e_cfg track) 2) s_body) as [yb0| |] eqn:Eb; [|destruct track; vm_compute in Eb; discriminate..].
    exists yb0. split; [reflexivity|]. split; [vm_compute; reflexivity|].
    destruct track; vm_compute in Eb; inversion Eb; subst yb0; eexists; eexists; (split; [reflexivity|]); (split; [reflexivity|]);
      (split; [left; reflexivity|split; reflexivity]). }
  destruct (run y s_quiet) as [ya| |] eqn:Et;
    [|exfalso; pose proof (arun_arun1 _ _ _ _ _ 0 Ea) as E1; destruct track; vm_compute in E1; apply e_ok_pair in E1; destruct E1 as [Ey _];
      rewrite <- Ey in Et; vm_compute in Et; discriminate..].
  destruct (run_arun _ _ G _ Et) as [Ga Eta]. exists y, G, ya, Ga. split; [exact Ea|]. split; [exact Eta|].
  set (old := mkComp (VNat 6) 2 3). set (x := mkSEnt true (Some 2) [(0, old)]).
  assert (Eya : exists yc, yc = ya /\
            (exists cl, find_client (y_server yc) 0 = Some cl /\ vis_state_of (sc_vis cl) 1 <> VHidden) /\
            In (1, x, 2) (replicated_ents (y_server yc)) /\ val_ok (y_server yc) (VNat 7) = true /\
            match sys_step yc s_resume with Ok (_, OSFrame fo _) => fo_ran fo = true | _ => False end).
  { pose proof (arun_arun1 _ _ _ _ _ 0 Ea) as E1. destruct track; vm_compute in E1; apply e_ok_pair in E1; destruct E1 as [Ey _];
      rewrite <- Ey in Et; vm_compute in Et; injection Et as Et; eexists; (split; [exact Et|]);
      (split; [eexists; split; [reflexivity|vm_compute; discriminate]|]); vm_compute; auto. }
  destruct Eya as (yc & -> & (cl & Hf & Hvis) & Hl & Hval & Hst).
  destruct (sys_step ya s_resume) as [[yb o]| |] eqn:Es; try contradiction.
  destruct (ValHist_proofs.sframe_step_inv _ _ _ _ _ _ _ _ Es) as (fo & vs & -> & _).
  assert (HB : tick_frames ((s_body ++ settle_round [0] ++ settle_round [0]) ++ s_quiet ++ [StSFrame true 16 false [SMutate 1 0 (VNat 7)] [(0, [[1]])]]) < 2 ^ 31)
    by (vm_compute; reflexivity).
  exact (C11E_idle_resume (e_cfg track) 2 s_body [0] 0 y G s_quiet ya Ga true 16 false [(0, [[1]])] yb fo vs cl 1 x 2 0 old (VNat 7)
           Hsc Ea (or_introl eq_refl) Hlive eq_refl HB Eta Es Hst Hf Hl Hvis eq_refl Hval eq_refl).
Qed.
