(* C09 end to end, over whole-system runs -- "After a client disconnects and connects again, or the server stops and starts
   again, the new session begins clean: the client is sent the complete visible state and converges as in a first
   connection, nothing received, buffered or queued during the previous session is applied or delivered in the new one, and
   the server keeps nothing of the old session.  Neither side panics whatever was in flight at the moment the session ended."

   Properties/C09.v pins the per-state / per-step facts.  Here: statements about `Sys.run (sys_init c n) script` and
   `erun (syse_init c n) script`.  Proofs: Repl/SessRun_proofs.v, Events/SessRunEv_proofs.v (and Repl/AuthRun_proofs.v for
   the first update message).  Session vocabulary (modes MClean / MLive / MLeft / MStale, `sessions_ok`): Properties/C03F.v.

   B1  client side.
         C09E_client_invariant       EVERY run, every client, no premise: the two run-condition locals agree; a client that
                                     has not run a frame while connected since its last reset has update tick 0, empty entity
                                     maps and nothing buffered; a client that is not connected has empty inboxes
         C09E_client_fresh           with `sessions_ok`, `parts_small`, fewer than 2^31 ticks (the premises of C12E): such a
                                     client also has the pristine mutate-tick record, and has applied no mutate message and
                                     emitted no `MutateTickReceived` since the reset
         C09E_clean_is_initial       a clean slot (and a slot whose `StConnect` had no effect): the replication state of the
                                     client app IS the one of `client_init`; no record, nothing queued, empty ghosts.  The
                                     client frame after the `StDisconnect` makes the slot clean (C03F_left_then_frame), so
                                     this is the state in which the next session starts
         C09E_session_start_ghosts   the connect that starts a session empties the session ghosts (update messages sent /
                                     applied, event messages handed to the backend / to the conversion step)
         C09E_updates_of_session     at every moment of a session: applied ++ inbox ++ link = the update messages sent to the
                                     slot since THIS connect, in order (`uapplied` is a prefix of `usent`)
         C09E_mutates_of_session     every mutate message applied, buffered, received or on its way was sent in THIS session
         C09E_events_of_session      every event handed to game logic came in a message handed to the backend for the slot in
                                     THIS session
         C09E_first_update_of_session  the first update message after a clean moment is the complete visible state,
                                     structure and values (C07E_first_update_complete)
       Converging "as in a first connection": C02G / C01 settle corollaries are stated for MLive slots of `script_okf` scripts
       with any number of sessions; nothing more is needed here.
   B2  server side.
         C09E_disconnect_forgets     `StDisconnect slot` in a run: no record, no queued acknowledgement, empty link, empty
                                     ghosts; world, tick and the other slots untouched
         C09E_connect_is_first_connection  a `StConnect slot` that finds no record creates `fresh_client`: default
                                     acknowledgement bookkeeping, fresh visibility, nothing counted as sent
         C09E_stopped_frame_resets   the frame of a stopped server whose previous frame saw it running: tick 0, no client, no
                                     buffer, no acknowledgement, nothing sent or queued, all ghosts empty.  Compared with
                                     `server_init` the world, the change stamps (`sv_now`, `sv_last_run`), the elapsed time and
                                     the pre-spawn registry are kept, and `sv_dirty` is false (the reset's own change of
                                     `ServerTick` is consumed by that frame) where `server_init` has true
         C09E_last_running_step      only a server frame writes the local `server_just_stopped` reads
       "the run continues like a fresh run": every run-level statement of this development (C03F, C02G, C12E, C11E, C07E, the
       ones above) is about every state of `run (sys_init c n) script` for scripts that may contain any number of
       `StStop` / `StStart`; the suffix after a restart is covered by the same theorems (C09E_ex_stop instantiates them after
       a restart).  A simulation with a fresh system is not proved.
       Premise that cannot be dropped: `sv_last_running = true`.  When the server is started and stopped between two of its
       frames, `server_just_stopped` never fires and the records created in that window survive the stop
       (C09E_witness_stop_without_frame); nothing was ever sent to them, so they still are first-connection records.  This
       is the mirror image of C09_witness_restart_between_frames.
   B3  totality.
         C09E_run_noerr / C09E_erun_noerr   no script makes `run` / `erun` return `Err`: the model has no `Err` outcome at this
                                     level at all.  What the crate logs as an error and drops (undecodable or unexpected
                                     message, unknown mutate index, event for an unmapped entity ...) is rendered as `Ok` with
                                     the message ignored (Layer 0: Properties/C06.v has the `Err` outcomes of the decoders)
         C09E_run_panic_source / C09E_erun_panic_source   a `Panic` can only come from `client_frame` of a CONNECTED client
                                     (the debug assertions of `ConfirmHistory::set_last_tick` and `ServerMutateTicks::confirm`);
                                     every server step, every delivery, every frame of a client that is not connected
                                     succeeds in EVERY state
         C09E_session_ends_total     ending sessions cannot panic whatever is in flight: a script in which client frames are
                                     run only by clients whose session was ended and not restarted succeeds from every state;
                                     in particular `StDisconnect; StCFrame; StConnect` and `StStop; frame; disconnects; StStart`
       OPEN: that the two assertions are not reached by the frame of a connected client in reachable states is not proved
       (it needs the client-side history invariants of C03F / C12E turned from "if the frame succeeds" into "the frame
       succeeds"); all run-level theorems keep `run ... = Ok y` as a hypothesis. *)
From Coq Require Import Permutation.
From RV Require Import Lib.Res Repl.ClientTicks Repl.World Vis.Visibility Repl.Server Repl.ServerSpec Repl.Client Repl.Sys
  Tick.MutateTicks Repl.StructSpec Repl.StructVisSpec Repl.ClientStructSpec Repl.ClientSys_proofs Repl.StructE2E_proofs Repl.StructE2EMut_proofs
  Repl.StructE2ESess_proofs Repl.Session_proofs Repl.MtRunSpec Repl.MtRun_proofs Repl.ValSpec Repl.AuthRun_proofs Repl.SessRun_proofs.
From RV Require Import Events.Remote Events.RemoteSpec Events.Remote_proofs Events.RemoteRun Events.RemoteRunTick_proofs
  Events.SessRunEv_proofs.
Open Scope N_scope.

(* ================================================================== *)
(* B1. the client side                                                *)
(* ================================================================== *)

Theorem C09E_client_invariant : forall c n script y slot cl,
  run (sys_init c n) script = Ok y -> al_get slot (y_clients y) = Some cl ->
  cl_last_connected cl = cl_last_not_disconnected cl /\
  (cl_last_not_disconnected cl = false -> cl_upd_tick cl = 0 /\ cl_s2c cl = [] /\ cl_c2s cl = [] /\ cl_buffered cl = []) /\
  (cl_status cl = Disconnected -> cl_inbox_upd cl = [] /\ cl_inbox_mut cl = []).
Proof. intros c n script y slot cl H Hc. destruct (run_client_sess c n script y slot cl H Hc) as [A B C]. auto. Qed.

Theorem C09E_client_frame_keeps : forall c ops c' out, cl_sess_inv c -> client_frame c ops = Ok (c', out) -> cl_sess_inv c'.
Proof. exact cl_sess_frame. Qed.

Theorem C09E_client_fresh : forall c n script y G slot cl,
  sessions_ok script = true -> parts_small script = true -> tick_frames script < 2 ^ 31 ->
  mrun (sys_init c n) mgs_empty script = Ok (y, G) -> al_get slot (y_clients y) = Some cl ->
  cl_last_not_disconnected cl = false ->
  cl_last_connected cl = false /\ cl_upd_tick cl = 0 /\ cl_s2c cl = [] /\ cl_c2s cl = [] /\ cl_buffered cl = [] /\
  cl_mticks cl = (if cfg_track c then Some mt_default else None) /\
  mg_appl (G slot) = [] /\ mg_evs (G slot) = [].
Proof. exact run_client_fresh. Qed.

Theorem C09E_clean_is_initial : forall c n script y G slot cl,
  sessions_ok script = true -> parts_small script = true -> tick_frames script < 2 ^ 31 ->
  mrun (sys_init c n) mgs_empty script = Ok (y, G) -> al_get slot (y_clients y) = Some cl ->
  mode_of script slot = MClean \/ (mode_of script slot = MLive /\ cl_status cl = Disconnected) ->
  repl_state cl = repl_state (client_init (cfg_track c)) /\
  find_client (y_server y) slot = None /\ l_mut (get_link y slot) = [] /\ l_upd (get_link y slot) = [] /\
  mg_sent (G slot) = [] /\ mg_lost (G slot) = [] /\ mg_appl (G slot) = [] /\ mg_evs (G slot) = [].
Proof. exact run_clean_is_initial. Qed.

Theorem C09E_session_start_ghosts : forall e gu gl slot max e' o,
  find_client (y_server (e_sys e)) slot = None ->
  usent (ustep e gu (EBase (StConnect slot max)) e' o) slot = [] /\
  uapplied (ustep e gu (EBase (StConnect slot max)) e' o) slot = [] /\
  ssent (lstep e gl (EBase (StConnect slot max)) e' o) slot = [] /\
  snow (lstep e gl (EBase (StConnect slot max)) e' o) slot = [].
Proof. exact session_start_ghosts. Qed.

Theorem C09E_updates_of_session : forall c n script e g os slot cl,
  escript_ok script = true -> tick_frames (proj_script script) < 2 ^ 31 ->
  urun (syse_init c n) ug_init script = Ok (e, g, os) ->
  al_get slot (y_clients (e_sys e)) = Some cl -> emode script slot = MLive -> cl_status cl = Connected ->
  usent g slot = uapplied g slot ++ cl_inbox_upd cl ++ l_upd (get_link (e_sys e) slot) /\
  is_prefix (uapplied g slot) (usent g slot) /\
  (forall u, In u (uapplied g slot ++ cl_inbox_upd cl ++ l_upd (get_link (e_sys e) slot)) -> In u (usent g slot)) /\
  cl_upd_tick cl = last_tick (uapplied g slot).
Proof. exact run_updates_of_session. Qed.

Theorem C09E_idle_nothing_in_flight : forall c n script e g os slot cl,
  escript_ok script = true -> tick_frames (proj_script script) < 2 ^ 31 ->
  urun (syse_init c n) ug_init script = Ok (e, g, os) ->
  al_get slot (y_clients (e_sys e)) = Some cl ->
  emode script slot = MClean \/ emode script slot = MLeft \/ (emode script slot = MLive /\ cl_status cl = Disconnected) ->
  chan_s2c e slot = [] /\ inbox_of e slot = [] /\ (emode script slot <> MLeft -> cl_last_connected cl = false).
Proof. exact run_idle_nothing_in_flight. Qed.

Theorem C09E_mutates_of_session : forall c n script y G slot cl,
  sessions_ok script = true -> parts_small script = true -> tick_frames script < 2 ^ 31 ->
  mrun (sys_init c n) mgs_empty script = Ok (y, G) -> al_get slot (y_clients y) = Some cl ->
  mode_of script slot = MLive -> cl_status cl = Connected ->
  forall m, In m (mg_appl (G slot) ++ cl_buffered cl ++ cl_inbox_mut cl ++ l_mut (get_link y slot)) -> In m (mg_sent (G slot)).
Proof. exact run_mutates_of_session. Qed.

Theorem C09E_events_of_session : forall c n script slot ops emit e1 gu1 gl1 os1 e o,
  let st := ECFrame slot ops emit in
  escript_ok (script ++ [st]) = true -> tick_frames (proj_script (script ++ [st])) < 2 ^ 31 ->
  crun (syse_init c n) (ug_init, lg_init) script = Ok (e1, (gu1, gl1), os1) -> syse_step e1 st = Ok (e, o) ->
  emode (script ++ [st]) slot = MLive ->
  forall d, In d (eo_got o) ->
  exists cl m, al_get slot (y_clients (e_sys e)) = Some cl /\ deliverable cl m = Some d /\
               In m (ssent (lstep e1 gl1 st e o) slot) /\ In m (snow (lstep e1 gl1 st e o) slot).
Proof. exact run_events_of_session. Qed.

Theorem C09E_first_update_of_session : forall c n pre y0 slot mid y2 tick dt (cleanup : bool) ops parts y' fo vs r',
  sessions_ok pre = true -> parts_small pre = true -> tick_frames pre < 2 ^ 31 ->
  run (sys_init c n) pre = Ok y0 -> (exists cl, al_get slot (y_clients y0) = Some cl) -> mode_of pre slot = MClean ->
  run y0 mid = Ok y2 -> forallb not_sframe mid = true ->
  sys_step y2 (StSFrame tick dt cleanup ops parts) = Ok (y', OSFrame fo vs) -> fo_ran fo = true ->
  find_client (y_server y') slot = Some r' -> sc_authorized r' = true ->
  struct_equiv (abs_send [] (upd_for slot (fo_clients fo))) (struct_vis (y_server y') r') /\
  (forall e x, repl_get (y_server y') e = Some x -> vis_visible (sc_vis r') e = true ->
     exists u, upd_for slot (fo_clients fo) = Some u /\ u_tick u = sv_tick (y_server y') /\ In (e, all_comps x) (u_changes u)).
Proof. exact run_first_update_of_session. Qed.

(* ================================================================== *)
(* B2. the server side                                                *)
(* ================================================================== *)

Theorem C09E_disconnect_forgets : forall c n script y gs G slot cl,
  erun_s (sys_init c n) [] script = Ok (y, gs) -> mrun (sys_init c n) mgs_empty script = Ok (y, G) ->
  al_get slot (y_clients y) = Some cl ->
  exists y', sys_step y (StDisconnect slot) = Ok (y', ONone) /\
    find_client (y_server y') slot = None /\
    (forall m, In m (sv_inbox_acks (y_server y')) -> fst m <> slot) /\
    get_link y' slot = link_empty /\
    al_get slot (y_clients y') = Some (set_status cl Disconnected) /\
    sent_of slot (ghost_step_s y gs (StDisconnect slot)) = [] /\
    mg_sent (mstep y G (StDisconnect slot) slot) = [] /\ mg_lost (mstep y G (StDisconnect slot) slot) = [] /\
    sv_ents (y_server y') = sv_ents (y_server y) /\ sv_tick (y_server y') = sv_tick (y_server y) /\
    (forall sl, sl <> slot -> find_client (y_server y') sl = find_client (y_server y) sl /\ get_link y' sl = get_link y sl /\
                               al_get sl (y_clients y') = al_get sl (y_clients y)).
Proof. exact run_disconnect_forgets. Qed.

Theorem C09E_connect_is_first_connection : forall c n script y gs G slot max cl,
  erun_s (sys_init c n) [] script = Ok (y, gs) -> mrun (sys_init c n) mgs_empty script = Ok (y, G) ->
  al_get slot (y_clients y) = Some cl -> find_client (y_server y) slot = None -> sv_running (y_server y) = true ->
  exists y', sys_step y (StConnect slot max) = Ok (y', ONone) /\
    find_client (y_server y') slot = Some (fresh_client c slot max) /\
    sc_ticks (fresh_client c slot max) = ct_default /\ sc_pending_map (fresh_client c slot max) = [] /\
    sc_vis (fresh_client c slot max) = (match cfg_auth c with AuthNone => new_vis c | _ => None end) /\
    sc_authorized (fresh_client c slot max) = (match cfg_auth c with AuthNone => true | _ => false end) /\
    al_get slot (y_clients y') = Some (set_status cl Connected) /\
    sent_of slot (ghost_step_s y gs (StConnect slot max)) = [] /\
    mg_sent (mstep y G (StConnect slot max) slot) = [] /\ mg_lost (mstep y G (StConnect slot max) slot) = [].
Proof. exact run_connect_is_first_connection. Qed.

Theorem C09E_stopped_frame_resets : forall c n script y gs G tick dt (cleanup : bool) ops parts,
  erun_s (sys_init c n) [] script = Ok (y, gs) -> mrun (sys_init c n) mgs_empty script = Ok (y, G) ->
  sv_running (y_server y) = false -> sv_last_running (y_server y) = true ->
  exists y' fo, sys_step y (StSFrame tick dt cleanup ops parts) = Ok (y', OSFrame fo []) /\
    fo_clients fo = [] /\ fo_ran fo = false /\
    sv_tick (y_server y') = 0 /\ sv_clients (y_server y') = [] /\ sv_despawn_buf (y_server y') = [] /\
    sv_removal_buf (y_server y') = [] /\ sv_inbox_acks (y_server y') = [] /\ sv_dirty (y_server y') = false /\
    sv_running (y_server y') = false /\ sv_last_running (y_server y') = false /\
    y_clients y' = y_clients y /\
    (forall slot, l_upd (get_link y' slot) = [] /\ l_mut (get_link y' slot) = []) /\
    ghost_step_s y gs (StSFrame tick dt cleanup ops parts) = [] /\
    (forall slot, mg_sent (mstep y G (StSFrame tick dt cleanup ops parts) slot) = [] /\
                  mg_lost (mstep y G (StSFrame tick dt cleanup ops parts) slot) = []).
Proof. exact run_stopped_frame_resets. Qed.

Theorem C09E_last_running_step : forall y st y' o, sys_step y st = Ok (y', o) ->
  match st with
  | StSFrame _ _ _ _ _ => sv_last_running (y_server y') = sv_running (y_server y) /\ sv_running (y_server y') = sv_running (y_server y)
  | _ => sv_last_running (y_server y') = sv_last_running (y_server y)
  end.
Proof. exact last_running_step. Qed.

(* ================================================================== *)
(* B3. totality                                                       *)
(* ================================================================== *)

Theorem C09E_run_noerr : forall script y, run y script <> Err.
Proof. exact run_noerr. Qed.

Theorem C09E_run_panic_source : forall script y, run y script = Panic ->
  exists pre slot ops post y1 cl, script = pre ++ StCFrame slot ops :: post /\ run y pre = Ok y1 /\
    al_get slot (y_clients y1) = Some cl /\ cl_status cl = Connected /\ client_frame cl ops = Panic.
Proof. exact run_panic_source. Qed.

Theorem C09E_session_ends_total : forall script y disc, all_disconnected y disc -> ends_only disc script = true ->
  exists y', run y script = Ok y'.
Proof. exact session_ends_total. Qed.

Theorem C09E_disconnect_then_frame_total : forall y slot ops max,
  exists y', run y [StDisconnect slot; StCFrame slot ops; StConnect slot max] = Ok y'.
Proof. exact disconnect_then_frame_total. Qed.

Theorem C09E_stop_then_frame_total : forall y tick dt (cleanup : bool) ops parts slots,
  exists y', run y (StStop :: StSFrame tick dt cleanup ops parts :: map StDisconnect slots ++ [StStart]) = Ok y'.
Proof. exact stop_then_frame_total. Qed.

Theorem C09E_erun_noerr : forall script e, RemoteSpec.erun e script <> Err.
Proof. exact erun_noerr. Qed.

Theorem C09E_erun_panic_source : forall script e, RemoteSpec.erun e script = Panic ->
  exists pre st post e1 os1 slot ops cl, script = pre ++ st :: post /\ RemoteSpec.erun e pre = Ok (e1, os1) /\
    cframe_of st = Some (slot, ops) /\ al_get slot (y_clients (e_sys e1)) = Some cl /\
    cl_status cl = Connected /\ client_frame cl ops = Panic.
Proof. exact erun_panic_source. Qed.

Print Assumptions C09E_client_invariant.
Print Assumptions C09E_client_frame_keeps.
Print Assumptions C09E_client_fresh.
Print Assumptions C09E_clean_is_initial.
Print Assumptions C09E_session_start_ghosts.
Print Assumptions C09E_updates_of_session.
Print Assumptions C09E_idle_nothing_in_flight.
Print Assumptions C09E_mutates_of_session.
Print Assumptions C09E_events_of_session.
Print Assumptions C09E_first_update_of_session.
Print Assumptions C09E_disconnect_forgets.
Print Assumptions C09E_connect_is_first_connection.
Print Assumptions C09E_stopped_frame_resets.
Print Assumptions C09E_last_running_step.
Print Assumptions C09E_run_noerr.
Print Assumptions C09E_run_panic_source.
Print Assumptions C09E_session_ends_total.
Print Assumptions C09E_disconnect_then_frame_total.
Print Assumptions C09E_stop_then_frame_total.
Print Assumptions C09E_erun_noerr.
Print Assumptions C09E_erun_panic_source.

(* ================================================================== *)
(* the statements are not vacuous                                     *)
(* ================================================================== *)

(* ---- a disconnect with an update message, two mutate messages, an acknowledgement and two event messages in flight (one
        event already received and waiting for its tick), then a client frame, a reconnect and a tick.  Tracking server. ---- *)
Definition xs_cfg : cfg := mkCfg PAll AuthNone true 1000.
Definition xsf (tick : bool) (ops : list sop) (parts : list (N * partition)) (emit : list (sety * (N * bool * bool) * N * option N)) : estep :=
  ESFrame tick 16 false ops parts emit.
Definition xbc : N * bool * bool := (999, false, false).

Definition xs_script : list estep :=
  [EBase StStart; EBase (StConnect 0 1200);
   xsf true [SSpawn 1 true [(0, VNat 5)]] [(0, [[]])] [];
   EBase (StDeliver 0 true 0 All); EBase (StDeliver 0 true 1 All); ECFrame 0 [] [];
   xsf true [SInsert 1 1 (VNat 9)] [(0, [[]])] [(SE0, xbc, 1, None); (SEM, xbc, 2, Some 1)];
   xsf true [SMutate 1 0 (VNat 6)] [(0, [[1]])] [];
   EDeliverS2C 0 SE0 All false;
   EBase (StDisconnect 0);
   ECFrame 0 [] [];
   EBase (StConnect 0 1200);
   xsf true [SMutate 1 0 (VNat 7)] [(0, [[]])] [(SE0, xbc, 3, None)];
   EBase (StDeliver 0 true 0 All); EBase (StDeliver 0 true 1 All); EDeliverS2C 0 SE0 All false; ECFrame 0 [] []].

(* records; queued acknowledgements; per link: ticks of the update messages, ticks of the mutate messages, acknowledgements;
   event messages in flight (numbers); per client: event inbox (numbers), queue length; per client app: status, update
   tick, entity map, buffered mutate messages, `client_just_disconnected` local *)
Definition xs_view (r : res (syse * list eout)) :=
  match r with
  | Ok (e, _) =>
    Some (map sc_slot (sv_clients (y_server (e_sys e))), sv_inbox_acks (y_server (e_sys e)),
          map (fun kl => (fst kl, map u_tick (l_upd (snd kl)), map m_tick (l_mut (snd kl)), l_ack (snd kl))) (y_links (e_sys e)),
          map (fun kq => (fst kq, map sm_seq (snd kq))) (e_s2c e),
          map (fun kc => (fst kc, map sm_seq (ce_inbox (snd kc)), length (ce_queue (snd kc)))) (e_clients e),
          map (fun kc => (fst kc, cl_status (snd kc), cl_upd_tick (snd kc), cl_s2c (snd kc), length (cl_buffered (snd kc)),
                          cl_last_not_disconnected (snd kc))) (y_clients (e_sys e)))
  | _ => None
  end.

(* per step: the update messages sent (tick, changes), the event messages handed to the backend, the events observed *)
Definition xs_obs (r : res (syse * list eout)) :=
  match r with
  | Ok (_, os) =>
    Some (map (fun o => (match eo_base o with
                         | OSFrame fo _ => map (fun co => (co_slot co, option_map (fun u => (u_tick u, u_changes u)) (co_update co),
                                                           map (fun m => (m_tick m, m_idx m)) (co_mutates co))) (fo_clients fo)
                         | _ => []
                         end,
                         map (fun sm => (fst sm, sm_ty (snd sm), sm_tick (snd sm), sm_seq (snd sm))) (eo_sent o), eo_got o)) os)
  | _ => None
  end.

Example C09E_ex_script : escript_ok xs_script = true /\ tick_frames (proj_script xs_script) = 4 /\
  parts_small (proj_script xs_script) = true /\ emode xs_script 0 = MLive /\ emode (firstn 11 xs_script) 0 = MClean.
Proof. vm_compute. repeat split; reflexivity. Qed.

Example C09E_ex_in_flight :
  (* just before the disconnect: update message of tick 2 and mutate messages of ticks 2, 3 queued, acknowledgement [0] on
     its way, event 2 in flight, event 1 received (it waits for tick 2) *)
  xs_view (RemoteSpec.erun (syse_init xs_cfg 1) (firstn 9 xs_script))
    = Some ([0], [], [(0, [2], [2; 3], [[0]])], [(0, [2])], [(0, [1], 0%nat)], [(0, Connected, 1, [(1, 0)], 0%nat, true)]) /\
  (* after `StDisconnect 0`: everything in flight is gone, the server has no record; the client still holds its maps *)
  xs_view (RemoteSpec.erun (syse_init xs_cfg 1) (firstn 10 xs_script))
    = Some ([], [], [(0, [], [], [])], [(0, [])], [(0, [], 0%nat)], [(0, Disconnected, 1, [(1, 0)], 0%nat, true)]) /\
  (* after its next frame: reset *)
  xs_view (RemoteSpec.erun (syse_init xs_cfg 1) (firstn 11 xs_script))
    = Some ([], [], [(0, [], [], [])], [(0, [])], [(0, [], 0%nat)], [(0, Disconnected, 0, [], 0%nat, false)]) /\
  (* the end of the second session so far: update tick 4, the entity mapped again, acknowledgement of the new message 0 *)
  xs_view (RemoteSpec.erun (syse_init xs_cfg 1) xs_script)
    = Some ([0], [], [(0, [], [], [[0]])], [(0, [])], [(0, [], 0%nat)], [(0, Connected, 4, [(1, 1)], 0%nat, true)]).
Proof. vm_compute. repeat split; reflexivity. Qed.

(* the new session is sent the complete state (both components of entity 1 with their current values) at tick 4, mutate
   indices restart at 0, and only event 3 is observed: events 1 and 2 of the first session are never delivered *)
Example C09E_ex_run :
  xs_obs (RemoteSpec.erun (syse_init xs_cfg 1) xs_script) =
  Some [([], [], []); ([], [], []);
        ([(0, Some (1, [(1, [(0, VNat 5)])]), [(1, 0)])], [], []);
        ([], [], []); ([], [], []); ([], [], []);
        ([(0, Some (2, [(1, [(1, VNat 9)])]), [(2, 1)])], [(0, SE0, Some 2, 1); (0, SEM, Some 2, 2)], []);
        ([(0, None, [(3, 2)])], [], []);
        ([], [], []); ([], [], []); ([], [], []); ([], [], []);
        ([(0, Some (4, [(1, [(0, VNat 7); (1, VNat 9)])]), [(4, 0)])], [(0, SE0, Some 4, 3)], []);
        ([], [], []); ([], [], []); ([], [], []); ([], [], [(SE0, 3, None)])].
Proof. vm_compute. reflexivity. Qed.

(* C09E_clean_is_initial instantiated after the client frame that follows the disconnect *)
Example C09E_ex_clean_instance :
  exists y G cl, mrun (sys_init xs_cfg 1) mgs_empty (proj_script (firstn 11 xs_script)) = Ok (y, G) /\
    al_get 0 (y_clients y) = Some cl /\ repl_state cl = repl_state (client_init true) /\
    find_client (y_server y) 0 = None /\ mg_sent (G 0) = [] /\ mg_appl (G 0) = [].
Proof.
  destruct (mrun (sys_init xs_cfg 1) mgs_empty (proj_script (firstn 11 xs_script))) as [[y G]| |] eqn:E;
    [|vm_compute in E; discriminate|vm_compute in E; discriminate].
  destruct (al_get 0 (y_clients y)) as [cl|] eqn:Ec; [|exfalso; vm_compute in E; injection E as <- _; vm_compute in Ec; discriminate].
  exists y, G, cl. split; [reflexivity|]. split; [exact Ec|].
  destruct (C09E_clean_is_initial xs_cfg 1 (proj_script (firstn 11 xs_script)) y G 0 cl) as (A & B & _ & _ & C & _ & D & _);
    try (vm_compute; reflexivity); try assumption.
  - left. vm_compute. reflexivity.
  - auto.
Qed.

(* C09E_first_update_of_session instantiated: pre = the first eleven steps, mid = the reconnect, then the frame of tick 4 *)
Definition xs_frame4 : step := StSFrame true 16 false [SMutate 1 0 (VNat 7)] [(0, [[]])].

Example C09E_ex_first_update :
  exists y0 y2 y' fo vs r',
    run (sys_init xs_cfg 1) (proj_script (firstn 11 xs_script)) = Ok y0 /\ run y0 [StConnect 0 1200] = Ok y2 /\
    sys_step y2 xs_frame4 = Ok (y', OSFrame fo vs) /\ fo_ran fo = true /\
    find_client (y_server y') 0 = Some r' /\ sc_authorized r' = true /\
    struct_equiv (abs_send [] (upd_for 0 (fo_clients fo))) (struct_vis (y_server y') r') /\
    (forall e x, repl_get (y_server y') e = Some x -> vis_visible (sc_vis r') e = true ->
       exists u, upd_for 0 (fo_clients fo) = Some u /\ u_tick u = sv_tick (y_server y') /\ In (e, all_comps x) (u_changes u)).
Proof.
  destruct (run (sys_init xs_cfg 1) (proj_script (firstn 11 xs_script))) as [y0| |] eqn:E0; [|vm_compute in E0; discriminate|vm_compute in E0; discriminate].
  destruct (run y0 [StConnect 0 1200]) as [y2| |] eqn:E2;
    [|exfalso; vm_compute in E0; injection E0 as <-; vm_compute in E2; discriminate|exfalso; vm_compute in E0; injection E0 as <-; vm_compute in E2; discriminate].
  destruct (sys_step y2 xs_frame4) as [[y' o]| |] eqn:E3;
    [|exfalso; vm_compute in E0; injection E0 as <-; vm_compute in E2; injection E2 as <-; vm_compute in E3; discriminate
     |exfalso; vm_compute in E0; injection E0 as <-; vm_compute in E2; injection E2 as <-; vm_compute in E3; discriminate].
  destruct o as [|fo vs| |];
    try (exfalso; vm_compute in E0; injection E0 as <-; vm_compute in E2; injection E2 as <-; vm_compute in E3; discriminate).
  assert (Hran : fo_ran fo = true).
  { vm_compute in E0; injection E0 as <-; vm_compute in E2; injection E2 as <-; vm_compute in E3; injection E3 as _ <- _. reflexivity. }
  destruct (find_client (y_server y') 0) as [r'|] eqn:Ef;
    [|exfalso; vm_compute in E0; injection E0 as <-; vm_compute in E2; injection E2 as <-; vm_compute in E3; injection E3 as <- _ _; vm_compute in Ef; discriminate].
  assert (Ha : sc_authorized r' = true).
  { vm_compute in E0; injection E0 as <-; vm_compute in E2; injection E2 as <-; vm_compute in E3; injection E3 as <- _ _. vm_compute in Ef. injection Ef as <-. reflexivity. }
  assert (Hcl : exists cl, al_get 0 (y_clients y0) = Some cl).
  { vm_compute in E0; injection E0 as <-. eexists. vm_compute. reflexivity. }
  exists y0, y2, y', fo, vs, r'. repeat (split; [first [reflexivity|assumption]|]).
  refine (C09E_first_update_of_session xs_cfg 1 (proj_script (firstn 11 xs_script)) y0 0 [StConnect 0 1200] y2
            true 16 false [SMutate 1 0 (VNat 7)] [(0, [[]])] y' fo vs r' _ _ _ E0 Hcl _ E2 eq_refl E3 Hran Ef Ha); vm_compute; reflexivity.
Qed.

(* C09E_events_of_session instantiated on the last client frame: event 3 came in a message of the second session *)
Example C09E_ex_events_instance :
  exists e1 gu1 gl1 os1 e o, crun (syse_init xs_cfg 1) (ug_init, lg_init) (firstn 16 xs_script) = Ok (e1, (gu1, gl1), os1) /\
    syse_step e1 (ECFrame 0 [] []) = Ok (e, o) /\ eo_got o = [(SE0, 3, None)] /\
    map sm_seq (ssent (lstep e1 gl1 (ECFrame 0 [] []) e o) 0) = [3] /\
    exists cl m, al_get 0 (y_clients (e_sys e)) = Some cl /\ deliverable cl m = Some (SE0, 3, None) /\
                 In m (ssent (lstep e1 gl1 (ECFrame 0 [] []) e o) 0).
Proof.
  destruct (crun (syse_init xs_cfg 1) (ug_init, lg_init) (firstn 16 xs_script)) as [[[e1 [gu1 gl1]] os1]| |] eqn:E1;
    [|vm_compute in E1; discriminate|vm_compute in E1; discriminate].
  destruct (syse_step e1 (ECFrame 0 [] [])) as [[e o]| |] eqn:E2;
    [|exfalso; vm_compute in E1; injection E1 as <- _ _ _; vm_compute in E2; discriminate
     |exfalso; vm_compute in E1; injection E1 as <- _ _ _; vm_compute in E2; discriminate].
  assert (Hg : eo_got o = [(SE0, 3, None)]).
  { vm_compute in E1; injection E1 as <- _ _ _; vm_compute in E2; injection E2 as _ <-. reflexivity. }
  exists e1, gu1, gl1, os1, e, o. split; [reflexivity|]. split; [exact E2|]. split; [exact Hg|]. split.
  - vm_compute in E1; injection E1 as <- _ <- _; vm_compute in E2; injection E2 as <- <-. vm_compute. reflexivity.
  - assert (Hok : escript_ok (firstn 16 xs_script ++ [ECFrame 0 [] []]) = true) by (vm_compute; reflexivity).
    assert (Hb : tick_frames (proj_script (firstn 16 xs_script ++ [ECFrame 0 [] []])) < 2 ^ 31) by (vm_compute; reflexivity).
    assert (Hm : emode (firstn 16 xs_script ++ [ECFrame 0 [] []]) 0 = MLive) by (vm_compute; reflexivity).
    assert (Hin : In (SE0, 3, None) (eo_got o)) by (rewrite Hg; left; reflexivity).
    destruct (C09E_events_of_session xs_cfg 1 (firstn 16 xs_script) 0 [] [] e1 gu1 gl1 os1 e o Hok Hb E1 E2 Hm (SE0, 3, None) Hin)
      as (cl & m & A & B & C & _).
    exists cl, m. auto.
Qed.

(* ---- a server stop with two clients connected and messages in flight; the stopped server runs a frame (reset), the
        clients are disconnected and run a frame, the server is started again, both reconnect ---- *)
Definition xfr9 (tick : bool) (ops : list sop) (parts : list (N * partition)) : step := StSFrame tick 16 false ops parts.

Definition xt_script : list step :=
  [StStart; StConnect 0 1200; StConnect 1 1200;
   xfr9 true [SSpawn 1 true [(0, VNat 5)]] [(0, [[]]); (1, [[]])];
   StDeliver 0 true 0 All; StDeliver 0 true 1 All; StCFrame 0 [];
   xfr9 true [SMutate 1 0 (VNat 6)] [(0, [[1]]); (1, [[1]])];
   StStop;
   xfr9 true [SInsert 1 1 (VNat 2)] [];
   StDisconnect 0; StCFrame 0 []; StDisconnect 1; StCFrame 1 [];
   StStart; StConnect 0 1200; StConnect 1 1200;
   xfr9 true [] [(0, [[]]); (1, [[]])];
   StDeliver 0 true 0 All; StDeliver 0 true 1 All; StCFrame 0 []; StDeliver 1 true 0 All; StDeliver 1 true 1 All; StCFrame 1 []].

(* records, tick, running, last_running, queued acks; per link: update ticks, mutate ticks, acks; per client: mode, status,
   update tick, entity map *)
Definition xt_view (script : list step) (r : res sys) :=
  match r with
  | Ok y => Some (map sc_slot (sv_clients (y_server y)), sv_tick (y_server y), sv_running (y_server y), sv_last_running (y_server y),
                  sv_inbox_acks (y_server y),
                  map (fun kl => (fst kl, map u_tick (l_upd (snd kl)), map m_tick (l_mut (snd kl)), l_ack (snd kl))) (y_links y),
                  map (fun kc => (fst kc, mode_of script (fst kc), cl_status (snd kc), cl_upd_tick (snd kc), cl_s2c (snd kc))) (y_clients y))
  | _ => None
  end.

Example C09E_ex_stop :
  script_okf xt_script = true /\ parts_small xt_script = true /\ tick_frames xt_script = 4 /\
  (* before `StStop`: messages and an acknowledgement in flight *)
  xt_view (firstn 8 xt_script) (run (sys_init xs_cfg 2) (firstn 8 xt_script))
    = Some ([0; 1], 2, true, true, [], [(0, [], [2], [[0]]); (1, [1], [1; 2], [])],
            [(0, MLive, Connected, 1, [(1, 0)]); (1, MLive, Connected, 0, [])]) /\
  (* `StStop`: the links are emptied, the records are still there *)
  xt_view (firstn 9 xt_script) (run (sys_init xs_cfg 2) (firstn 9 xt_script))
    = Some ([0; 1], 2, false, true, [], [(0, [], [], []); (1, [], [], [])],
            [(0, MStale, Connected, 1, [(1, 0)]); (1, MStale, Connected, 0, [])]) /\
  (* the frame of the stopped server: reset (tick 0, no records) although the frame asked for a tick *)
  xt_view (firstn 10 xt_script) (run (sys_init xs_cfg 2) (firstn 10 xt_script))
    = Some ([], 0, false, false, [], [(0, [], [], []); (1, [], [], [])],
            [(0, MStale, Connected, 1, [(1, 0)]); (1, MStale, Connected, 0, [])]) /\
  (* the end: both clients in their second session at tick 1 of the restarted server, holding entity 1 *)
  xt_view xt_script (run (sys_init xs_cfg 2) xt_script)
    = Some ([0; 1], 1, true, true, [], [(0, [], [], [[0]]); (1, [], [], [[0]])],
            [(0, MLive, Connected, 1, [(1, 1)]); (1, MLive, Connected, 1, [(1, 0)])]).
Proof. vm_compute. repeat split; reflexivity. Qed.

(* C09E_stopped_frame_resets instantiated on the state after `StStop` *)
Example C09E_ex_stop_instance :
  exists y gs G y' fo, erun_s (sys_init xs_cfg 2) [] (firstn 9 xt_script) = Ok (y, gs) /\
    mrun (sys_init xs_cfg 2) mgs_empty (firstn 9 xt_script) = Ok (y, G) /\
    sys_step y (nth 9 xt_script StStart) = Ok (y', OSFrame fo []) /\
    sv_tick (y_server y') = 0 /\ sv_clients (y_server y') = [] /\ sv_inbox_acks (y_server y') = [] /\
    ghost_step_s y gs (nth 9 xt_script StStart) = [].
Proof.
  destruct (erun_s (sys_init xs_cfg 2) [] (firstn 9 xt_script)) as [[y gs]| |] eqn:E1; [|vm_compute in E1; discriminate|vm_compute in E1; discriminate].
  destruct (run_mrun (firstn 9 xt_script) (sys_init xs_cfg 2) mgs_empty y (erun_s_run _ _ _ _ _ E1)) as [G E2].
  assert (Hr : sv_running (y_server y) = false) by (vm_compute in E1; injection E1 as <- _; reflexivity).
  assert (Hl : sv_last_running (y_server y) = true) by (vm_compute in E1; injection E1 as <- _; reflexivity).
  destruct (C09E_stopped_frame_resets xs_cfg 2 (firstn 9 xt_script) y gs G true 16 false [SInsert 1 1 (VNat 2)] [] E1 E2 Hr Hl)
    as (y' & fo & S & _ & _ & T & C & _ & _ & A & _ & _ & _ & _ & _ & Gh & _).
  exists y, gs, G, y', fo. split; [reflexivity|]. split; [exact E2|]. split; [exact S|]. auto.
Qed.

(* the theorems of the development apply to the state after the restart (instances: the link invariant of C07E, the
   client invariant, the clean state of slot 0 after its disconnect + frame while the server is stopped) *)
Example C09E_ex_after_restart :
  exists y, run (sys_init xs_cfg 2) xt_script = Ok y /\ link_inv y /\
    (forall slot cl, al_get slot (y_clients y) = Some cl -> cl_sess_inv cl) /\
    exists y1 G1 cl1, mrun (sys_init xs_cfg 2) mgs_empty (firstn 12 xt_script) = Ok (y1, G1) /\ al_get 0 (y_clients y1) = Some cl1 /\
      repl_state cl1 = repl_state (client_init true).
Proof.
  destruct (run (sys_init xs_cfg 2) xt_script) as [y| |] eqn:E; [|vm_compute in E; discriminate|vm_compute in E; discriminate].
  exists y. split; [reflexivity|]. split; [exact (link_run_init xs_cfg 2 xt_script y E)|].
  split; [intros slot cl Hc; exact (run_client_sess xs_cfg 2 xt_script y slot cl E Hc)|].
  destruct (mrun (sys_init xs_cfg 2) mgs_empty (firstn 12 xt_script)) as [[y1 G1]| |] eqn:E1; [|vm_compute in E1; discriminate|vm_compute in E1; discriminate].
  destruct (al_get 0 (y_clients y1)) as [cl1|] eqn:Ec; [|exfalso; vm_compute in E1; injection E1 as <- _; vm_compute in Ec; discriminate].
  exists y1, G1, cl1. split; [reflexivity|]. split; [exact Ec|].
  destruct (C09E_clean_is_initial xs_cfg 2 (firstn 12 xt_script) y1 G1 0 cl1) as (A & _); try (vm_compute; reflexivity); try assumption.
  left. vm_compute. reflexivity.
Qed.

(* ---- why C09E_stopped_frame_resets asks for `sv_last_running = true`: the server is started, a client connects and the
        server is stopped between two server frames.  No frame of the stopped server resets: the record survives, the tick
        is not reset, and after the next start the server replicates to the record (legal script, `sessions_ok`) ---- *)
Definition xw_cfg : cfg := mkCfg PAll AuthNone false 1000.
Definition xw_script : list step :=
  [xfr9 true [] []; StStart; StConnect 0 1200; StStop; xfr9 true [SSpawn 1 true [(0, VNat 5)]] []; xfr9 true [] []; StStart;
   xfr9 true [] []].

Example C09E_witness_stop_without_frame :
  script_okf xw_script = true /\
  xt_view (firstn 4 xw_script) (run (sys_init xw_cfg 1) (firstn 4 xw_script))
    = Some ([0], 1, false, false, [], [(0, [], [], [])], [(0, MStale, Connected, 0, [])]) /\
  xt_view (firstn 6 xw_script) (run (sys_init xw_cfg 1) (firstn 6 xw_script))
    = Some ([0], 3, false, false, [], [(0, [], [], [])], [(0, MStale, Connected, 0, [])]) /\
  xt_view xw_script (run (sys_init xw_cfg 1) xw_script)
    = Some ([0], 4, true, true, [], [(0, [4], [], [])], [(0, MStale, Connected, 0, [])]).
Proof. vm_compute. repeat split; reflexivity. Qed.

(* ---- totality: the two session ends, from the state with everything in flight (before the disconnect / the stop) ---- *)
Example C09E_ex_total :
  (exists e os y', RemoteSpec.erun (syse_init xs_cfg 1) (firstn 9 xs_script) = Ok (e, os) /\
     run (e_sys e) [StDisconnect 0; StCFrame 0 []; StConnect 0 1200] = Ok y') /\
  (exists y y', run (sys_init xs_cfg 2) (firstn 8 xt_script) = Ok y /\
     run y (StStop :: xfr9 true [SInsert 1 1 (VNat 2)] [] :: map StDisconnect [0; 1] ++ [StStart]) = Ok y').
Proof.
  split.
  - destruct (RemoteSpec.erun (syse_init xs_cfg 1) (firstn 9 xs_script)) as [[e os]| |] eqn:E; [|vm_compute in E; discriminate|vm_compute in E; discriminate].
    destruct (C09E_disconnect_then_frame_total (e_sys e) 0 [] 1200) as [y' H]. exists e, os, y'. auto.
  - destruct (run (sys_init xs_cfg 2) (firstn 8 xt_script)) as [y| |] eqn:E; [|vm_compute in E; discriminate|vm_compute in E; discriminate].
    destruct (C09E_stop_then_frame_total y true 16 false [SInsert 1 1 (VNat 2)] [] [0; 1]) as [y' H]. exists y, y'. auto.
Qed.
