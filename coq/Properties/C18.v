(* C18 -- Exporting replicated state into a scene (src/scene.rs replicate_into) yields exactly one
   scene entity per entity marked for replication, carrying exactly one copy of each reflected
   component selected by the replication rules with its current value, and nothing else; exporting
   into a scene that already contains those entities extends them.
   "The result holds no component twice" holds as soon as the scene given as input held no kind twice
   for that entity: a copy of an exported kind that is already there is replaced (C18_replaces_when_present;
   before commit 2fddfe0 it was duplicated), and exporting twice is idempotent (C18_idempotent).
   This file only pins statements; proofs live in Rules/*_proofs.v. *)
From RV Require Import Lib.Res Rules.Rules Rules.Rules_proofs Rules.Scene Rules.Scene_proofs.
Open Scope N_scope.

(* entities of the result = entities of the given scene + replicated entities, each exactly once
   (entities without components included: membership does not depend on w_comps) *)
Theorem C18_entities_exact : forall rules reflectable scene0 world,
  NoDup (map fst scene0) ->
  NoDup (map fst (replicate_into rules reflectable scene0 world)) /\
  forall id, In id (map fst (replicate_into rules reflectable scene0 world)) <->
             In id (map fst scene0) \/ marked_id world id.
Proof. exact replicate_into_entities. Qed.

(* components of a replicated entity: what the scene had of kinds that are NOT exported (a copy of an
   exported kind already in the scene is dropped), then `new`, where `new` has exactly the kinds the
   server selects (select_components = server_world.rs new_archetype) that are reflectable, in that
   order, each once, each with the entity's current value, each named by a matching rule *)
Theorem C18_components_exact : forall rules reflectable scene0 world,
  NoDup (map fst scene0) ->
  forall e, NoDup (map w_id world) -> In e world -> w_marked e = true ->
  exists new,
    map_lookup (w_id e) (replicate_into rules reflectable scene0 world)
      = Some (keep_unexported new (scene_comps (map_lookup (w_id e) scene0)) ++ new) /\
    kinds new = filter (fun k => mem k reflectable) (select_components rules (kinds (w_comps e))) /\
    NoDup (kinds new) /\
    (forall k v, In (k, v) new -> In (k, v) (w_comps e)) /\
    (forall k, In k (kinds new) ->
               exists r, In r rules /\ rule_matches r (kinds (w_comps e)) = true /\ In k (r_comps r)).
Proof. exact replicate_into_components. Qed.

(* no component twice: as soon as the given scene held no kind twice for that entity
   (no condition on the exported kinds any more: copies already present are replaced) *)
Theorem C18_no_duplicates : forall rules reflectable scene0 world,
  NoDup (map fst scene0) ->
  forall e, NoDup (map w_id world) -> In e world -> w_marked e = true ->
  NoDup (kinds (scene_comps (map_lookup (w_id e) scene0))) ->
  exists cs, map_lookup (w_id e) (replicate_into rules reflectable scene0 world) = Some cs /\ NoDup (kinds cs).
Proof. exact replicate_into_no_duplicates. Qed.

(* exact form: the result has a kind twice iff a NON-exported kind was twice in the given scene *)
Theorem C18_no_duplicates_iff : forall rules reflectable scene0 world,
  NoDup (map fst scene0) ->
  forall e, NoDup (map w_id world) -> In e world -> w_marked e = true ->
  exists cs, map_lookup (w_id e) (replicate_into rules reflectable scene0 world) = Some cs /\
    (NoDup (kinds cs) <->
     NoDup (kinds (keep_unexported (exported rules reflectable e) (scene_comps (map_lookup (w_id e) scene0))))).
Proof. exact replicate_into_NoDup_iff. Qed.

(* whole scene *)
Theorem C18_no_duplicates_scene : forall rules reflectable scene0 world,
  NoDup (map fst scene0) -> NoDup (map w_id world) ->
  (forall id cs, In (id, cs) scene0 -> NoDup (kinds cs)) ->
  forall id cs, In (id, cs) (replicate_into rules reflectable scene0 world) -> NoDup (kinds cs).
Proof. exact replicate_into_scene_NoDup. Qed.

(* a kind the scene already holds for a replicated entity and that is exported is replaced: exactly
   one copy in the result, carrying the current value (before commit 2fddfe0: two copies) *)
Theorem C18_replaces_when_present : forall rules reflectable scene0 world,
  NoDup (map fst scene0) ->
  forall e k, NoDup (map w_id world) -> In e world -> w_marked e = true ->
  In k (select_components rules (kinds (w_comps e))) -> mem k reflectable = true ->
  exists cs v, map_lookup (w_id e) (replicate_into rules reflectable scene0 world) = Some cs /\
               count_occ N.eq_dec (kinds cs) k = 1%nat /\
               map_lookup k (w_comps e) = Some v /\ (forall v', In (k, v') cs -> v' = v).
Proof. exact replicate_into_replaces. Qed.

(* exporting twice is idempotent (in the model: the very same association list) *)
Theorem C18_idempotent : forall rules reflectable scene0 world,
  NoDup (map fst scene0) -> NoDup (map w_id world) ->
  replicate_into rules reflectable (replicate_into rules reflectable scene0 world) world =
  replicate_into rules reflectable scene0 world.
Proof. exact replicate_into_idempotent. Qed.

(* entities that are not replicated (unmarked, or unknown to the world) keep exactly what they had *)
Theorem C18_unmarked_untouched : forall rules reflectable scene0 world,
  NoDup (map fst scene0) ->
  forall id, ~ marked_id world id ->
  map_lookup id (replicate_into rules reflectable scene0 world) = map_lookup id scene0.
Proof. exact replicate_into_lookup_other. Qed.

(* exported kinds = replicated kinds restricted to reflectable ones *)
Theorem C18_select_agrees_with_replication : forall rules reflectable e k,
  In k (kinds (exported rules reflectable e)) <->
  In k (select_components rules (kinds (w_comps e))) /\ mem k reflectable = true.
Proof. exact scene_select_agrees_with_replication. Qed.

(* the marker is not exported unless a rule names the marker component itself *)
Theorem C18_marker_not_exported : forall marker rules reflectable e,
  (forall r, In r rules -> ~ In marker (r_comps r)) ->
  ~ In marker (kinds (exported rules reflectable (with_marker marker e))).
Proof. exact marker_not_exported. Qed.

(* ReplicationRules::insert keeps descending priority order; the new rule goes after all rules
   of priority >= its own (creation order preserved among equal priorities); never panics *)
Theorem C18_rules_sorted : forall rules r rules', sorted_desc rules ->
  rules_insert rules r = Ok rules' -> sorted_desc rules'.
Proof. exact rules_insert_keeps_sorted. Qed.

Theorem C18_rules_insert_position : forall rules r, sorted_desc rules ->
  rules_insert rules r =
    Ok (filter (prio_ge (r_priority r)) rules ++ r :: filter (prio_lt (r_priority r)) rules).
Proof. exact rules_insert_sorted_spec. Qed.

Theorem C18_rules_insert_total : forall rules r,
  exists l1 l2, rules = l1 ++ l2 /\ rules_insert rules r = Ok (l1 ++ r :: l2).
Proof. exact rules_insert_ok. Qed.

(* the component loop does not panic when FromReflect is there for what is exported *)
Theorem C18_no_panic : forall rules reflectable nfr scene0 world,
  (forall e k, In e world -> w_marked e = true ->
               In k (selected_from rules (kinds (w_comps e))) -> mem k reflectable = true -> ~ In k nfr) ->
  replicate_into_res rules reflectable nfr scene0 world = Ok (replicate_into rules reflectable scene0 world).
Proof. exact replicate_into_res_ok. Qed.

(* ---------- non-vacuity ---------- *)
(* kinds: 1 = A, 2 = B, 3 = C (replicated, not reflectable), 4 = D (not replicated).
   rules: single A, single B, bundle (A, B), single C -- registered in that order *)
Definition ex_rules : list rule :=
  match rules_insert_all [] [rule_new [1]; rule_new [2]; rule_new [1; 2]; rule_new [3]] with
  | Ok l => l | _ => [] end.
Example C18_ex_rules : ex_rules = [mkRule 2 [1; 2]; mkRule 1 [1]; mkRule 1 [2]; mkRule 1 [3]] /\ sorted_desc ex_rules.
Proof. split; [reflexivity|]. cbn. repeat split; intros b H; repeat (destruct H as [<- | H]; [cbn; lia|]); destruct H. Qed.

(* entity 10: A, B, C, D marked; 11: marked, no components; 12: A but not marked; 13: marked, only B *)
Definition ex_world : list went :=
  [mkWent 10 true [(4, 40); (2, 20); (1, 10); (3, 30)]; mkWent 11 true []; mkWent 12 false [(1, 11)];
   mkWent 13 true [(2, 21)]].

(* overlapping single + bundle rules on one entity: each component once; C skipped (not reflectable),
   D not exported (no rule); 11 present and empty; 12 absent *)
Example C18_ex_fresh :
  replicate_into ex_rules [1; 2; 4] [] ex_world = [(10, [(1, 10); (2, 20)]); (11, []); (13, [(2, 21)])].
Proof. reflexivity. Qed.

(* exporting into a scene that has 10 (with a foreign component 7), 12 and 99: extended, not duplicated *)
Example C18_ex_extend :
  replicate_into ex_rules [1; 2; 4] [(12, [(1, 5)]); (10, [(7, 70)]); (99, [])] ex_world =
  [(12, [(1, 5)]); (10, [(7, 70); (1, 10); (2, 20)]); (99, []); (11, []); (13, [(2, 21)])].
Proof. reflexivity. Qed.

Example C18_ex_hypotheses :
  NoDup (map w_id ex_world) /\ Forall (fun e => NoDup (kinds (w_comps e))) ex_world /\
  In (mkWent 10 true [(4, 40); (2, 20); (1, 10); (3, 30)]) ex_world /\ marked_id ex_world 11 /\ ~ marked_id ex_world 12.
Proof.
  split; [repeat constructor; cbn; intuition discriminate|].
  split; [repeat constructor; cbn; intuition discriminate|].
  split; [left; reflexivity|]. split.
  - exists (mkWent 11 true []). split; [right; left; reflexivity|split; reflexivity].
  - intros [e [H [Hm Hid]]]. cbn in H. repeat (destruct H as [<- | H]; [cbn in *; discriminate|]). destruct H.
Qed.

(* exporting twice into the same scene (or into a scene loaded from a previous export): same result
   (before the fix: every exported component doubled and the scene could not be read back) *)
Example C18_ex_export_twice :
  let once := replicate_into ex_rules [1; 2; 4] [] ex_world in
  replicate_into ex_rules [1; 2; 4] once ex_world =
  [(10, [(1, 10); (2, 20)]); (11, []); (13, [(2, 21)])].
Proof. reflexivity. Qed.

(* a stale copy of an exported kind (even a doubled one) is replaced by the current value and moves to
   the end; a doubled NON-exported kind (7) stays doubled *)
Example C18_ex_replace :
  replicate_into ex_rules [1; 2; 4] [(10, [(2, 99); (7, 70); (2, 98); (7, 71)])] ex_world =
  [(10, [(7, 70); (7, 71); (1, 10); (2, 20)]); (11, []); (13, [(2, 21)])].
Proof. reflexivity. Qed.

(* POSSIBLE FINDING (minor, needs an unusual registration): a replication rule on `Replicated`
   itself (kind 100) makes the marker part of the exported scene (confirmed on the real code) *)
Example C18_ex_marker_rule :
  replicate_into_m 100 [mkRule 1 [1]; mkRule 1 [100]] [1; 100] [] [mkWent 5 true [(1, 1)]]
  = [(5, [(1, 1); (100, 0)])] /\
  replicate_into_m 100 [mkRule 1 [1]] [1; 100] [] [mkWent 5 true [(1, 1)]] = [(5, [(1, 1)])].
Proof. split; reflexivity. Qed.

(* where a new rule lands among equal priorities: after them (creation order), as in the crate's
   `registration` unit test: priorities 1,2,1,2,1,4,1,2 by creation -> creation indices in final order *)
Example C18_ex_registration_order :
  rules_insert_all [] [mkRule 1 [0]; mkRule 2 [1]; mkRule 1 [2]; mkRule 2 [3]; mkRule 1 [4]; mkRule 4 [5]; mkRule 1 [6]; mkRule 2 [7]]
  = Ok [mkRule 4 [5]; mkRule 2 [1]; mkRule 2 [3]; mkRule 2 [7]; mkRule 1 [0]; mkRule 1 [2]; mkRule 1 [4]; mkRule 1 [6]].
Proof. reflexivity. Qed.

(* the `unwrap_or_default` quirk of the `Ok(index)` arm in isolation: had the search reported the
   FIRST of three equal priorities, the rule would land second, not last.  The binary search of
   the std in use always reports the last one (Rules_proofs.binary_search_rules_AB), so this arm
   is only ever entered with index = end of the run. *)
Example C18_ex_insert_found_quirk :
  insert_found [mkRule 1 [0]; mkRule 1 [1]; mkRule 1 [2]] (mkRule 1 [9]) 0
  = Ok [mkRule 1 [0]; mkRule 1 [9]; mkRule 1 [1]; mkRule 1 [2]] /\
  binary_search_by (rule_cmp 1) [mkRule 1 [0]; mkRule 1 [1]; mkRule 1 [2]] = Found 2 /\
  rules_insert [mkRule 1 [0]; mkRule 1 [1]; mkRule 1 [2]] (mkRule 1 [9])
  = Ok [mkRule 1 [0]; mkRule 1 [1]; mkRule 1 [2]; mkRule 1 [9]].
Proof. repeat split; reflexivity. Qed.

(* FromReflect missing on an exported kind: panic *)
Example C18_ex_panic : replicate_into_res ex_rules [1; 2; 4] [2] [] ex_world = Panic.
Proof. reflexivity. Qed.

(* RemovalBuffer::update: B removed from an entity that keeps A: bundle (A,B) and single B match,
   B registered once; a second call in the same tick merges *)
Example C18_ex_removal :
  removal_update [] ex_rules [1] 10 [2] = [(10, [2])] /\
  removal_update [(10, [2])] ex_rules [] 10 [1] = [(10, [2; 1])] /\
  removal_update [(10, [2])] ex_rules [1] 10 [4] = [(10, [2])].
Proof. repeat split; reflexivity. Qed.

Check C18_entities_exact.
Check C18_components_exact.
Print Assumptions C18_entities_exact.
Print Assumptions C18_components_exact.
Print Assumptions C18_no_duplicates.
Print Assumptions C18_no_duplicates_scene.
Print Assumptions C18_no_duplicates_iff.
Print Assumptions C18_replaces_when_present.
Print Assumptions C18_idempotent.
Print Assumptions C18_unmarked_untouched.
Print Assumptions C18_select_agrees_with_replication.
Print Assumptions C18_marker_not_exported.
Print Assumptions C18_rules_sorted.
Print Assumptions C18_rules_insert_position.
Print Assumptions C18_rules_insert_total.
Print Assumptions C18_no_panic.

(* default priority of a single-component rule in the current source *)
Theorem C18_default_priority_pinned : (RV.Generated.Params.default_priority_single = 1)%N.
Proof. exact default_priority_pinned. Qed.
Print Assumptions C18_default_priority_pinned.
