(* C03, client half and end to end -- "Structural changes arrive atomically and in server order: at every
   moment the set of entities a client holds for the server's replicated entities, and the set of component
   kinds on each, equals the server's at the tick of the last update message the client applied."

   Server half: Properties/C03S.v (every update message is the structural diff; ghost `g_sent`).
   Here:  A. the client model (Repl/Client.v) applies an update message as `abs_apply` (Repl/StructSpec.v);
             mutate messages, client operations and the bookkeeping steps keep the structure;
          B. composition over whole-system runs (Repl/Sys.v `run` from `sys_init`).
   Vocabulary: Repl/ClientStructSpec.v
     client_struct c      mapped server entity -> kinds of the client entity (alive and marked only)
     cs_inv c             entity maps are inverse bijections, unique ids, every mapped client entity exists
                          and is alive, an entity without the marker is blank (no components, no history)
     cop_safe / cops_safe a client-side despawn only hits a pre-spawned entity nothing maps to
     pre_unmapped         no pre-spawned entity is mapped (holds along runs without pre-spawn mappings)
     mut_safe / mut_ok    every buffered mutate message that will be applied only names kinds the entity has,
                          unless the entity was confirmed at that tick or later (ticks below 2^31); or no buffer
   Proofs: Repl/ClientStruct_proofs.v, Repl/StructE2E_proofs.v.

   Scope of B: policy PAll, legal scripts, single session (no StStop / StDisconnect), no SMap operation
   (so no pre-spawn mapping in any update message), and either
     (B1-B3)  mutate messages are never delivered (they may be queued and dropped), any number of ticks, or
     (B4-B6)  mutate messages are delivered in any order with losses, fewer than 2^31 ticking server frames
              (replicon ticks do not wrap): the history argument (A6) shows they never change the structure.
   Out of scope: see the counterexamples at the end for why each restriction of A is needed. *)
From RV Require Import Lib.Res Repl.ClientTicks Repl.World Vis.Visibility Repl.Server Repl.ServerSpec
  Repl.StructSpec Repl.Client Repl.Sys Repl.Client_proofs Repl.ClientStructSpec Repl.ClientStruct_proofs
  Repl.ClientHist_proofs Repl.ClientMaps_proofs Repl.StructE2E_proofs Repl.StructE2EMut_proofs.
Open Scope N_scope.

(* ---- A1. reading `client_struct` ---- *)
Theorem C03E_client_struct_get : forall c e, NoDup (al_keys (cl_s2c c)) ->
  al_get e (client_struct c) =
  match al_get e (cl_s2c c) with
  | Some cid =>
    match get_cent c cid with
    | Some x => if ce_alive x && ce_marker x then Some (map fst (ce_comps x)) else None
    | None => None
    end
  | None => None
  end.
Proof. exact al_get_client_struct. Qed.

Theorem C03E_init : forall track, cs_inv (client_init track) /\ client_struct (client_init track) = [].
Proof. intros track. split; [exact (cs_inv_init track)|reflexivity]. Qed.

(* ---- A2. the client step: an update message without pre-spawn mappings ---- *)
Theorem C03E_update_message : forall c u c',
  cs_inv c -> u_maps u = [] -> apply_update_message c u = Ok c' ->
  struct_equiv (client_struct c') (abs_apply (client_struct c) u) /\ cs_inv c' /\ cl_upd_tick c' = u_tick u.
Proof. exact update_message_struct. Qed.

(* ... it is never aborted half way *)
Theorem C03E_update_message_completes : forall c u c',
  cs_inv c -> u_maps u = [] -> apply_update_message c u = Ok c' -> ClientEnt_proofs.update_completes c u c'.
Proof.
  intros c u c' Hinv Hm H.
  exact (proj2 (proj2 (proj2 (update_message_srel c (client_struct c) u c' Hinv (srel_self c (cs_inv_nodup c Hinv)) Hm H)))).
Qed.

(* ... and with pre-spawn mappings, when each mapping concerns a server entity the client does not know,
   which occurs in the changes array of the same message, and a pre-spawned entity that is neither marked
   nor mapped ([map_step_ok], checked along the mappings in order by [maps_ok]) - at the moment the mappings
   are applied: [maps_pre c u] is the client after the despawn records of the message (since the repair of
   defect D30 they come first; before, the premise was about the client before the message) *)
Theorem C03E_update_message_maps : forall c u c',
  cs_inv c -> maps_ok (maps_pre c u) (u_maps u) ->
  (forall e, In e (map fst (u_maps u)) -> In e (map fst (u_changes u))) ->
  apply_update_message c u = Ok c' ->
  struct_equiv (client_struct c') (abs_apply (client_struct c) u) /\ cs_inv c' /\ cl_upd_tick c' = u_tick u.
Proof. exact update_message_struct_maps. Qed.

Theorem C03E_update_message_one_map : forall c u c' e pc,
  cs_inv c -> u_maps u = [(e, pc)] -> map_step_ok (maps_pre c u) e pc -> In e (map fst (u_changes u)) ->
  apply_update_message c u = Ok c' ->
  struct_equiv (client_struct c') (abs_apply (client_struct c) u) /\ cs_inv c' /\ cl_upd_tick c' = u_tick u.
Proof. exact update_message_struct_one_map. Qed.

(* the abstract effect respects extensional equality *)
Theorem C03E_abs_apply_equiv : forall S1 S2 u, struct_equiv S1 S2 -> struct_equiv (abs_apply S1 u) (abs_apply S2 u).
Proof. exact abs_apply_equiv. Qed.

(* ---- A3. mutate messages keep the structure ---- *)
Theorem C03E_mutate_messages : forall c c' out,
  cs_inv c -> mut_safe c -> apply_mutate_messages c = Ok (c', out) ->
  struct_equiv (client_struct c') (client_struct c) /\ cs_inv c'.
Proof. exact mutate_messages_struct. Qed.

(* ---- A4. client operations and the bookkeeping steps ---- *)
Theorem C03E_cop : forall c op, cs_inv c -> cop_safe c op = true ->
  cs_inv (apply_cop c op) /\ (forall e, cs_get (apply_cop c op) e = cs_get c e).
Proof. exact cop_step. Qed.

Theorem C03E_cop_safe_when_unmapped : forall c op, cs_inv c -> pre_unmapped c -> cop_safe c op = true.
Proof. exact pre_unmapped_cop_safe. Qed.

Theorem C03E_bookkeeping : forall c,
  cs_inv c ->
  (cs_inv (client_reset c) /\ client_struct (client_reset c) = []) /\
  (forall st, cs_inv (set_status c st) /\ client_struct (set_status c st) = client_struct c) /\
  (cs_inv (set_locals c) /\ client_struct (set_locals c) = client_struct c) /\
  (forall u, cs_inv (deliver_update c u) /\ client_struct (deliver_update c u) = client_struct c) /\
  (forall m, cs_inv (deliver_mutate c m) /\ client_struct (deliver_mutate c m) = client_struct c).
Proof.
  intros c H. split; [split; [exact (cs_inv_reset c H)|reflexivity]|].
  split; [intros st; split; [exact (cs_inv_set_status c st H)|exact (client_struct_set_status c st)]|].
  split; [split; [exact (cs_inv_set_locals c H)|exact (client_struct_set_locals c)]|].
  split; [intros u; split; [exact (cs_inv_deliver_update c u H)|exact (client_struct_deliver_update c u)]|].
  intros m; split; [exact (cs_inv_deliver_mutate c m H)|exact (client_struct_deliver_mutate c m)].
Qed.

(* ---- A5. the client frame ---- *)
Theorem C03E_client_frame : forall c ops c' out,
  cs_inv c -> cl_status c = Connected ->
  forallb no_maps (cl_inbox_upd c) = true ->
  (forall c1, fold_left (res_step apply_update_message) (cl_inbox_upd c) (Ok c) = Ok c1 -> mut_ok (merge_mut_inbox c1)) ->
  (forall c2 out2, apply_replication c = Ok (c2, out2) -> cops_safe c2 ops = true) ->
  client_frame c ops = Ok (c', out) ->
  struct_equiv (client_struct c') (fold_left abs_apply (cl_inbox_upd c) (client_struct c)) /\ cs_inv c' /\ cl_inbox_upd c' = [].
Proof. exact frame_struct. Qed.

Theorem C03E_client_frame_no_mutations : forall c ops c' out,
  cs_inv c -> cl_status c = Connected ->
  forallb no_maps (cl_inbox_upd c) = true ->
  cl_inbox_mut c = [] -> cl_buffered c = [] ->
  (forall c2 out2, apply_replication c = Ok (c2, out2) -> cops_safe c2 ops = true) ->
  client_frame c ops = Ok (c', out) ->
  struct_equiv (client_struct c') (fold_left abs_apply (cl_inbox_upd c) (client_struct c)) /\ cs_inv c' /\ cl_inbox_upd c' = [].
Proof. exact frame_struct_no_mutations. Qed.

(* ---- A6. the history argument: why an old mutate message cannot change the structure ---- *)

(* an update message keeps the history invariant: every replicated entity the client holds has been
   confirmed at the tick of the last applied message that mentioned it, or later *)
Theorem C03E_update_message_hist : forall c u c' applied,
  cs_inv c -> u_maps u = [] -> apply_update_message c u = Ok c' ->
  ent_hist_ok applied c -> (forall u0, In u0 applied -> u_tick u0 <= u_tick u) ->
  ent_hist_ok (applied ++ [u]) c'.
Proof. exact update_message_hist. Qed.

(* ... and so do mutate messages (ticks below 2^31) *)
Theorem C03E_mutate_messages_hist : forall applied c c' out,
  cs_inv c /\ hist_small c /\ ent_hist_ok applied c ->
  (forall m, In m (cl_buffered c) -> small_tick (m_tick m)) ->
  apply_mutate_messages c = Ok (c', out) ->
  cs_inv c' /\ hist_small c' /\ ent_hist_ok applied c'.
Proof. exact mutate_messages_hist. Qed.

(* the history invariant and what the server guarantees about its mutate messages ([mmsg_ok]) give [mut_safe] *)
Theorem C03E_history_mut_safe : forall c applied pend,
  cs_inv c -> struct_equiv (client_struct c) (fold_left abs_apply applied []) -> ent_hist_ok applied c -> hist_small c ->
  ticks_incr (applied ++ pend) -> (forall u, In u (applied ++ pend) -> small_tick (u_tick u)) ->
  (applied <> [] -> cl_upd_tick c = u_tick (last applied dflt_upd)) ->
  (forall m, In m (cl_buffered c) -> mmsg_ok (applied ++ pend) m) ->
  mut_safe c.
Proof.
  intros c applied pend Hinv Hrel. apply history_mut_safe; [exact Hinv|].
  apply srel_struct_equiv; [exact (cs_inv_nodup c Hinv)|exact Hrel].
Qed.

(* a whole client frame under the history invariant: update messages, mutate messages, client operations *)
Theorem C03E_client_frame_hist : forall c applied lupd ops c' out,
  hist_pre c applied lupd -> cl_status c = Connected -> client_frame c ops = Ok (c', out) ->
  cs_inv c' /\ pu c' /\
  struct_equiv (client_struct c') (fold_left abs_apply (applied ++ cl_inbox_upd c) []) /\
  ent_hist_ok (applied ++ cl_inbox_upd c) c' /\ hist_small c' /\
  (applied ++ cl_inbox_upd c <> [] -> cl_upd_tick c' = u_tick (last (applied ++ cl_inbox_upd c) dflt_upd)) /\
  cl_inbox_upd c' = [] /\ cl_inbox_mut c' = [] /\ cl_status c' = Connected /\
  (forall m, In m (cl_buffered c') -> In m (cl_inbox_mut c ++ cl_buffered c)).
Proof.
  intros c applied lupd ops c' out Hp Hc H.
  destruct (frame_hist c applied lupd ops c' out Hp Hc H) as (A & B & C & D).
  split; [exact A|]. split; [exact B|]. split; [|exact D]. apply srel_struct_equiv; [exact (cs_inv_nodup c' A)|exact C].
Qed.

(* ---- B. whole-system runs ---- *)

(* the run with its ghost is the run *)
Theorem C03E_erun_is_run :
  (forall script y gs y' gs', erun y gs script = Ok (y', gs') -> run y script = Ok y') /\
  (forall script y gs y', run y script = Ok y' -> exists gs', erun y gs script = Ok (y', gs')).
Proof. split; [exact erun_run|exact run_erun]. Qed.

(* the ghost of a whole-system run is the `g_sent` of the server-only run (`grun`, C03S) of the projected
   script: C03S_run_invariant / C03S_run_sends_diffs apply to it *)
Theorem C03E_ghost_is_grun : forall cfg0 nclients script y gs,
  single_session script = true -> erun (sys_init cfg0 nclients) [] script = Ok (y, gs) ->
  grun cfg0 ginit (proj_script (sys_init cfg0 nclients) script) = Ok (mkG (y_server y) gs).
Proof. exact erun_grun_init. Qed.

Theorem C03E_script_ok : forall script,
  script_ok script = legal script && single_session script && no_smap script && no_mut_delivery script.
Proof. exact script_ok_split. Qed.

(* B1. first in, first out, atomically: the messages sent to a connected client are [applied] followed by
       its inbox and its queue; its structure is the fold of [applied]; the whole list folds to the ghost
       of the slot (which satisfies the server invariant `ginv` of C03S); every non-empty prefix is the
       server's structure at an earlier moment of the same run, at the tick of the prefix's last message *)
Theorem C03E_fifo : forall cfg0 nclients, cfg_policy cfg0 = PAll ->
  forall script y gs slot c,
  script_ok script = true -> erun (sys_init cfg0 nclients) [] script = Ok (y, gs) ->
  al_get slot (y_clients y) = Some c -> cl_status c = Connected ->
  exists applied,
    struct_equiv (client_struct c) (fold_left abs_apply applied []) /\
    fold_left abs_apply (applied ++ cl_inbox_upd c ++ l_upd (get_link y slot)) [] = sent_of slot gs /\
    (applied <> [] -> cl_upd_tick c = u_tick (last applied dflt_upd)) /\
    (forall p q, applied ++ cl_inbox_upd c ++ l_upd (get_link y slot) = p ++ q -> p <> [] ->
       exists pre post y1, script = pre ++ post /\ run (sys_init cfg0 nclients) pre = Ok y1 /\
         struct_equiv (fold_left abs_apply p []) (struct_of (y_server y1)) /\
         u_tick (last p dflt_upd) = sv_tick (y_server y1)).
Proof. exact e2e_fifo. Qed.

Theorem C03E_ghost_invariant : forall cfg0 nclients, cfg_policy cfg0 = PAll ->
  forall script y gs, script_ok script = true -> erun (sys_init cfg0 nclients) [] script = Ok (y, gs) ->
  ginv (mkG (y_server y) gs).
Proof. intros cfg0 n Hpol script y gs Hok H. exact (ei_ginv cfg0 n script y gs (e2e_run cfg0 n Hpol script y gs Hok H)). Qed.

(* B2. applying everything in flight gives what the server has sent *)
Theorem C03E_in_flight : forall cfg0 nclients, cfg_policy cfg0 = PAll ->
  forall script y gs slot c,
  script_ok script = true -> erun (sys_init cfg0 nclients) [] script = Ok (y, gs) ->
  al_get slot (y_clients y) = Some c -> cl_status c = Connected ->
  struct_equiv (fold_left abs_apply (cl_inbox_upd c ++ l_upd (get_link y slot)) (client_struct c)) (sent_of slot gs).
Proof. exact e2e_in_flight. Qed.

(* B3. C03 itself, without any ghost: at every moment the client's structure is empty or the server's
       structure at an earlier moment of the run, whose tick is the client's update tick *)
Theorem C03E_every_moment : forall cfg0 nclients, cfg_policy cfg0 = PAll ->
  forall script y slot c,
  script_ok script = true -> run (sys_init cfg0 nclients) script = Ok y ->
  al_get slot (y_clients y) = Some c ->
  struct_equiv (client_struct c) [] \/
  exists pre post y1, script = pre ++ post /\ run (sys_init cfg0 nclients) pre = Ok y1 /\
    struct_equiv (client_struct c) (struct_of (y_server y1)) /\ cl_upd_tick c = sv_tick (y_server y1).
Proof. exact e2e_every_moment. Qed.

(* ---- B4-B6. the same with mutate messages delivered in any order, with losses ---- *)

Theorem C03E_script_okm : forall script,
  script_okm script = legal script && single_session script && no_smap script.
Proof. exact script_okm_split. Qed.

Theorem C03E_fifo_mut : forall cfg0 nclients, cfg_policy cfg0 = PAll ->
  forall script y gs slot c,
  script_okm script = true -> tick_frames script < 2 ^ 31 ->
  erun (sys_init cfg0 nclients) [] script = Ok (y, gs) ->
  al_get slot (y_clients y) = Some c -> cl_status c = Connected ->
  ginv (mkG (y_server y) gs) /\
  exists applied,
    struct_equiv (client_struct c) (fold_left abs_apply applied []) /\
    fold_left abs_apply (applied ++ cl_inbox_upd c ++ l_upd (get_link y slot)) [] = sent_of slot gs /\
    (applied <> [] -> cl_upd_tick c = u_tick (last applied dflt_upd)) /\
    ticks_incr (applied ++ cl_inbox_upd c ++ l_upd (get_link y slot)) /\
    (forall p q, applied ++ cl_inbox_upd c ++ l_upd (get_link y slot) = p ++ q -> p <> [] ->
       exists pre post y1, script = pre ++ post /\ run (sys_init cfg0 nclients) pre = Ok y1 /\
         struct_equiv (fold_left abs_apply p []) (struct_of (y_server y1)) /\
         u_tick (last p dflt_upd) = sv_tick (y_server y1)).
Proof. exact m_fifo. Qed.

Theorem C03E_in_flight_mut : forall cfg0 nclients, cfg_policy cfg0 = PAll ->
  forall script y gs slot c,
  script_okm script = true -> tick_frames script < 2 ^ 31 ->
  erun (sys_init cfg0 nclients) [] script = Ok (y, gs) ->
  al_get slot (y_clients y) = Some c -> cl_status c = Connected ->
  struct_equiv (fold_left abs_apply (cl_inbox_upd c ++ l_upd (get_link y slot)) (client_struct c)) (sent_of slot gs).
Proof. exact m_in_flight. Qed.

(* C03 end to end: updates and mutations delivered, in any interleaving the channels allow *)
Theorem C03E_every_moment_mut : forall cfg0 nclients, cfg_policy cfg0 = PAll ->
  forall script y slot c,
  script_okm script = true -> tick_frames script < 2 ^ 31 ->
  run (sys_init cfg0 nclients) script = Ok y ->
  al_get slot (y_clients y) = Some c ->
  struct_equiv (client_struct c) [] \/
  exists pre post y1, script = pre ++ post /\ run (sys_init cfg0 nclients) pre = Ok y1 /\
    struct_equiv (client_struct c) (struct_of (y_server y1)) /\ cl_upd_tick c = sv_tick (y_server y1).
Proof. exact m_every_moment. Qed.

Print Assumptions C03E_client_struct_get.
Print Assumptions C03E_init.
Print Assumptions C03E_update_message.
Print Assumptions C03E_update_message_completes.
Print Assumptions C03E_update_message_maps.
Print Assumptions C03E_update_message_one_map.
Print Assumptions C03E_abs_apply_equiv.
Print Assumptions C03E_mutate_messages.
Print Assumptions C03E_cop.
Print Assumptions C03E_cop_safe_when_unmapped.
Print Assumptions C03E_bookkeeping.
Print Assumptions C03E_client_frame.
Print Assumptions C03E_client_frame_no_mutations.
Print Assumptions C03E_erun_is_run.
Print Assumptions C03E_script_ok.
Print Assumptions C03E_ghost_is_grun.
Print Assumptions C03E_fifo.
Print Assumptions C03E_ghost_invariant.
Print Assumptions C03E_in_flight.
Print Assumptions C03E_every_moment.
Print Assumptions C03E_update_message_hist.
Print Assumptions C03E_mutate_messages_hist.
Print Assumptions C03E_history_mut_safe.
Print Assumptions C03E_client_frame_hist.
Print Assumptions C03E_script_okm.
Print Assumptions C03E_fifo_mut.
Print Assumptions C03E_in_flight_mut.
Print Assumptions C03E_every_moment_mut.

(* ---- the statements are not vacuous ---- *)

Definition ex_cfg : cfg := mkCfg PAll AuthNone false 1000.
Definition sfr (tick : bool) (ops : list sop) : step := StSFrame tick 10 false ops [].

(* two clients, four ticks, partial deliveries, a late joiner (slot 1), dropped mutate messages,
   an entity reference, a removal and a despawn *)
Definition ex_script : list step :=
  [StStart; StConnect 0 1200;
   sfr true [SSpawn 1 true [(0, VNat 1); (1, VNat 2)]];
   StDeliver 0 true 0 First; StCFrame 0 [];
   sfr true [SInsert 1 2 (VNat 3); SSpawn 2 true [(3, VRef 1)]];
   sfr true [SRemove 1 0; SDespawn 2; SMutate 1 1 (VNat 9)];
   StConnect 1 1200;
   sfr true [SSpawn 3 true []];
   StDrop 0 true 1 All;
   StDeliver 0 true 0 First; StCFrame 0 [CPrespawn 9];
   StDeliver 1 true 0 All; StCFrame 1 []].

(* per client: slot, update tick, structure, inbox length, queue length; server structure, server tick *)
Definition ex_view (r : res sys) :=
  match r with
  | Ok y => Some (map (fun sc => (fst sc, cl_upd_tick (snd sc), client_struct (snd sc),
                                  length (cl_inbox_upd (snd sc)), length (l_upd (get_link y (fst sc))))) (y_clients y),
                  struct_of (y_server y), sv_tick (y_server y))
  | _ => None
  end.

(* at the end client 0 has applied two of its four messages: it holds the server's structure of tick 2
   (the state after the first six steps), not the current one; the late joiner is up to date *)
Example C03E_ex_run :
  script_ok ex_script = true /\
  ex_view (run (sys_init ex_cfg 2) ex_script)
    = Some ([(0, 2, [(1, [0; 1; 2]); (2, [3])], 0%nat, 2%nat); (1, 4, [(1, [1; 2]); (3, [])], 0%nat, 0%nat)],
            [(1, [1; 2]); (3, [])], 4) /\
  ex_view (run (sys_init ex_cfg 2) (firstn 6 ex_script))
    = Some ([(0, 1, [(1, [0; 1])], 0%nat, 1%nat); (1, 0, [], 0%nat, 0%nat)], [(1, [0; 1; 2]); (2, [3])], 2).
Proof. vm_compute. repeat split; reflexivity. Qed.

(* the ghost of the run: what each slot has been sent *)
Example C03E_ex_ghost :
  match erun (sys_init ex_cfg 2) [] ex_script with Ok (_, gs) => Some gs | _ => None end
    = Some [(0, [(1, [1; 2; 1]); (3, [])]); (1, [(1, [1; 2]); (3, [])])].
Proof. vm_compute. reflexivity. Qed.

(* C03E_every_moment instantiated on the run *)
Example C03E_ex_instance :
  exists y, run (sys_init ex_cfg 2) ex_script = Ok y /\
    forall slot c, al_get slot (y_clients y) = Some c ->
      struct_equiv (client_struct c) [] \/
      exists pre post y1, ex_script = pre ++ post /\ run (sys_init ex_cfg 2) pre = Ok y1 /\
        struct_equiv (client_struct c) (struct_of (y_server y1)) /\ cl_upd_tick c = sv_tick (y_server y1).
Proof.
  destruct (run (sys_init ex_cfg 2) ex_script) as [y| |] eqn:E; [|vm_compute in E; discriminate|vm_compute in E; discriminate].
  exists y. split; [reflexivity|]. intros slot c Hc.
  exact (C03E_every_moment ex_cfg 2 eq_refl ex_script y slot c (proj1 C03E_ex_run) E Hc).
Qed.

(* mutate messages delivered out of order: the tick-2 mutate message for kind 1 of entity 1 reaches the
   client after the tick-3 update message that removed kind 1 (and after the newer tick-4 mutate message);
   `apply_mutations` skips it, the structure stays {0}; the run satisfies the hypotheses of B4-B6 *)
Definition ex_cfg_track : cfg := mkCfg PAll AuthNone true 1000.
Definition ex_mut : list step :=
  [StStart; StConnect 0 1200;
   sfr true [SSpawn 1 true [(0, VNat 1); (1, VNat 2)]];
   StDeliver 0 true 0 All; StDeliver 0 true 1 All; StCFrame 0 [];
   sfr true [SMutate 1 1 (VNat 5)];
   sfr true [SRemove 1 1];
   sfr true [SMutate 1 0 (VNat 7)];
   StDeliver 0 true 0 First; StCFrame 0 [];
   StDeliver 0 true 1 Last; StCFrame 0 [];
   StDeliver 0 true 1 First; StCFrame 0 [];
   StDeliver 0 true 1 All; StCFrame 0 []].

Definition ex_mut_view (r : res sys) :=
  match r with
  | Ok y => Some (map (fun sc => (cl_upd_tick (snd sc), client_struct (snd sc),
                                  map (fun kv => ce_comps (snd kv)) (cl_ents (snd sc)),
                                  map (fun m => (m_upd_tick m, m_tick m, m_body m)) (l_mut (get_link y (fst sc))))) (y_clients y),
                  struct_of (y_server y), sv_tick (y_server y))
  | _ => None
  end.

Example C03E_ex_mutations :
  script_okm ex_mut = true /\ tick_frames ex_mut = 4 /\
  (* after the update message of tick 3 is applied, three mutate messages are still queued *)
  ex_mut_view (run (sys_init ex_cfg_track 1) (firstn 11 ex_mut))
    = Some ([(3, [(1, [0])], [[(0, CNat 1)]],
              [(1, 2, [(1, [(1, VNat 5)])]); (3, 3, []); (3, 4, [(1, [(0, VNat 7)])])])], [(1, [0])], 4) /\
  (* all of them delivered, newest first: the value of kind 0 is updated, kind 1 does not come back *)
  ex_mut_view (run (sys_init ex_cfg_track 1) ex_mut)
    = Some ([(3, [(1, [0])], [[(0, CNat 7)]], [])], [(1, [0])], 4).
Proof. vm_compute. repeat split; reflexivity. Qed.

Example C03E_ex_mutations_instance :
  exists y, run (sys_init ex_cfg_track 1) ex_mut = Ok y /\
    forall slot c, al_get slot (y_clients y) = Some c ->
      struct_equiv (client_struct c) [] \/
      exists pre post y1, ex_mut = pre ++ post /\ run (sys_init ex_cfg_track 1) pre = Ok y1 /\
        struct_equiv (client_struct c) (struct_of (y_server y1)) /\ cl_upd_tick c = sv_tick (y_server y1).
Proof.
  destruct (run (sys_init ex_cfg_track 1) ex_mut) as [y| |] eqn:E; [|vm_compute in E; discriminate|vm_compute in E; discriminate].
  exists y. split; [reflexivity|]. intros slot c Hc.
  refine (C03E_every_moment_mut ex_cfg_track 1 eq_refl ex_mut y slot c (proj1 C03E_ex_mutations) _ E Hc).
  rewrite (proj1 (proj2 C03E_ex_mutations)). reflexivity.
Qed.

(* ---- why the hypotheses of A are there: concrete witnesses ---- *)

(* (1) `cs_inv` / `cop_safe`.  A client despawns a pre-spawned entity that a server entity is mapped to
       (CDespawn is not `cop_safe`): the mapping stays, `entry_entity` fails on the dead entity and the
       NEXT update message that mentions server entity 1 is aborted at that entry -- the entry for entity 2
       behind it is lost, although the update tick has already moved to 2. *)
Definition w_c0 : client := set_status (client_init false) Connected.
Definition w_c1 : client := apply_cop w_c0 (CPrespawn 7).
Definition w_u1 : update_msg := mkUpd 1 [(1, 7)] [] [] [(1, [(0, VNat 1)])].
Definition w_c2 : client := match apply_update_message w_c1 w_u1 with Ok c => c | _ => w_c1 end.
Definition w_c3 : client := apply_cop w_c2 (CDespawn 7).
Definition w_u2 : update_msg := mkUpd 2 [] [] [] [(1, [(0, VNat 2)]); (2, [(0, VNat 5)])].

Example C03E_witness_unsafe_despawn :
  client_struct w_c2 = [(1, [0])] /\ cop_safe w_c2 (CDespawn 7) = false /\ client_struct w_c3 = [] /\ u_maps w_u2 = [] /\
  match apply_update_message w_c3 w_u2 with
  | Ok c => Some (cl_upd_tick c, client_struct c, abs_apply (client_struct w_c3) w_u2)
  | _ => None
  end = Some (2, [], [(1, [0]); (2, [0])]).
Proof. vm_compute. repeat split; reflexivity. Qed.

(* a message with a pre-spawn mapping that satisfies [map_step_ok]: the pre-spawned entity 7 becomes the
   replica of server entity 1 (instance of C03E_update_message_one_map) *)
Example C03E_ex_one_map :
  map_step_ok w_c1 1 7 /\
  match apply_update_message w_c1 w_u1 with
  | Ok c => Some (client_struct c, abs_apply (client_struct w_c1) w_u1, map (fun kv => ce_pre (snd kv)) (cl_ents c))
  | _ => None
  end = Some ([(1, [0])], [(1, [0])], [Some 7]).
Proof.
  split; [|vm_compute; reflexivity]. split; [reflexivity|].
  intros cid x H _. vm_compute in H. inversion H; subst. split; reflexivity.
Qed.

(* (2) `mut_safe`.  A buffered mutate message of a newer tick that names a kind the entity does not have
       adds the kind (the server never produces such a message: C03S / the history argument). *)
Definition w_d1 : client :=
  match apply_update_message w_c0 (mkUpd 1 [] [] [] [(1, [(0, VNat 1)])]) with Ok c => c | _ => w_c0 end.
Definition w_d2 : client := set_buffered w_d1 [mkMut 1 2 1 0 [(1, [(1, VNat 7)])]] (cl_mticks w_d1).

Example C03E_witness_unsafe_mutation :
  client_struct w_d2 = [(1, [0])] /\
  match apply_mutate_messages w_d2 with Ok (c, _) => Some (client_struct c) | _ => None end = Some [(1, [0; 1])].
Proof. vm_compute. split; reflexivity. Qed.

(* (3) `u_maps u = []` / no SMap.  A whole-system run: the server maps an entity the client ALREADY holds
       to a pre-spawned client entity.  The update message carries only the mapping; the client re-points
       server entity 1 to the pre-spawned entity (marked, no components) and the entity that held the
       components is orphaned: the client's structure for entity 1 is {} while the server's is {0}, from
       then on, with nothing in flight. *)
Definition ex_remap : list step :=
  [StStart; StConnect 0 1200;
   sfr true [SSpawn 1 true [(0, VNat 1)]];
   StDeliver 0 true 0 All; StCFrame 0 [CPrespawn 9];
   sfr true [SMap 0 1 9];
   StDeliver 0 true 0 All; StCFrame 0 []].

Example C03E_witness_remap :
  legal ex_remap = true /\ single_session ex_remap = true /\ no_mut_delivery ex_remap = true /\ no_smap ex_remap = false /\
  match run (sys_init ex_cfg 1) (firstn 6 ex_remap) with Ok y => Some (l_upd (get_link y 0)) | _ => None end
    = Some [mkUpd 2 [(1, 9)] [] [] []] /\
  ex_view (run (sys_init ex_cfg 1) ex_remap) = Some ([(0, 2, [(1, [])], 0%nat, 0%nat)], [(1, [0])], 2).
Proof. vm_compute. repeat split; reflexivity. Qed.
