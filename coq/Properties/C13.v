(* C13 -- singleplayer and listen-server logic sees each local event exactly once.
   Pinned statements about RV.Events.Local (proofs in Events/Local_proofs.v, vocabulary in Events/LocalSpec.v). *)
From RV Require Import Lib.Res Events.Local Events.LocalSpec Events.Local_proofs.
Open Scope N_scope.

(* computed instances: the regression scenarios of the two fixed defects *)

(* D14: events already sent to the remote server are not handled again locally after the disconnect *)
Theorem C13_sent_events_not_replayed_after_disconnect :
  snd (run_local (lapp_init true)
         [LClient LConnected; LFrame true [EmitCE 1; EmitCT 2]; LClient LDisconnected; LFrame true []; LFrame true []; LFrame true []])
  = [[]; [NetC2S_CE 1; NetC2S_CT 2]; []; []; []; []].
Proof. vm_compute. reflexivity. Qed.

(* D26: a trigger written in the last singleplayer frame is still observed after the client starts connecting *)
Theorem C13_trigger_before_connecting_is_observed :
  snd (run_local (lapp_init true)
         [LFrame false [EmitCE 1; EmitCT 2]; LClient LConnecting; LFrame true []; LFrame true []])
  = [[]; []; [ObsFromCE 1; ObsFromCT 2]; []].
Proof. vm_compute. reflexivity. Qed.

Print Assumptions C13_sent_events_not_replayed_after_disconnect.
Print Assumptions C13_trigger_before_connecting_is_observed.

(* ---------- proved for all runs ---------- *)
(* the invariant behind everything: in every reachable app both client event buffers have consecutive ids
   (a_start + |a| = b_start, b_start + |b| = count), the send cursors are <= count, only local observations wait in la_next *)
Theorem C13_reachable_linv : forall full steps, linv (fst (run_local (lapp_init full) steps)).
Proof. exact reachable_linv. Qed.
Print Assumptions C13_reachable_linv.

(* item 1: in one frame of an app with the client plugins every client event / trigger (carried over or emitted now)
   takes exactly one path, with its multiplicity: re-emitted locally while disconnected (and drained), sent while connected
   (and consumed by the cursor), stored untouched while connecting *)
Theorem C13_client_event_one_path_per_frame : forall a fixed emits s,
  linv a -> la_full a = true ->
  let a' := fst (lframe a fixed emits) in
  let out := snd (lframe a fixed emits) in
  let n_ce := (count_seq s (carried_ce a) + count_seq s (emits_ce emits))%nat in
  let n_ct := (count_seq s (carried_ct a) + count_seq s (emits_ct emits))%nat in
  (disconnected a = true ->
     count_in (ObsFromCE s) (la_next a') = n_ce /\ count_in (ObsFromCT s) (la_next a') = n_ct /\
     count_in (NetC2S_CE s) out = 0%nat /\ count_in (NetC2S_CT s) out = 0%nat /\
     ev_all (la_ce a') = [] /\ ev_all (la_ct a') = []) /\
  (connected a = true ->
     count_in (NetC2S_CE s) out = n_ce /\ count_in (NetC2S_CT s) out = n_ct /\
     count_in (ObsFromCE s) (la_next a') = 0%nat /\ count_in (ObsFromCT s) (la_next a') = 0%nat /\
     unread (la_ce a') (la_ce_cursor a') = [] /\ unread (la_ct a') (la_ct_cursor a') = []) /\
  (la_status a = LConnecting ->
     count_in (NetC2S_CE s) out = 0%nat /\ count_in (NetC2S_CT s) out = 0%nat /\
     count_in (ObsFromCE s) (la_next a') = 0%nat /\ count_in (ObsFromCT s) (la_next a') = 0%nat /\
     unread (la_ce a') (la_ce_cursor a') = carried_ce a ++ emits_ce emits /\
     unread (la_ct a') (la_ct_cursor a') = carried_ct a ++ emits_ct emits).
Proof. exact client_event_one_path_per_frame. Qed.
Print Assumptions C13_client_event_one_path_per_frame.

(* item 1 with distinct sequence numbers: a number never emitted before and emitted once in this frame appears exactly once *)
Theorem C13_client_event_one_path_per_frame_once : forall full pre fixed emits s,
  let a := fst (run_local (lapp_init full) pre) in
  let a' := fst (lframe a fixed emits) in
  let out := snd (lframe a fixed emits) in
  la_full a = true ->
  (count_seq s (emits_ce (run_emits pre)) = 0%nat -> count_seq s (emits_ce emits) = 1%nat ->
     (disconnected a = true -> count_in (ObsFromCE s) (la_next a') = 1%nat /\ count_in (NetC2S_CE s) out = 0%nat) /\
     (connected a = true -> count_in (NetC2S_CE s) out = 1%nat /\ count_in (ObsFromCE s) (la_next a') = 0%nat) /\
     (la_status a = LConnecting -> count_in (NetC2S_CE s) out = 0%nat /\ count_in (ObsFromCE s) (la_next a') = 0%nat /\
                                   count_seq s (unread (la_ce a') (la_ce_cursor a')) = 1%nat)) /\
  (count_seq s (emits_ct (run_emits pre)) = 0%nat -> count_seq s (emits_ct emits) = 1%nat ->
     (disconnected a = true -> count_in (ObsFromCT s) (la_next a') = 1%nat /\ count_in (NetC2S_CT s) out = 0%nat) /\
     (connected a = true -> count_in (NetC2S_CT s) out = 1%nat /\ count_in (ObsFromCT s) (la_next a') = 0%nat) /\
     (la_status a = LConnecting -> count_in (NetC2S_CT s) out = 0%nat /\ count_in (ObsFromCT s) (la_next a') = 0%nat /\
                                   count_seq s (unread (la_ct a') (la_ct_cursor a')) = 1%nat)).
Proof. exact client_event_one_path_per_frame_once. Qed.
Print Assumptions C13_client_event_one_path_per_frame_once.

(* item 2: steps other than LFrame produce no output and do not touch la_next; the next LFrame outputs every waiting local
   observation with its multiplicity (ObsGotST only with the client plugins, never without) and replaces la_next *)
Theorem C13_local_reemission_observed_next_frame : forall a mid fixed emits o,
  linv a -> no_frames mid = true -> is_local_obs o = true ->
  let a1 := fst (run_local a mid) in
  count_obs o (snd (run_local a mid)) = 0%nat /\
  la_next a1 = la_next a /\
  count_in o (snd (lframe a1 fixed emits)) = (if is_got_st o && negb (la_full a) then 0%nat else count_in o (la_next a)) /\
  (forall nx, la_next (fst (lframe (set_next a1 nx) fixed emits)) = la_next (fst (lframe a1 fixed emits))).
Proof. exact local_reemission_observed_next_frame. Qed.
Print Assumptions C13_local_reemission_observed_next_frame.

(* item 3: over any run, local re-emissions plus network sends of a sequence number never exceed its emissions; at most one if emitted at most once *)
Theorem C13_never_both_never_twice : forall full steps s,
  let outs := snd (run_local (lapp_init full) steps) in
  (count_obs (ObsFromCE s) outs + count_obs (NetC2S_CE s) outs <= count_seq s (emits_ce (run_emits steps)))%nat /\
  (count_obs (ObsFromCT s) outs + count_obs (NetC2S_CT s) outs <= count_seq s (emits_ct (run_emits steps)))%nat /\
  ((count_seq s (emits_ce (run_emits steps)) <= 1)%nat ->
     (count_obs (ObsFromCE s) outs + count_obs (NetC2S_CE s) outs <= 1)%nat) /\
  ((count_seq s (emits_ct (run_emits steps)) <= 1)%nat ->
     (count_obs (ObsFromCT s) outs + count_obs (NetC2S_CT s) outs <= 1)%nat).
Proof. exact never_both_never_twice. Qed.
Print Assumptions C13_never_both_never_twice.

(* D14, the key fact: what a cursor at id c still reads is the buffer without its first c - a_start elements, i.e. the ids >= c *)
Theorem C13_unread_ids : forall A (e : evbuf A) c, ev_wf e -> c <= ev_count e ->
  unread e c = skipn (N.to_nat (c - ev_a_start e)) (ev_all e).
Proof. exact unread_ids. Qed.
Print Assumptions C13_unread_ids.

(* D14: `resend_locally` re-emits exactly what the send cursor has not consumed, and drains the buffers *)
Theorem C13_resend_skips_sent : forall a fixed emits,
  linv a -> la_full a = true -> disconnected a = true ->
  la_next (fst (lframe a fixed emits)) =
  (map ObsFromCE (unread (frame_ce a emits) (la_ce_cursor a)) ++ map ObsFromCT (unread (frame_ct a emits) (la_ct_cursor a)))
  ++ local_s2c_of (carried_se a ++ emits_se emits) (carried_st a ++ emits_st emits)
  /\ ev_all (la_ce (fst (lframe a fixed emits))) = [] /\ ev_all (la_ct (fst (lframe a fixed emits))) = [].
Proof. exact resend_skips_sent. Qed.
Print Assumptions C13_resend_skips_sent.

(* item 4: emitted while disconnected (singleplayer / server) and followed by one more frame: observed by server-side logic exactly once
   and never sent; emitted while connected: sent exactly once and never observed locally -- whatever happens in the rest of the run *)
Theorem C13_exactly_once_when_server_or_singleplayer : forall full pre fixed emits post s,
  let steps := pre ++ LFrame fixed emits :: post in
  let a := fst (run_local (lapp_init full) pre) in
  let outs := snd (run_local (lapp_init full) steps) in
  la_full a = true ->
  ((count_seq s (emits_ce (run_emits steps)) <= 1)%nat -> In (EmitCE s) emits ->
     (disconnected a = true -> existsb is_frame post = true ->
        count_obs (ObsFromCE s) outs = 1%nat /\ count_obs (NetC2S_CE s) outs = 0%nat) /\
     (connected a = true -> count_obs (NetC2S_CE s) outs = 1%nat /\ count_obs (ObsFromCE s) outs = 0%nat)) /\
  ((count_seq s (emits_ct (run_emits steps)) <= 1)%nat -> In (EmitCT s) emits ->
     (disconnected a = true -> existsb is_frame post = true ->
        count_obs (ObsFromCT s) outs = 1%nat /\ count_obs (NetC2S_CT s) outs = 0%nat) /\
     (connected a = true -> count_obs (NetC2S_CT s) outs = 1%nat /\ count_obs (ObsFromCT s) outs = 0%nat)).
Proof. exact exactly_once_when_server_or_singleplayer. Qed.
Print Assumptions C13_exactly_once_when_server_or_singleplayer.

(* item 5: client->server messages only leave a frame executed while connected (with the client plugins),
   server->client messages only while the server runs and has a remote client *)
Theorem C13_nothing_on_network_without_connection : forall a st o,
  linv a -> In o (snd (lstep_run a st)) ->
  (is_c2s o = true -> is_frame st = true /\ la_full a = true /\ connected a = true) /\
  (is_s2c o = true -> is_frame st = true /\ la_running a = true /\ la_remote a = true).
Proof. exact nothing_on_network_without_connection. Qed.
Print Assumptions C13_nothing_on_network_without_connection.

(* item 5 for the states of runs from the initial app *)
Theorem C13_nothing_on_network_without_connection_run : forall full pre st o,
  let a := fst (run_local (lapp_init full) pre) in
  In o (snd (lstep_run a st)) ->
  (is_c2s o = true -> is_frame st = true /\ la_full a = true /\ connected a = true) /\
  (is_s2c o = true -> is_frame st = true /\ la_running a = true /\ la_remote a = true).
Proof. exact nothing_on_network_without_connection_run. Qed.
Print Assumptions C13_nothing_on_network_without_connection_run.

(* item 6: in a frame executed as server or singleplayer, the local copies written and the messages sent are exactly the
   events whose mode has the local server / a remote client among the recipients; the ToClients buffers are drained *)
Theorem C13_server_event_local_copy : forall a fixed emits s,
  linv a -> server_or_singleplayer a = true ->
  let a' := fst (lframe a fixed emits) in
  let out := snd (lframe a fixed emits) in
  let all_se := carried_se a ++ emits_se emits in
  let all_st := carried_st a ++ emits_st emits in
  count_in (ObsGotSE s) (la_next a') = count_p (se_local s) all_se /\
  count_in (ObsGotST s) (la_next a') = count_p (se_local s) all_st /\
  count_in (NetS2C_SE s) out = (if la_running a && la_remote a then count_p (se_remote s) all_se else 0%nat) /\
  count_in (NetS2C_ST s) out = (if la_running a && la_remote a then count_p (se_remote s) all_st else 0%nat) /\
  ev_all (la_se a') = [] /\ ev_all (la_st a') = [].
Proof. exact server_event_local_copy. Qed.
Print Assumptions C13_server_event_local_copy.

(* item 6 with a distinct sequence number: local copy exactly once iff local_recipient, message exactly once iff running, remote client, remote_recipient *)
Theorem C13_server_event_local_copy_once : forall a fixed emits m s,
  linv a -> server_or_singleplayer a = true ->
  let a' := fst (lframe a fixed emits) in
  let out := snd (lframe a fixed emits) in
  let all_se := carried_se a ++ emits_se emits in
  let all_st := carried_st a ++ emits_st emits in
  ((count_p (se_is s) all_se <= 1)%nat -> In (m, s) all_se ->
     count_in (ObsGotSE s) (la_next a') = (if local_recipient m then 1 else 0)%nat /\
     count_in (NetS2C_SE s) out = (if la_running a && la_remote a && remote_recipient m then 1 else 0)%nat) /\
  ((count_p (se_is s) all_st <= 1)%nat -> In (m, s) all_st ->
     count_in (ObsGotST s) (la_next a') = (if local_recipient m then 1 else 0)%nat /\
     count_in (NetS2C_ST s) out = (if la_running a && la_remote a && remote_recipient m then 1 else 0)%nat).
Proof. exact server_event_local_copy_once. Qed.
Print Assumptions C13_server_event_local_copy_once.

(* item 6 over runs: local observations (any run) and messages (runs through supported configurations) never exceed the emissions *)
Theorem C13_server_event_never_twice : forall full steps s,
  let outs := snd (run_local (lapp_init full) steps) in
  (count_obs (ObsGotSE s) outs <= count_p (se_local s) (emits_se (run_emits steps)))%nat /\
  (count_obs (ObsGotST s) outs <= count_p (se_local s) (emits_st (run_emits steps)))%nat /\
  (all_supported (lapp_init full) steps = true ->
     (count_obs (NetS2C_SE s) outs <= count_p (se_remote s) (emits_se (run_emits steps)))%nat /\
     (count_obs (NetS2C_ST s) outs <= count_p (se_remote s) (emits_st (run_emits steps)))%nat) /\
  ((count_p (se_is s) (emits_se (run_emits steps)) <= 1)%nat ->
     (count_obs (ObsGotSE s) outs <= 1)%nat /\
     (all_supported (lapp_init full) steps = true -> (count_obs (NetS2C_SE s) outs <= 1)%nat)) /\
  ((count_p (se_is s) (emits_st (run_emits steps)) <= 1)%nat ->
     (count_obs (ObsGotST s) outs <= 1)%nat /\
     (all_supported (lapp_init full) steps = true -> (count_obs (NetS2C_ST s) outs <= 1)%nat)).
Proof. exact server_event_never_twice. Qed.
Print Assumptions C13_server_event_never_twice.

(* item 6 over runs: a server event emitted as server or singleplayer and followed by one more frame is observed locally
   exactly once precisely when the local server is a recipient (triggers: and the client plugins are present) *)
Theorem C13_server_event_observed_exactly_once : forall full pre fixed emits post m s,
  let steps := pre ++ LFrame fixed emits :: post in
  let a := fst (run_local (lapp_init full) pre) in
  let outs := snd (run_local (lapp_init full) steps) in
  server_or_singleplayer a = true -> existsb is_frame post = true ->
  ((count_p (se_is s) (emits_se (run_emits steps)) <= 1)%nat -> In (EmitSE m s) emits ->
     count_obs (ObsGotSE s) outs = (if local_recipient m then 1 else 0)%nat) /\
  ((count_p (se_is s) (emits_st (run_emits steps)) <= 1)%nat -> In (EmitST m s) emits ->
     count_obs (ObsGotST s) outs = (if local_recipient m && full then 1 else 0)%nat).
Proof. exact server_event_observed_exactly_once. Qed.
Print Assumptions C13_server_event_observed_exactly_once.

(* item 7: without the client plugins client events / triggers are never routed, server triggers never observed locally, nothing occurs twice *)
Theorem C13_dedicated_server_never_twice : forall steps s,
  let outs := snd (run_local (lapp_init false) steps) in
  count_obs (ObsFromCE s) outs = 0%nat /\ count_obs (ObsFromCT s) outs = 0%nat /\
  count_obs (NetC2S_CE s) outs = 0%nat /\ count_obs (NetC2S_CT s) outs = 0%nat /\
  count_obs (ObsGotST s) outs = 0%nat /\
  (count_obs (ObsGotSE s) outs <= count_p (se_local s) (emits_se (run_emits steps)))%nat /\
  (count_obs (NetS2C_SE s) outs <= count_p (se_remote s) (emits_se (run_emits steps)))%nat /\
  (count_obs (NetS2C_ST s) outs <= count_p (se_remote s) (emits_st (run_emits steps)))%nat /\
  ((count_p (se_is s) (emits_se (run_emits steps)) <= 1)%nat ->
     (count_obs (ObsGotSE s) outs <= 1)%nat /\ (count_obs (NetS2C_SE s) outs <= 1)%nat) /\
  ((count_p (se_is s) (emits_st (run_emits steps)) <= 1)%nat -> (count_obs (NetS2C_ST s) outs <= 1)%nat).
Proof. exact dedicated_server_never_twice. Qed.
Print Assumptions C13_dedicated_server_never_twice.

(* ---------- non-vacuity ---------- *)
(* a listen server with one remote client, all five send modes for events and triggers *)
Example listen_server_all_modes :
  snd (run_local (lapp_init true)
         [LServer true; LRemote true;
          LFrame true [EmitSE LBroadcast 1; EmitSE LExceptServer 2; EmitSE LDirectServer 3; EmitSE LExceptRemote 4; EmitSE LDirectRemote 5;
                       EmitST LBroadcast 11; EmitST LExceptServer 12; EmitST LDirectServer 13; EmitST LExceptRemote 14; EmitST LDirectRemote 15;
                       EmitCE 21; EmitCT 22];
          LFrame false []; LFrame true []])
  = [[]; [];
     [NetS2C_SE 1; NetS2C_SE 2; NetS2C_SE 5; NetS2C_ST 11; NetS2C_ST 12; NetS2C_ST 15];
     [ObsFromCE 21; ObsFromCT 22; ObsGotSE 1; ObsGotSE 3; ObsGotSE 4; ObsGotST 11; ObsGotST 13; ObsGotST 14];
     []]
  /\ all_supported (lapp_init true)
       [LServer true; LRemote true; LFrame true [EmitSE LBroadcast 1]; LFrame false []; LFrame true []] = true.
Proof. vm_compute. split; reflexivity. Qed.

(* a client connects, sends, disconnects: what was sent is not replayed, what was written while
   connecting or after the disconnect is handled locally, once *)
Example client_connects_sends_disconnects :
  snd (run_local (lapp_init true)
         [LClient LConnecting; LFrame false [EmitCE 1];
          LClient LConnected; LFrame false [EmitCE 2; EmitCT 3];
          LFrame false [EmitCE 4];
          LClient LDisconnected; LFrame false [EmitCE 5]; LFrame false []; LFrame true []; LFrame true []])
  = [[]; []; []; [NetC2S_CE 2; NetC2S_CT 3]; [NetC2S_CE 4]; []; []; [ObsFromCE 5]; []; []].
Proof. vm_compute. reflexivity. Qed.

(* a dedicated server (no client plugins): client events are never routed, server events still reach
   the local queue once, server triggers are never observed locally *)
Example dedicated_server_run :
  snd (run_local (lapp_init false)
         [LServer true; LRemote true; LFrame true [EmitCE 1; EmitCT 2; EmitSE LBroadcast 3; EmitST LBroadcast 4];
          LFrame true []; LFrame true []])
  = [[]; []; [NetS2C_SE 3; NetS2C_ST 4]; [ObsGotSE 3]; []].
Proof. vm_compute. reflexivity. Qed.

(* the hypotheses of the per-frame theorems are satisfiable in reachable states *)
Example hypotheses_satisfiable :
  let a := fst (run_local (lapp_init true) [LClient LConnected; LFrame true [EmitCE 1]]) in
  la_full a = true /\ connected a = true /\ count_seq 7 (emits_ce (run_emits [LClient LConnected; LFrame true [EmitCE 1]])) = 0%nat.
Proof. vm_compute. repeat split. Qed.
