(* C13 -- singleplayer and listen-server logic sees each local event exactly once.
   Pinned statements about RV.Events.Local (proofs in Events/Local_proofs.v when present). *)
From RV Require Import Lib.Res Events.Local.
Open Scope N_scope.

(* computed instances: the regression scenarios of the two fixed defects *)
Definition run_local (a : lapp) (steps : list lstep) : lapp * list (list lobs) :=
  fold_left (fun acc s => let '(a, outs) := acc in let '(a', o) := lstep_run a s in (a', outs ++ [o])) steps (a, []).

(* D14: events already sent to the remote server are not handled again locally after the disconnect *)
Theorem C13_sent_events_not_replayed_after_disconnect :
  snd (run_local (lapp_init true)
         [LClient LConnected; LFrame true [EmitCE 1; EmitCT 2]; LClient LDisconnected; LFrame true []; LFrame true []; LFrame true []])
  = [[]; [NetC2S_CE 1; NetC2S_CT 2]; []; []; []; []].
Proof. vm_compute. reflexivity. Qed.

(* D26: a trigger written in the last singleplayer frame is still observed after the client starts connecting *)
Theorem C13_trigger_before_connecting_is_observed :
  snd (run_local (lapp_init true)
         [LFrame false [EmitCE 1; EmitCT 2]; LClient LConnecting; LFrame true []; LFrame true []])
  = [[]; []; [ObsFromCE 1; ObsFromCT 2]; []].
Proof. vm_compute. reflexivity. Qed.

Print Assumptions C13_sent_events_not_replayed_after_disconnect.
Print Assumptions C13_trigger_before_connecting_is_observed.
