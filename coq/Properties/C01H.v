(* C01 -- convergence, end to end, WITH PRE-SPAWN MAPPINGS.  These are the statements of Properties/C02H.v that ARE property
   C01 on the Layer 1 model, pinned again under C01 so that the C01 check carries them as obligations (same lemmas, same
   scope [script_scopem]: any policy, legal scripts whose sessions are separated by a `StDisconnect` and a client frame, `SMap`
   operations allowed under the run premise `run_maps_ok` of Properties/C03F.v part G3 (decidable: `run_maps_okb`), components
   of every-tick kinds holding nats or references, no replication at tick 0, < 2^31 ticks, < 2^16 registered mutate messages per
   client, `refs_kept`).  They generalise Properties/C01G.v (no `SMap`).  Outside that scope C01 is decided by correspondence +
   oracle; the boundary witnesses are in Properties/C02H.v and Properties/C16E.v. *)
From RV Require Import Lib.Res Repl.ClientTicks Repl.World Vis.Visibility Repl.Server Repl.ServerSpec
  Repl.StructSpec Repl.StructVisSpec Repl.Client Repl.Sys Repl.Ack_proofs Repl.Converge Repl.Witness
  Repl.ClientStructSpec Repl.ClientStruct_proofs Repl.StructE2E_proofs Repl.StructE2EMut_proofs Repl.StructE2ESess_proofs
  Repl.StructE2EMaps_proofs
  Repl.ValSpec Repl.ValE2E_proofs Repl.ValSettle_proofs
  Repl.ValVisSpec Repl.ValVisE2E_proofs Repl.ValVisSettle_proofs
  Repl.ValRefSpec Repl.ValRefE2E_proofs Repl.ValRefSettle_proofs
  Repl.ValMapsSpec Repl.ValMapsE2E_proofs Repl.ValMapsSettle_proofs Tick.ConfirmHistory.
Open Scope N_scope.

Theorem C01H_ack_sound : forall cfg0 nclients script y slot c cl e a,
  script_scopem cfg0 nclients script -> run (sys_init cfg0 nclients) script = Ok y ->
  al_get slot (y_clients y) = Some c -> mode_of script slot = MLive -> cl_status c = Connected ->
  In cl (sv_clients (y_server y)) -> sc_slot cl = slot -> mutation_tick (sc_ticks cl) e = Some a ->
  exists pre post y1, script = pre ++ post /\ run (sys_init cfg0 nclients) pre = Ok y1 /\
    forallb (fun st => negb (ends_session slot st)) post = true /\ sv_last_run (y_server y1) = a /\
    ((exists u, In u (cl_inbox_upd c ++ l_upd (get_link y slot)) /\ mentions u e /\ sv_tick (y_server y1) <= u_tick u) \/
     (exists x h, has c e x h /\ sv_tick (y_server y1) <= h_last h)).
Proof. exact e2em_ack_sound. Qed.

Theorem C01H_converged : forall cfg0 nclients script y slot c cl,
  script_scopem cfg0 nclients script -> run (sys_init cfg0 nclients) script = Ok y ->
  al_get slot (y_clients y) = Some c -> mode_of script slot = MLive -> cl_status c = Connected ->
  In cl (sv_clients (y_server y)) -> sc_slot cl = slot -> sc_authorized cl = true ->
  l_upd (get_link y slot) = [] -> cl_inbox_upd c = [] ->
  quiescent_for (y_server y) cl -> sv_removed_events (y_server y) = [] ->
  struct_equiv (client_struct c) (struct_vis (y_server y) cl) /\
  forall e k, view_agrees c slot (y_server y) e k.
Proof. exact e2em_converged. Qed.

Theorem C01H_settles : forall cfg0 nclients body slots sl y,
  let rounds := ValSettle_proofs.settle_round slots ++ ValSettle_proofs.settle_round slots in
  script_scopem cfg0 nclients (body ++ rounds) -> run (sys_init cfg0 nclients) (body ++ rounds) = Ok y ->
  In sl slots -> (exists yb, run (sys_init cfg0 nclients) body = Ok yb /\ livev body yb sl) ->
  exists c cl, al_get sl (y_clients y) = Some c /\ cl_status c = Connected /\
    In cl (sv_clients (y_server y)) /\ sc_slot cl = sl /\ sc_authorized cl = true /\
    struct_equiv (client_struct c) (struct_vis (y_server y) cl) /\
    forall e k, view_agrees c sl (y_server y) e k.
Proof. exact e2em_settles. Qed.

Theorem C01H_settle_converges : forall cfg0 nclients body yb y sl,
  let rounds := ValSettle_proofs.settle_round (Converge.slots yb) ++ ValSettle_proofs.settle_round (Converge.slots yb) in
  script_scopem cfg0 nclients (body ++ rounds) ->
  run (sys_init cfg0 nclients) body = Ok yb -> Converge.settle 2 yb = Ok y -> livev body yb sl ->
  exists c cl, al_get sl (y_clients y) = Some c /\ cl_status c = Connected /\
    In cl (sv_clients (y_server y)) /\ sc_slot cl = sl /\ sc_authorized cl = true /\
    struct_equiv (client_struct c) (struct_vis (y_server y) cl) /\
    forall e k, view_agrees c sl (y_server y) e k.
Proof. exact e2em_settle_converges. Qed.

Theorem C01H_values_iff : forall cfg0 nclients body yb y sl,
  let rounds := ValSettle_proofs.settle_round (Converge.slots yb) ++ ValSettle_proofs.settle_round (Converge.slots yb) in
  script_scopem cfg0 nclients (body ++ rounds) ->
  run (sys_init cfg0 nclients) body = Ok yb -> Converge.settle 2 yb = Ok y -> livev body yb sl ->
  exists c, al_get sl (y_clients y) = Some c /\
    (forall e k n, cview c e k = Some (CNat n) <-> sviewv sl (y_server y) e k = Some (VNat n)) /\
    (forall e k t, sviewv sl (y_server y) e k = Some (VRef t) <->
                   exists cid, cview c e k = Some (CRef cid) /\ al_get cid (cl_c2s c) = Some t).
Proof. exact e2em_settle_values. Qed.

Print Assumptions C01H_ack_sound.
Print Assumptions C01H_converged.
Print Assumptions C01H_settles.
Print Assumptions C01H_settle_converges.
Print Assumptions C01H_values_iff.
