(* C09 -- "After a client disconnects and connects again, or the server stops and starts again,
   the new session begins clean: the client is sent the complete visible state and converges as
   in a first connection, nothing received, buffered or queued during the previous session is
   applied or delivered in the new one, and the server keeps nothing of the old session.
   Neither side panics whatever was in flight at the moment the session ended."

   Statements about the Layer 1 model (Repl.Server, Repl.Client, Repl.Sys); proofs are in
   Repl/Session_proofs.v.  Both resets are driven by "just disconnected" / "just stopped" run
   conditions that compare with the previous FRAME: the theorems below therefore speak about a
   session end that is observed by a frame of the side concerned.  When the session ends and
   restarts between two frames the reset does not run at all; the two witnesses at the end of
   this file show what the model (and, as far as the model is faithful, the crate) does then. *)
From RV Require Import Lib.Res Repl.ClientTicks Repl.ClientTicks_proofs Wire.AckCodec Wire.AckCodec_proofs.
From RV Require Import Repl.World Repl.Server Repl.Client Repl.Sys Vis.Visibility
  Tick.MutateTicks Repl.Ack_proofs Repl.Session_proofs.
Open Scope N_scope.

(* ---- client side ------------------------------------------------------------------------- *)

(* `reset` clears the tick, both entity maps, the buffered mutate messages and the mutate-tick
   window; the world entities and the run-condition locals are not its business *)
Theorem C09_client_reset_fields : forall c,
  cl_upd_tick (client_reset c) = 0 /\ cl_s2c (client_reset c) = [] /\ cl_c2s (client_reset c) = [] /\
  cl_buffered (client_reset c) = [] /\ cl_mticks (client_reset c) = option_map mt_clear (cl_mticks c) /\
  cl_ents (client_reset c) = cl_ents c /\ cl_next (client_reset c) = cl_next c /\
  cl_status (client_reset c) = cl_status c /\ cl_last_connected (client_reset c) = cl_last_connected c /\
  cl_last_not_disconnected (client_reset c) = cl_last_not_disconnected c /\
  cl_inbox_upd (client_reset c) = cl_inbox_upd c /\ cl_inbox_mut (client_reset c) = cl_inbox_mut c.
Proof. exact client_reset_fields. Qed.

(* a disconnect followed by one client frame: nothing is applied, nothing is acknowledged, and
   the replication state (everything except the world: cl_ents, cl_next) is the one of a client
   that never connected, including the received-but-unread messages and the locals *)
Theorem C09_client_reset_clean : forall track cl ops,
  cl_status cl = Connected -> cl_last_not_disconnected cl = true -> mticks_ok track (cl_mticks cl) ->
  exists cl', client_frame (set_status cl Disconnected) ops = Ok (cl', mkCFO [] []) /\
              repl_state cl' = repl_state (client_init track).
Proof. exact client_reset_clean. Qed.

(* the same as two steps of the system: afterwards the slot has no server record, no queued
   acknowledgement, an empty link, and a client app in the never-connected replication state *)
Theorem C09_disconnect_then_client_frame : forall track y slot cl ops,
  al_get slot (y_clients y) = Some cl ->
  cl_status cl = Connected -> cl_last_not_disconnected cl = true -> mticks_ok track (cl_mticks cl) ->
  exists y2 cl', run y [StDisconnect slot; StCFrame slot ops] = Ok y2 /\
    al_get slot (y_clients y2) = Some cl' /\ repl_state cl' = repl_state (client_init track) /\
    get_link y2 slot = link_empty /\ find_client (y_server y2) slot = None /\
    (forall m, In m (sv_inbox_acks (y_server y2)) -> fst m <> slot).
Proof. exact disconnect_then_client_frame. Qed.

(* ---- server side: one client ------------------------------------------------------------- *)

Theorem C09_disconnect_forgets_client : forall s slot,
  find_client (disconnect_client s slot) slot = None /\
  (forall m, In m (sv_inbox_acks (disconnect_client s slot)) <-> In m (sv_inbox_acks s) /\ fst m <> slot) /\
  (forall slot', slot' <> slot -> find_client (disconnect_client s slot) slot' = find_client s slot') /\
  (forall cl, In cl (sv_clients (disconnect_client s slot)) <-> In cl (sv_clients s) /\ sc_slot cl <> slot) /\
  sv_ents (disconnect_client s slot) = sv_ents s /\ sv_tick (disconnect_client s slot) = sv_tick s /\
  sv_despawn_buf (disconnect_client s slot) = sv_despawn_buf s /\ sv_removal_buf (disconnect_client s slot) = sv_removal_buf s /\
  sv_running (disconnect_client s slot) = sv_running s.
Proof. exact disconnect_forgets_client. Qed.

(* the step: record, queued acknowledgements and all three queues of the link are gone *)
Theorem C09_disconnect_step : forall y slot cl,
  al_get slot (y_clients y) = Some cl ->
  exists y', sys_step y (StDisconnect slot) = Ok (y', ONone) /\
    y_server y' = disconnect_client (y_server y) slot /\
    get_link y' slot = link_empty /\
    al_get slot (y_clients y') = Some (set_status cl Disconnected) /\
    (forall slot', slot' <> slot -> get_link y' slot' = get_link y slot' /\
                                    al_get slot' (y_clients y') = al_get slot' (y_clients y)).
Proof. exact disconnect_step. Qed.

(* ... so nothing of the old session can be delivered later *)
Theorem C09_deliver_empty_noop : forall y slot s2c ch w (deliver : bool),
  get_link y slot = link_empty ->
  exists y', sys_step y (if deliver then StDeliver slot s2c ch w else StDrop slot s2c ch w) = Ok (y', ONone) /\
    y_server y' = y_server y /\ y_clients y' = y_clients y /\ forall sl, get_link y' sl = get_link y sl.
Proof. exact deliver_empty_noop. Qed.

(* connecting again creates the record a first connection creates: default acknowledgement
   bookkeeping (no stamp for any entity: Ack_proofs.unknown_entity_sent_completely then gives the
   complete entity), fresh visibility, no pending mappings *)
Theorem C09_reconnect_is_first_connection : forall c s slot max,
  sv_running s = true ->
  find_client (connect_client c (disconnect_client s slot) slot max) slot = Some (fresh_client c slot max) /\
  sc_ticks (fresh_client c slot max) = ct_default /\ sc_pending_map (fresh_client c slot max) = [] /\
  sc_vis (fresh_client c slot max) = (match cfg_auth c with AuthNone => new_vis c | _ => None end) /\
  (forall s0, sv_running s0 = true -> find_client s0 slot = None ->
              find_client (connect_client c s0 slot max) slot = Some (fresh_client c slot max)).
Proof. exact reconnect_is_first_connection. Qed.

(* an entity the client record has no stamp for is sent with all its components *)
Theorem C09_unknown_entity_sent_completely : forall last_run tick rb ticks st e x madd ec k comp,
  collect_entity last_run tick rb ticks st e x madd = Ok ec ->
  st <> VHidden ->
  In (k, comp) (se_comps x) -> mutation_tick ticks e = None ->
  exists entry, ec_entry ec = Some entry /\ In (k, c_val comp) entry.
Proof. exact unknown_entity_sent_completely. Qed.

(* ---- server side: stop / start ----------------------------------------------------------- *)

Theorem C09_server_reset_clean : forall s,
  sv_tick (reset s) = 0 /\ sv_clients (reset s) = [] /\ sv_despawn_buf (reset s) = [] /\
  sv_removal_buf (reset s) = [] /\ sv_inbox_acks (reset s) = [] /\ sv_dirty (reset s) = true /\
  sv_ents (reset s) = sv_ents s /\ sv_running (reset s) = sv_running s.
Proof. exact server_reset_clean. Qed.

Theorem C09_stop_step : forall y,
  exists y', sys_step y StStop = Ok (y', ONone) /\
    y_server y' = set_running (y_server y) false /\ sv_inbox_acks (y_server y') = [] /\
    y_clients y' = y_clients y /\ forall slot, get_link y' slot = link_empty.
Proof. exact stop_step. Qed.

(* the first frame of a stopped server resets, whatever the operations of that frame are ... *)
Theorem C09_stopped_frame_resets : forall c s tick dt cleanup ops parts,
  sv_running s = false -> sv_last_running s = true ->
  exists s' fo, server_frame c s tick dt cleanup ops parts = Ok (s', fo) /\
    sv_tick s' = 0 /\ sv_clients s' = [] /\ sv_despawn_buf s' = [] /\ sv_removal_buf s' = [] /\
    sv_inbox_acks s' = [] /\ sv_dirty s' = false /\ sv_running s' = false /\ sv_last_running s' = false /\
    fo_clients fo = [] /\ fo_ran fo = false.
Proof. exact stopped_frame_resets. Qed.

(* ... and the reset runs once: the next frames of the stopped server only apply the operations *)
Theorem C09_stopped_frame_no_second_reset : forall c s tick dt cleanup ops parts,
  sv_running s = false -> sv_last_running s = false ->
  server_frame c s tick dt cleanup ops parts =
  let s3 := fold_left apply_sop ops (with_time_tick s tick dt) in
  Ok (set_last_running (clear_dirty (age_events s3)), mkFO (sv_tick s3) false []).
Proof. exact stopped_frame_no_second_reset. Qed.

(* ---- no panics ---------------------------------------------------------------------------- *)

(* a server frame succeeds for every state, inbox, operation list and partition proposal ... *)
Theorem C09_server_frame_total : forall c s tick dt cleanup ops parts,
  exists r, server_frame c s tick dt cleanup ops parts = Ok r.
Proof. exact server_frame_total. Qed.

(* ... and so does every step of the system except a client frame *)
Theorem C09_server_steps_total : forall y st,
  (forall slot ops, st <> StCFrame slot ops) -> exists y' o, sys_step y st = Ok (y', o).
Proof. exact server_steps_total. Qed.

(* client frames: the model has no `Err` below `client_frame`; a failing client frame is a `Panic`,
   and the only `Panic` branches it can reach are the debug assertion of
   `ConfirmHistory::set_last_tick` (tick >= last_tick; from confirm_tick and apply_mutations) and the
   assertions / index checks of `ServerMutateTicks::confirm` (from apply_mutate_messages when
   tracking).  That these are not reached from reachable states is NOT proved here. *)
Theorem C09_client_frame_noerr : forall cl ops, client_frame cl ops <> Err.
Proof. exact client_frame_noerr. Qed.

Theorem C09_client_frame_disconnected_total : forall cl ops,
  cl_status cl = Disconnected -> exists r, client_frame cl ops = Ok r.
Proof. exact client_frame_disconnected_total. Qed.

Theorem C09_sys_step_noerr : forall y st, sys_step y st <> Err.
Proof. exact sys_step_noerr. Qed.

Print Assumptions C09_client_frame_noerr.
Print Assumptions C09_client_frame_disconnected_total.
Print Assumptions C09_sys_step_noerr.
Print Assumptions C09_disconnect_then_client_frame.
Print Assumptions C09_client_reset_fields.
Print Assumptions C09_client_reset_clean.
Print Assumptions C09_disconnect_forgets_client.
Print Assumptions C09_disconnect_step.
Print Assumptions C09_deliver_empty_noop.
Print Assumptions C09_reconnect_is_first_connection.
Print Assumptions C09_unknown_entity_sent_completely.
Print Assumptions C09_server_reset_clean.
Print Assumptions C09_stop_step.
Print Assumptions C09_stopped_frame_resets.
Print Assumptions C09_stopped_frame_no_second_reset.
Print Assumptions C09_server_frame_total.
Print Assumptions C09_server_steps_total.

(* ---- non-vacuity --------------------------------------------------------------------------- *)

Definition c09_cfg (track : bool) : cfg := mkCfg PAll AuthNone track 1000.
Definition c09_frame (ops : list sop) : step := StSFrame true 16 false ops [].

Fixpoint c09_outs (y : sys) (script : list step) : list (list client_out) :=
  match script with
  | [] => []
  | st :: r =>
    match sys_step y st with
    | Ok (y', OSFrame fo _) => fo_clients fo :: c09_outs y' r
    | Ok (y', _) => c09_outs y' r
    | _ => []
    end
  end.

Definition c09_final_view (y : sys) (script : list step) : option (list ent_view) :=
  match run y script with
  | Ok y' => match al_get 0 (y_clients y') with Some cl => Some (cv_ents (client_view cl)) | None => None end
  | _ => None
  end.

(* an observed disconnect: the reconnected client is sent the complete state again *)
Example C09_run_reconnect :
  c09_outs (sys_init (c09_cfg true) 1)
    [StStart; StConnect 0 1200; c09_frame [SSpawn 1 true [(0, VNat 5)]]; StDeliver 0 true 0 All; StDeliver 0 true 1 All;
     StCFrame 0 []; StDisconnect 0; StCFrame 0 []; StConnect 0 1200; c09_frame []] =
  [ [mkCO 0 (Some (mkUpd 1 [] [] [] [(1, [(0, VNat 5)])])) [mkMut 1 1 1 0 []] true];
    [mkCO 0 (Some (mkUpd 2 [] [] [] [(1, [(0, VNat 5)])])) [mkMut 2 2 1 0 []] true] ].
Proof. vm_compute. reflexivity. Qed.

(* the hypotheses of C09_client_reset_clean hold for the client of that run just before StDisconnect *)
Example C09_reset_instance :
  match run (sys_init (c09_cfg true) 1)
            [StStart; StConnect 0 1200; c09_frame [SSpawn 1 true [(0, VNat 5)]]; StDeliver 0 true 0 All;
             StDeliver 0 true 1 All; StCFrame 0 []] with
  | Ok y => match al_get 0 (y_clients y) with
            | Some cl => cl_status cl = Connected /\ cl_last_not_disconnected cl = true /\ mticks_ok true (cl_mticks cl) /\
                         cl_upd_tick cl = 1 /\ cl_s2c cl = [(1, 0)]
            | None => False
            end
  | _ => False
  end.
Proof. vm_compute. repeat split. Qed.

(* an observed stop: the frame of the stopped server resets, the restarted server has no client *)
Example C09_run_restart :
  match run (sys_init (c09_cfg false) 1)
            [StStart; StConnect 0 1200; c09_frame [SSpawn 1 true [(0, VNat 5)]]; StStop; c09_frame []; StStart] with
  | Ok y => sv_clients (y_server y) = [] /\ sv_tick (y_server y) = 0 /\ sv_running (y_server y) = true /\
            get_link y 0 = link_empty
  | _ => False
  end.
Proof. vm_compute. repeat split. Qed.

(* ---- witnesses: a session that ends and restarts between two frames ----------------------- *)

(* W1. StDisconnect immediately followed by StConnect, no client frame in between: the client's
   `reset` never runs.  A mutate message of the OLD session that was still buffered (it waited for
   update tick 2) is processed in the NEW session and its index 0 is acknowledged; the server reads
   this as the acknowledgement of the new session's message 0, which was lost, and never sends the
   value 7 again: the script is legal, the server ends up silent, the client keeps 6. *)
Definition c09_w1 : list step :=
  [StStart; StConnect 0 1200; c09_frame [SSpawn 1 true [(0, VNat 5)]];
   StDeliver 0 true 0 All; StCFrame 0 [];
   c09_frame [SInsert 1 1 (VNat 9)];            (* update message of tick 2: still in the link *)
   c09_frame [SMutate 1 0 (VNat 6)];            (* mutate message 0, needs update tick 2 *)
   StDeliver 0 true 1 All; StCFrame 0 [];       (* buffered by the client *)
   StDisconnect 0; StConnect 0 1200;            (* <- no client frame *)
   c09_frame [];                                (* complete state, tick 4 *)
   c09_frame [SMutate 1 0 (VNat 7)];            (* new session, mutate message 0 *)
   StDrop 0 true 1 All;                         (* lost (unreliable channel) *)
   StDeliver 0 true 0 All; StCFrame 0 [];       (* old message 0 processed: acknowledges [0] *)
   StDeliver 0 false 0 All;
   c09_frame []; c09_frame [];
   StDeliver 0 true 0 All; StDeliver 0 true 1 All; StCFrame 0 []].

Example C09_witness_reconnect_between_frames :
  legal c09_w1 = true /\
  (* the last two server frames send nothing *)
  skipn 5 (c09_outs (sys_init (c09_cfg false) 1) c09_w1) = [[mkCO 0 None [] false]; [mkCO 0 None [] false]] /\
  (* the server replicates 7, the client holds 6 *)
  match run (sys_init (c09_cfg false) 1) c09_w1 with
  | Ok y => server_views (y_server y) = [(0, [(1, [(0, VNat 7); (1, VNat 9)])])]
  | _ => False
  end /\
  option_map (map ev_comps) (c09_final_view (sys_init (c09_cfg false) 1) c09_w1) =
    Some [[(0, (false, None, 6)); (1, (false, None, 9))]].
Proof. vm_compute. repeat split. Qed.

(* W2. StStop immediately followed by StStart, no server frame in between: the server's `reset`
   never runs.  The update message carrying entity 1 died with the connection (StStop empties the
   links), but the restarted server still holds the client record that says the entity was sent:
   it is never sent again, and the mutate messages that follow wait forever for update tick 1. *)
Definition c09_w2 : list step :=
  [StStart; StConnect 0 1200; c09_frame [SSpawn 1 true [(0, VNat 5)]];
   StStop; StStart;                             (* <- no server frame *)
   c09_frame []; c09_frame [SMutate 1 0 (VNat 6)];
   StDeliver 0 true 0 All; StDeliver 0 true 1 All; StCFrame 0 [];
   c09_frame []; StDeliver 0 true 0 All; StDeliver 0 true 1 All; StCFrame 0 []].

Example C09_witness_restart_between_frames :
  legal c09_w2 = true /\
  c09_outs (sys_init (c09_cfg false) 1) c09_w2 =
  [ [mkCO 0 (Some (mkUpd 1 [] [] [] [(1, [(0, VNat 5)])])) [] false];
    [mkCO 0 None [] false];
    [mkCO 0 None [mkMut 1 3 1 0 [(1, [(0, VNat 6)])]] true];
    [mkCO 0 None [mkMut 1 4 1 1 [(1, [(0, VNat 6)])]] true] ] /\
  match run (sys_init (c09_cfg false) 1) c09_w2 with
  | Ok y => server_views (y_server y) = [(0, [(1, [(0, VNat 6)])])] /\
            match al_get 0 (y_clients y) with
            | Some cl => cl_status cl = Connected /\ cv_ents (client_view cl) = [] /\ length (cl_buffered cl) = 2%nat
            | None => False
            end
  | _ => False
  end.
Proof. vm_compute. repeat split. Qed.
