(* C05 end to end, over whole-system runs with remote events -- "Over reliable channels every event or trigger sent while a
   session is up is delivered exactly once to each intended recipient ... and to nobody else, and events of one type on an
   ordered channel arrive in sending order; over unreliable channels delivery is at most once.  A client never receives an
   event sent before it connected, nothing is sent again on later frames ..."

   Properties/C05.v pins the stages (recipients, buffer, channel, receiving side) per step.  Here: invariants of whole runs
   `erun (syse_init c n) script`, with the ghost ledger `lghost` of Events/RemoteRun.v (`lrun`; `crun` threads it together
   with the ghost of the replication layer of Properties/C04E.v):
       lt_sent / lt_got / lt_unm / lt_disc / lt_drop   per slot, whole run: handed to the backend / handed to game logic /
                                                       dropped as unresolvable / discarded by a session end / dropped by
                                                       the unreliable channel
       ssent / snow                                    per slot, current session: handed to the backend / handed to the
                                                       conversion step of the client (`eo_got` is its `deliverable` image)
   E2  conservation, for EVERY script (no premise at all): per slot and for every way of counting (every predicate on
       messages, in particular "carries sequence number q"): held (in flight + inbox + queue) + got + unresolvable +
       discarded + dropped = sent (C05E_ledger_balance).  Hence at most once; exactly once for a message that is sent,
       no longer held, not discarded, not dropped, and resolvable (C05E_exactly_once_when_drained).
   E2  once, under [escript_ok] and distinct sequence numbers (`seqs_distinct`): for every number q and slot,
       [q buffered] + [q still to be emitted] + [q handed to the backend for the slot] never increases (C05E_potential):
       an event is sent at most once per slot in the whole run (C05E_sent_once), never again once it is flushed
       (C05E_not_resent: 0 for ever for a slot that was not a recipient), and a recipient of the flush has exactly one
       copy accounted for from then on (C05E_one_copy; who the recipients are: C05_send_buffered_recipients).
   E2  late joiners, every script: the ghost `births` (`brun`) records the connection-id counter at the creation of every
       buffered set; a recipient of a flush has an id below the birth of the event's set: it was connected when the event
       was emitted (C05E_births_invariant, C05E_recipient_connected_before_emission).
   E2  client events, every script: the mirror ledger `cledger` (`clrun`) per SENDER slot (C05E_client_events_balance).
   E2  attribution, under [escript_ok] (Properties/C04E.v): everything a live connection holds or has handed to its game
       logic was handed to the backend for it in its CURRENT session (C05E_attribution) - with
       C05_no_event_from_before_connection (a connection is excluded from everything buffered when it starts) nothing
       sent before the connect reaches it.  Without `sessions_ok`: C05_quick_reconnect_receives_old_event.
   E3  order, under [escript_ok]: for every event type but the unreliable SEU, what a live connection has handed to its
       conversion step, followed by what it still holds (queue, inbox, link), is what was sent to it in this session, in
       sending order (C05E_order): events of one type are observed in sending order and none is skipped; the stamps of a
       type never decrease in sending order (C05E_attribution).  Client side: C05E_frame_order.
   Proofs: Events/RemoteRunLedger_proofs.v, Events/RemoteRunQueue_proofs.v, Events/RemoteRunOrder_proofs.v,
   Events/RemoteRunOnce_proofs.v, Events/RemoteRunE2_proofs.v, Events/RemoteRunBirth_proofs.v, Events/RemoteRunC2S_proofs.v. *)
From Coq Require Import Sorted Permutation.
From RV Require Import Lib.Res Repl.ClientTicks Repl.World Repl.Server Repl.Client Repl.Sys Tick.RepliconTick
  Repl.StructE2EMut_proofs Repl.StructE2ESess_proofs Repl.ValSpec.
From RV Require Import Events.Remote Events.RemoteSpec Events.Remote_proofs Events.RemoteRun Events.RemoteRunProj_proofs
  Events.RemoteRunTick_proofs Events.RemoteRunE1_proofs Events.RemoteRunLedger_proofs Events.RemoteRunQueue_proofs
  Events.RemoteRunOrder_proofs Events.RemoteRunOnce_proofs Events.RemoteRunE2_proofs Events.RemoteRunBirth_proofs Events.RemoteRunC2S_proofs.
Open Scope N_scope.

(* ---------- the runs with ghosts are the runs ---------- *)

Theorem C05E_ghost_runs : forall script e gu gl e' os,
  (forall gu' gl', crun e (gu, gl) script = Ok (e', (gu', gl'), os) ->
     urun e gu script = Ok (e', gu', os) /\ lrun e gl script = Ok (e', gl', os) /\ RemoteSpec.erun e script = Ok (e', os)) /\
  (RemoteSpec.erun e script = Ok (e', os) -> exists gu' gl', crun e (gu, gl) script = Ok (e', (gu', gl'), os)).
Proof.
  intros. split.
  - intros gu' gl' H. destruct (crun_split _ _ _ _ _ _ _ _ H) as [A B]. split; [exact A|]. split; [exact B|]. exact (grun_erun _ _ _ _ _ _ _ _ A).
  - apply crun_exists.
Qed.

(* what the ledger records in a server frame and in a frame of a connected client *)
Theorem C05E_ledger_server_frame : forall e gl tick dt cleanup ops parts emit e' o slot,
  ssent (lstep e gl (ESFrame tick dt cleanup ops parts emit) e' o) slot = ssent gl slot ++ msgs_for slot (eo_sent o) /\
  snow (lstep e gl (ESFrame tick dt cleanup ops parts emit) e' o) slot = snow gl slot.
Proof. exact ledger_sframe. Qed.

Theorem C05E_ledger_client_frame : forall e gl slot ops emit e' o cb, clients_dom e ->
  syse_step e (ECFrame slot ops emit) = Ok (e', o) ->
  al_get slot (y_clients (e_sys e)) = Some cb -> cl_status cb = Connected ->
  exists cl now, al_get slot (y_clients (e_sys e')) = Some cl /\
    snow (lstep e gl (ECFrame slot ops emit) e' o) slot = snow gl slot ++ now /\
    ssent (lstep e gl (ECFrame slot ops emit) e' o) slot = ssent gl slot /\
    eo_got o = omap (deliverable cl) now.
Proof. exact ledger_cframe. Qed.

(* ---------- E2: conservation ---------- *)

Theorem C05E_ledger_balance : forall c n script e g os,
  lrun (syse_init c n) lg_init script = Ok (e, g, os) ->
  forall (p : smsg -> bool) slot,
    (cnt p (held_all e slot) + cnt p (for_slot slot (lt_got g)) + cnt p (for_slot slot (lt_unm g))
     + cnt p (for_slot slot (lt_disc g)) + cnt p (for_slot slot (lt_drop g)))%nat = cnt p (for_slot slot (lt_sent g)).
Proof. intros c n script e g os H. exact (proj1 (ledger_run c n script e g os H)). Qed.

(* one step, from any state in which every client app has its event state *)
Theorem C05E_ledger_step : forall e g st e' o, clients_dom e -> ledger_ok e g -> syse_step e st = Ok (e', o) ->
  ledger_ok e' (lstep e g st e' o).
Proof. exact ledger_step. Qed.

(* at most once, whatever the channel does: a message is handed to game logic no more often than it was handed to the
   backend for that slot *)
Theorem C05E_at_most_once : forall c n script e g os,
  lrun (syse_init c n) lg_init script = Ok (e, g, os) ->
  forall (p : smsg -> bool) slot, (cnt p (for_slot slot (lt_got g)) <= cnt p (for_slot slot (lt_sent g)))%nat.
Proof.
  intros c n script e g os H p slot. pose proof (C05E_ledger_balance c n script e g os H p slot). lia.
Qed.

(* exactly once: what was sent once and is neither held any more, nor discarded by a session end, nor dropped by the
   unreliable channel, nor unresolvable, has been handed to game logic exactly once *)
Theorem C05E_exactly_once_when_drained : forall c n script e g os,
  lrun (syse_init c n) lg_init script = Ok (e, g, os) ->
  forall (p : smsg -> bool) slot,
    cnt p (for_slot slot (lt_sent g)) = 1%nat -> cnt p (held_all e slot) = 0%nat ->
    cnt p (for_slot slot (lt_disc g)) = 0%nat -> cnt p (for_slot slot (lt_drop g)) = 0%nat ->
    cnt p (for_slot slot (lt_unm g)) = 0%nat ->
    cnt p (for_slot slot (lt_got g)) = 1%nat.
Proof.
  intros c n script e g os H p slot A B C D E. pose proof (C05E_ledger_balance c n script e g os H p slot). lia.
Qed.

(* everything the client side of a slot holds was handed to the backend for that slot (every run) *)
Theorem C05E_held_was_sent : forall c n script e g os,
  lrun (syse_init c n) lg_init script = Ok (e, g, os) ->
  forall slot m, In m (held_all e slot) -> In m (for_slot slot (lt_sent g)).
Proof. exact held_in_sent. Qed.

(* ---------- E2: nothing is sent twice, exactly one copy per recipient ---------- *)

(* for every sequence number q and every slot: [q among the buffered events] + [q among the emissions still to come] +
   [q among the messages handed to the backend for the slot] never increases along a run *)
Theorem C05E_potential : forall c n rest q slot pre e g os e' g' os',
  escript_ok (pre ++ rest) = true -> tick_frames (proj_script (pre ++ rest)) < 2 ^ 31 ->
  lrun (syse_init c n) lg_init pre = Ok (e, g, os) -> lrun e g rest = Ok (e', g', os') ->
  (cq q (buffer_seqs e') + cq q (future_seqs []) + count_seq q (for_slot slot (lt_sent g'))
   <= cq q (buffer_seqs e) + cq q (future_seqs rest) + count_seq q (for_slot slot (lt_sent g)))%nat.
Proof. exact phi_mono. Qed.

(* with distinct sequence numbers an event is handed to the backend at most once per slot in the whole run *)
Theorem C05E_sent_once : forall c n script e g os q slot,
  escript_ok script = true -> tick_frames (proj_script script) < 2 ^ 31 -> seqs_distinct script ->
  lrun (syse_init c n) lg_init script = Ok (e, g, os) -> (count_seq q (for_slot slot (lt_sent g)) <= 1)%nat.
Proof. exact e2_sent_once. Qed.

(* nothing is sent again on later frames: once an event is neither buffered nor among the emissions still to come, the
   number of its messages handed to the backend for any slot is final (0 for every slot that was not a recipient) *)
Theorem C05E_not_resent : forall c n pre rest e g os e' g' os' q slot,
  escript_ok (pre ++ rest) = true -> tick_frames (proj_script (pre ++ rest)) < 2 ^ 31 ->
  lrun (syse_init c n) lg_init pre = Ok (e, g, os) -> lrun e g rest = Ok (e', g', os') ->
  cq q (buffer_seqs e) = 0%nat -> cq q (future_seqs rest) = 0%nat ->
  count_seq q (for_slot slot (lt_sent g')) = count_seq q (for_slot slot (lt_sent g)).
Proof. exact e2_not_resent. Qed.

(* a recipient of the flush (C05_send_buffered_recipients says who they are: the authorized, not excluded connections
   of the mode): from then on exactly one message, and exactly one copy accounted for *)
Theorem C05E_one_copy : forall c n pre st rest e1 g1 os1 e2 o2 e3 g3 os3 slot m q,
  escript_ok ((pre ++ [st]) ++ rest) = true -> tick_frames (proj_script ((pre ++ [st]) ++ rest)) < 2 ^ 31 ->
  seqs_distinct ((pre ++ [st]) ++ rest) ->
  lrun (syse_init c n) lg_init pre = Ok (e1, g1, os1) -> syse_step e1 st = Ok (e2, o2) ->
  lrun e2 (lstep e1 g1 st e2 o2) rest = Ok (e3, g3, os3) ->
  In (slot, m) (eo_sent o2) -> sm_seq m = q ->
  count_seq q (for_slot slot (lt_sent g3)) = 1%nat /\
  (count_seq q (held_all e3 slot) + count_seq q (for_slot slot (lt_got g3)) + count_seq q (for_slot slot (lt_unm g3))
   + count_seq q (for_slot slot (lt_disc g3)) + count_seq q (for_slot slot (lt_drop g3)))%nat = 1%nat.
Proof. exact e2_one_copy. Qed.

(* ---------- E2: a client never receives an event sent before it connected ---------- *)

(* the ghost `births` (run `brun`): for every buffered set the value of the connection-id counter when the set was
   created, i.e. in the server frame of the emission.  In every run: a connection whose id is not below the birth of a
   set (it started in or after that frame: its id is the counter's value at its `StConnect`,
   C05_no_event_from_before_connection) is excluded from the set *)
Theorem C05E_births_invariant : forall c n script e b os,
  brun (syse_init c n) [] script = Ok (e, b, os) ->
  Forall2 (fun set birth => birth <= e_next_uid e /\
                            forall slot uid, uid_of e slot = Some uid -> birth <= uid -> In uid (bs_excluded set)) (e_buffer e) b.
Proof. exact binv_run. Qed.

(* hence a dependent event is flushed only to connections that existed when it was emitted: the id of a recipient is
   below the birth of the event's set (the last birth, `e_next_uid e`, is that of the set of this frame's emissions) *)
Theorem C05E_recipient_connected_before_emission : forall c n pre e b os tick dt cleanup ops parts emit e' o,
  brun (syse_init c n) [] pre = Ok (e, b, os) -> syse_step e (ESFrame tick dt cleanup ops parts emit) = Ok (e', o) ->
  forall slot m, In (slot, m) (eo_sent o) -> sm_tick m <> None ->
  exists uid birth, uid_of e slot = Some uid /\ In birth (b ++ [e_next_uid e]) /\ uid < birth /\
                    (forall birth', In birth' b -> birth' <= e_next_uid e).
Proof. exact recipient_born_before_run. Qed.

(* ---------- E2, client events: the mirror statement towards the server, with the sender's slot ---------- *)

(* the ledger `cledger` (run `clrun`): per sender slot, in the link + received by the server backend + handed to server
   logic tagged with that slot (`eo_from`) + discarded (session end, stopped server, sender without record) = handed to
   the backend by the client app of that slot (`eo_csent`); for every predicate, in every run: at most once, nothing
   under a wrong sender, exactly once when nothing is held or discarded *)
Theorem C05E_client_events_balance : forall c n script e g os,
  clrun (syse_init c n) cl_init script = Ok (e, g, os) ->
  forall (p : cev -> bool) slot,
    (cntc p (chan_c2s e slot) + cntc p (for_slot slot (e_inbox e)) + cntc p (for_slot slot (lc_from g))
     + cntc p (for_slot slot (lc_disc g)))%nat = cntc p (for_slot slot (lc_sent g)).
Proof. exact cledger_run. Qed.

(* ---------- E2 attribution and E3 order: the invariant of live connections ---------- *)

Theorem C05E_invariant : forall c n script e gu gl os,
  escript_ok script = true -> tick_frames (proj_script script) < 2 ^ 31 ->
  crun (syse_init c n) (ug_init, lg_init) script = Ok (e, (gu, gl), os) -> oinv script e gu gl.
Proof. exact oinv_run. Qed.

Theorem C05E_attribution : forall c n script e gu gl os slot cl,
  escript_ok script = true -> tick_frames (proj_script script) < 2 ^ 31 ->
  crun (syse_init c n) (ug_init, lg_init) script = Ok (e, (gu, gl), os) ->
  al_get slot (y_clients (e_sys e)) = Some cl -> emode script slot = MLive -> cl_status cl = Connected ->
  (forall m, In m (held_msgs e slot cl) \/ In m (snow gl slot) -> In m (ssent gl slot)) /\
  (forall m, In m (ssent gl slot) -> msg_ok m) /\
  (forall t, nondecr (map skey (filter (tyf t) (ssent gl slot)))) /\
  (forall m tk, In m (ssent gl slot) -> sm_tick m = Some tk -> tk = 0 \/ In tk (map u_tick (usent gu slot))).
Proof. exact e3_attribution. Qed.

Theorem C05E_order : forall c n script e gu gl os slot cl t,
  escript_ok script = true -> tick_frames (proj_script script) < 2 ^ 31 ->
  crun (syse_init c n) (ug_init, lg_init) script = Ok (e, (gu, gl), os) ->
  al_get slot (y_clients (e_sys e)) = Some cl -> emode script slot = MLive -> cl_status cl = Connected ->
  reliable_ty t = true ->
  filter (tyf t) (snow gl slot) ++ filter (tyf t) (live_q e slot cl) ++ filter (tyf t) (inbox_of e slot)
    ++ filter (tyf t) (chan_s2c e slot) = filter (tyf t) (ssent gl slot) /\
  is_prefix (filter (tyf t) (snow gl slot)) (filter (tyf t) (ssent gl slot)).
Proof. exact e3_order. Qed.

(* the client side of E3, all states: ticks below half the range, a queue sorted by tick, and for the type t stamps that
   do not decrease from the queue to the inbox: what the frame hands on followed by what stays queued is what was
   queued followed by what had arrived *)
Theorem C05E_frame_order : forall c ce,
  queue_wf (ce_queue ce) -> qsorted (ce_queue ce) -> qsmall (ce_queue ce) -> cl_upd_tick c < 2 ^ 31 ->
  (forall m tk, In m (ce_inbox ce) -> sm_tick m = Some tk -> tk < 2 ^ 31) ->
  let ce' := fst (client_receive c ce) in
  (forall t, stream_ok t ce ->
     filter (tyf t) (frame_now c ce) ++ filter (tyf t) (map snd (ce_queue ce'))
     = filter (tyf t) (map snd (ce_queue ce)) ++ filter (tyf t) (ce_inbox ce)) /\
  queue_wf (ce_queue ce') /\ qsorted (ce_queue ce') /\ qsmall (ce_queue ce').
Proof. exact frame_order. Qed.

Theorem C05E_frame_now : forall c ce,
  snd (client_receive c ce) = omap (deliverable c) (frame_now c ce) /\
  Permutation (map snd (ce_queue ce) ++ ce_inbox ce) (frame_now c ce ++ map snd (ce_queue (fst (client_receive c ce)))).
Proof. exact frame_now_spec. Qed.

Print Assumptions C05E_ghost_runs.
Print Assumptions C05E_ledger_server_frame.
Print Assumptions C05E_ledger_client_frame.
Print Assumptions C05E_ledger_balance.
Print Assumptions C05E_ledger_step.
Print Assumptions C05E_at_most_once.
Print Assumptions C05E_exactly_once_when_drained.
Print Assumptions C05E_held_was_sent.
Print Assumptions C05E_potential.
Print Assumptions C05E_sent_once.
Print Assumptions C05E_not_resent.
Print Assumptions C05E_one_copy.
Print Assumptions C05E_births_invariant.
Print Assumptions C05E_recipient_connected_before_emission.
Print Assumptions C05E_client_events_balance.
Print Assumptions C05E_invariant.
Print Assumptions C05E_attribution.
Print Assumptions C05E_order.
Print Assumptions C05E_frame_order.
Print Assumptions C05E_frame_now.

(* ---------- the statements are not vacuous ---------- *)

Definition c05e_cfg : cfg := mkCfg PAll AuthNone false 10000.
Definition esf5 (tick : bool) (ops : list sop) (emit : list (sety * (N * bool * bool) * N * option N)) : estep :=
  ESFrame tick 16 false ops [] emit.

(* two clients.  Tick 1 spawns entity 1 and emits SE0/1 (broadcast), SEM/2 about the unreplicated entity 9 (to client 0),
   SEU/3 (broadcast) and the independent SEI/4 (to all but client 1).  Client 0: everything arrives, SEU/3 is dropped by
   the channel, SEM/2 is unresolvable.  Client 1: SE0/1 reaches its inbox, SEU/3 is still in flight when it is
   disconnected; it runs a frame, reconnects, and receives SE0/5 of the next tick in its second session. *)
Definition c05e_pre : list estep := [EBase StStart; EBase (StConnect 0 1200); EBase (StConnect 1 1200)].
Definition c05e_flush : estep :=
  esf5 true [SSpawn 1 true [(0, VNat 5)]]
       [(SE0, (999, false, false), 1, None); (SEM, (0, false, true), 2, Some 9); (SEU, (999, false, false), 3, None);
        (SEI, (1, true, false), 4, None)].
Definition c05e_rest : list estep :=
  [EBase (StDeliver 0 true 0 All);
   EDeliverS2C 0 SE0 All false; EDeliverS2C 0 SEM All false; EDeliverS2C 0 SEU All true; EDeliverS2C 0 SEI All false;
   EDeliverS2C 1 SE0 First false;
   ECFrame 0 [] [];
   EBase (StDisconnect 1); ECFrame 1 [] []; EBase (StConnect 1 1200);
   esf5 true [] [(SE0, (999, false, false), 5, None)];
   EDeliverS2C 1 SE0 All false; EBase (StDeliver 1 true 0 All); ECFrame 1 [] []].
Definition c05e_script : list estep := (c05e_pre ++ [c05e_flush]) ++ c05e_rest.

(* (slot, sequence number) of: session sent, session now, sent, got, unresolvable, discarded, dropped; the links *)
Definition c05e_view (r : res (syse * cghost * list eout)) :=
  match r with
  | Ok (e, (gu, gl), os) =>
    let f := map (fun sm : N * smsg => (fst sm, sm_seq (snd sm))) in
    Some (f (lg_sent gl), f (lg_now gl), f (lt_sent gl), f (lt_got gl), f (lt_unm gl), f (lt_disc gl), f (lt_drop gl),
          map (fun kv => (fst kv, map sm_seq (snd kv))) (e_s2c e))
  | _ => None
  end.

Example C05E_ex_run :
  escript_ok c05e_script = true /\ tick_frames (proj_script c05e_script) = 2 /\
  emode c05e_script 0 = MLive /\ emode c05e_script 1 = MLive /\
  c05e_view (crun (syse_init c05e_cfg 2) (ug_init, lg_init) c05e_script)
  = Some ([(0, 4); (0, 1); (0, 2); (0, 3); (0, 5); (1, 5)], [(0, 1); (0, 4); (0, 2); (1, 5)],
          [(0, 4); (0, 1); (1, 1); (0, 2); (0, 3); (1, 3); (0, 5); (1, 5)],
          [(0, 1); (0, 4); (1, 5)], [(0, 2)], [(1, 3); (1, 1)], [(0, 3)], [(0, [5]); (1, [])]) /\
  map eo_got (match RemoteSpec.erun (syse_init c05e_cfg 2) c05e_script with Ok (_, os) => os | _ => [] end)
  = [[]; []; []; []; []; []; []; []; []; []; [(SE0, 1, None); (SEI, 4, None)]; []; []; []; []; []; []; [(SE0, 5, None)]].
Proof. vm_compute. repeat split; reflexivity. Qed.

(* the theorems instantiated on the run: the balance of every slot for "sequence number q", the order of SE0 *)
Example C05E_ex_instance :
  exists e gu gl os, crun (syse_init c05e_cfg 2) (ug_init, lg_init) c05e_script = Ok (e, (gu, gl), os) /\
    (forall q slot,
       (count_seq q (held_all e slot) + count_seq q (for_slot slot (lt_got gl)) + count_seq q (for_slot slot (lt_unm gl))
        + count_seq q (for_slot slot (lt_disc gl)) + count_seq q (for_slot slot (lt_drop gl)))%nat
       = count_seq q (for_slot slot (lt_sent gl))) /\
    (forall slot cl, al_get slot (y_clients (e_sys e)) = Some cl -> emode c05e_script slot = MLive -> cl_status cl = Connected ->
       is_prefix (filter (tyf SE0) (snow gl slot)) (filter (tyf SE0) (ssent gl slot))).
Proof.
  destruct (crun (syse_init c05e_cfg 2) (ug_init, lg_init) c05e_script) as [[[e [gu gl]] os]| |] eqn:E; [|vm_compute in E; discriminate..].
  exists e, gu, gl, os. split; [reflexivity|]. split.
  - intros q slot. destruct (crun_split _ _ _ _ _ _ _ _ E) as [_ L].
    exact (C05E_ledger_balance c05e_cfg 2 c05e_script e gl os L (fun m => sm_seq m =? q) slot).
  - intros slot cl Hc Hm Hs.
    assert (Hb : tick_frames (proj_script c05e_script) < 2 ^ 31) by (rewrite (proj1 (proj2 C05E_ex_run)); reflexivity).
    exact (proj2 (C05E_order c05e_cfg 2 c05e_script e gu gl os slot cl SE0 (proj1 C05E_ex_run) Hb E Hc Hm Hs eq_refl)).
Qed.

Example C05E_ex_seqs : seqs_distinct c05e_script.
Proof. unfold seqs_distinct. vm_compute. repeat constructor; cbn; intuition discriminate. Qed.

(* C05E_sent_once and C05E_one_copy on the run: SE0/1 was flushed to both clients by `c05e_flush` *)
Example C05E_ex_once :
  exists e g os, lrun (syse_init c05e_cfg 2) lg_init c05e_script = Ok (e, g, os) /\
    (forall q slot, (count_seq q (for_slot slot (lt_sent g)) <= 1)%nat) /\
    (forall slot, slot = 0 \/ slot = 1 ->
       (count_seq 1 (held_all e slot) + count_seq 1 (for_slot slot (lt_got g)) + count_seq 1 (for_slot slot (lt_unm g))
        + count_seq 1 (for_slot slot (lt_disc g)) + count_seq 1 (for_slot slot (lt_drop g)))%nat = 1%nat).
Proof.
  assert (Hb : tick_frames (proj_script c05e_script) < 2 ^ 31) by (rewrite (proj1 (proj2 C05E_ex_run)); reflexivity).
  destruct (lrun (syse_init c05e_cfg 2) lg_init c05e_pre) as [[[e1 g1] os1]| |] eqn:E1; [|vm_compute in E1; discriminate..].
  destruct (syse_step e1 c05e_flush) as [[e2 o2]| |] eqn:E2; [|vm_compute in E1; injection E1 as <- _ _; vm_compute in E2; discriminate..].
  destruct (lrun e2 (lstep e1 g1 c05e_flush e2 o2) c05e_rest) as [[[e g] os3]| |] eqn:E3;
    [|vm_compute in E1; injection E1 as <- <- _; vm_compute in E2; injection E2 as <- <-; vm_compute in E3; discriminate..].
  assert (E : lrun (syse_init c05e_cfg 2) lg_init c05e_script = Ok (e, g, (os1 ++ [o2]) ++ os3)).
  { unfold c05e_script, lrun in *. rewrite !grun_app, E1. cbn [bind grun]. rewrite E2. cbn [bind]. rewrite E3. reflexivity. }
  exists e, g, ((os1 ++ [o2]) ++ os3). split; [exact E|]. split.
  - intros q slot. exact (C05E_sent_once c05e_cfg 2 c05e_script e g _ q slot (proj1 C05E_ex_run) Hb C05E_ex_seqs E).
  - intros slot Hslot.
    assert (Hin : In (slot, mkSMsg SE0 (Some 1) 1 None) (eo_sent o2)).
    { vm_compute in E1. injection E1 as <- _ _. vm_compute in E2. injection E2 as _ <-. destruct Hslot as [-> | ->]; vm_compute; tauto. }
    exact (proj2 (C05E_one_copy c05e_cfg 2 c05e_pre c05e_flush c05e_rest e1 g1 os1 e2 o2 e g os3 slot _ 1 (proj1 C05E_ex_run) Hb C05E_ex_seqs E1 E2 E3 Hin eq_refl)).
Qed.

(* a client connecting between the emission and the flush: client 0 connected, SE0/7 emitted in a frame without tick,
   client 1 connects (id 2), the next tick flushes SE0/7 to client 0 only; the set was born at counter value 2 *)
Definition c05e_late : list estep :=
  [EBase StStart; EBase (StConnect 0 1200); esf5 true [] []; esf5 false [] [(SE0, (999, false, false), 7, None)]; EBase (StConnect 1 1200)].
Example C05E_ex_late_joiner :
  match brun (syse_init c05e_cfg 2) [] c05e_late with
  | Ok (e, b, _) => Some (b, e_uids e, map bs_excluded (e_buffer e),
                          match syse_step e (esf5 true [] []) with Ok (_, o) => Some (eo_sent o) | _ => None end)
  | _ => None
  end = Some ([2], [(0, 1); (1, 2)], [[2]], Some [(0, mkSMsg SE0 (Some 0) 7 None)]).
Proof. vm_compute. reflexivity. Qed.

(* client events: client 0 sends CE0/5 and CEM/3 (about the mapped entity 1); CE0/5 reaches server logic tagged with slot 0,
   CEM/3 is still in the link when client 0 is disconnected *)
Definition c05e_c2s : list estep :=
  [EBase StStart; EBase (StConnect 0 1200); esf5 true [SSpawn 1 true [(0, VNat 5)]] [];
   EBase (StDeliver 0 true 0 All); ECFrame 0 [] [mkCev CEM 3 (Some 1); mkCev CE0 5 None];
   EDeliverC2S 0 CE0 All; esf5 true [] []; EBase (StDisconnect 0)].
Example C05E_ex_client_events :
  match clrun (syse_init c05e_cfg 1) cl_init c05e_c2s with
  | Ok (e, g, os) => Some (lc_sent g, lc_from g, lc_disc g, e_c2s e, e_inbox e)
  | _ => None
  end = Some ([(0, mkCev CE0 5 None); (0, mkCev CEM 3 (Some 1))], [(0, mkCev CE0 5 None)], [(0, mkCev CEM 3 (Some 1))], [(0, [])], []).
Proof. vm_compute. reflexivity. Qed.
