(* C17 -- example transport (bevy_replicon_example_backend), logic part:
   "With no link conditioner configured, every message of ordinary size handed to the
   example backend arrives exactly once and, per channel, in sending order, no matter how
   many messages pile up between two frames of the receiver.  The byte framing hands every
   payload to the receiver unchanged on the channel it was sent on."

   Proved here: framing round trip and read loop (tcp.rs + the `loop` of receive_packets),
   conditioner without configuration (link_conditioner.rs + the `while let` of
   receive_packets), and their composition.
   Not proved, exercised by the correspondence check: the kernel's TCP (bytes written arrive
   once, in order), whole-frame arrival over loopback (otherwise `read_exact` on the
   non-blocking socket loses data: outcome ShortRead of the model, outside every theorem
   below), std's BinaryHeap popping a greatest element w.r.t. `Ord`.
   This file only pins statements; proofs live in Backend/*_proofs.v. *)
From RV Require Import Lib.Res Backend.Framing Backend.Framing_proofs
  Backend.Conditioner Backend.Conditioner_proofs Backend.Receive Backend.Receive_proofs.
Open Scope N_scope.

(* ordinary size = what send_message accepts: channel < 2^8, payload shorter than 2^16 *)
Theorem C17_ordinary_size : forall c p, (exists bs, frame c p = Ok bs) <-> msg_ok (c, p).
Proof. exact frame_ok_iff. Qed.

(* both send loops write the frames back to back; the read loop returns exactly the
   messages, payloads and channels unchanged, in order, leaves nothing in the socket and
   ends with WouldBlock *)
Theorem C17_framing_roundtrip : forall ms, Forall msg_ok ms ->
  send_packets_client ms = (wire_of ms, true) /\
  send_packets_server ms = (wire_of ms, true) /\
  parse_all false (wire_of ms) = (ms, StopWouldBlock, []).
Proof. exact framing_roundtrip. Qed.

(* one frame in front of arbitrary following bytes: exactly its bytes are consumed *)
Theorem C17_read_message_frame : forall closed c p rest, N.of_nat (length p) < 65536 ->
  read_message closed (frame_bytes c p ++ rest) = Frame c p rest.
Proof. exact read_message_frame. Qed.

(* whole frames followed by anything: read them, then continue with what follows *)
Theorem C17_framing_app : forall closed ms b, Forall msg_ok ms ->
  parse_all closed (wire_of ms ++ b) =
  let '(ms', stop, lft) := parse_all closed b in (ms ++ ms', stop, lft).
Proof. exact parse_all_app. Qed.

(* the stream consumed in several receiver frames, each chunk any number of whole messages *)
Theorem C17_framing_rounds : forall mss, Forall (Forall msg_ok) mss ->
  parse_rounds [] (map wire_of mss) = mss.
Proof. exact parse_rounds_whole. Qed.

(* a chunk boundary inside a header (1 or 2 bytes) loses nothing *)
Theorem C17_framing_partial_header : forall closed ms tail, Forall msg_ok ms ->
  (0 < length tail < 3)%nat ->
  parse_all closed (wire_of ms ++ tail) = (ms, StopWouldBlock, tail).
Proof. exact parse_all_partial_header. Qed.

(* Conditioner without configuration.  For every sequence of receiver frames
   (now_i, batch_i) - the `now` values need not even be monotone - started with an empty
   heap: every frame forwards exactly its batch in order, hence the concatenated output is
   the concatenated input (exactly once; per channel in sending order by filtering both
   sides).  The bound is the u64 sequence counter. *)
Theorem C17_conditioner_fifo : forall frames st, heap st = [] ->
  next_sequence st + total_messages frames < 2 ^ 64 ->
  exists trace, run_frames st frames = Ok trace /\
    map fst trace = map snd frames /\
    concat (map fst trace) = concat (map snd frames).
Proof. exact conditioner_fifo. Qed.

Theorem C17_conditioner_per_channel : forall frames st ch, heap st = [] ->
  next_sequence st + total_messages frames < 2 ^ 64 ->
  exists trace, run_frames st frames = Ok trace /\
    filter (fun m => fst m =? ch) (concat (map fst trace)) =
    filter (fun m => fst m =? ch) (concat (map snd frames)).
Proof. exact conditioner_per_channel. Qed.

Theorem C17_conditioner_empty_after_frame : forall frames st trace, heap st = [] ->
  next_sequence st + total_messages frames < 2 ^ 64 ->
  run_frames st frames = Ok trace ->
  Forall (fun st' => heap st' = []) (map snd trace).
Proof. exact conditioner_empty_after_frame. Qed.

(* the hook-shaped function compared against verif_hooks::conditioner_batches *)
Theorem C17_conditioner_batches : forall batches,
  N.of_nat (length (concat batches)) < 2 ^ 64 ->
  conditioner_batches batches = Ok (concat batches).
Proof. exact conditioner_batches_spec. Qed.

(* the `while let` loop is really finished: one more pop returns None *)
Theorem C17_drain_stops : forall now st, pop now (snd (drain now st)) = None.
Proof. exact (drain_stops key_ltb). Qed.

(* sender + socket + receiver: messages grouped arbitrarily between receiver frames *)
Theorem C17_backend_exactly_once_in_order : forall groups,
  Forall (fun g => Forall msg_ok (snd g)) groups ->
  total_messages groups < 2 ^ 64 ->
  exists outs, backend_run new_connection (map sent_bytes groups) = Ok outs /\
    concat outs = concat (map snd groups).
Proof. exact backend_exactly_once_in_order. Qed.

(* totality *)
Theorem C17_frame_total : forall c p, frame c p <> Panic.
Proof. exact frame_never_panics. Qed.
Theorem C17_insert_total : forall st ts c p, next_sequence st + 1 < 2 ^ 64 -> insert st ts c p <> Panic.
Proof. exact insert_never_panics. Qed.
Theorem C17_parse_all_fuel_ok : forall closed avail, snd (fst (parse_all closed avail)) <> StopFuel.
Proof. exact parse_all_no_fuel_stop. Qed.
(* read_message / parse_all have no Panic outcome by construction (type read_result). *)

(* what is read is valid and literally a prefix of the stream *)
Theorem C17_read_message_valid : forall closed avail c p rest, bytes_ok avail ->
  read_message closed avail = Frame c p rest -> msg_ok (c, p) /\ bytes_ok p /\ bytes_ok rest.
Proof. exact read_message_valid. Qed.

(* before the fix (timestamp-only order) the heap contract does not determine the order *)
Theorem C17_old_order_not_determined :
  conditioner_batches_by ts_leb [[(0, [1]); (0, [2])]] = Ok [(0, [1]); (0, [2])] /\
  conditioner_batches_by ts_ltb [[(0, [1]); (0, [2])]] = Ok [(0, [2]); (0, [1])].
Proof. exact old_order_not_determined. Qed.

(* ---- non-vacuity and concrete behaviour ---- *)
Example C17_msg_ok_boundary : msg_ok (255, repeat 7 1200) /\ ~ msg_ok (256, []).
Proof. split; [split; vm_compute; reflexivity|]. intros [H _]. vm_compute in H. discriminate. Qed.

Example C17_frame_concrete :
  frame 3 [10; 20] = Ok [3; 2; 0; 10; 20] /\ frame 256 [] = Err /\
  frame 0 (repeat 0 300) = Ok (0 :: 44 :: 1 :: repeat 0 300).
Proof. repeat split; vm_compute; reflexivity. Qed.

Example C17_read_concrete :
  read_message false [] = WouldBlock /\ read_message true [] = Eof /\
  read_message true [1; 2] = WouldBlock /\
  read_message false [3; 2; 0; 10; 20; 9] = Frame 3 [10; 20] [9] /\
  read_message false [3; 2; 0; 10] = ShortRead.
Proof. repeat split; reflexivity. Qed.

(* three messages on two channels, all read in one receiver frame *)
Example C17_roundtrip_concrete :
  parse_all false (wire_of [(0, [1]); (1, []); (0, [2; 3])]) =
    ([(0, [1]); (1, []); (0, [2; 3])], StopWouldBlock, []).
Proof. vm_compute. reflexivity. Qed.

(* messages piling up: 3 in the first receiver frame, 0 in the second, 1 in the third,
   at the same `now` twice *)
Example C17_conditioner_concrete :
  conditioner_batches [[(0, [1]); (1, [9]); (0, [2])]; []; [(0, [3])]] =
    Ok [(0, [1]); (1, [9]); (0, [2]); (0, [3])] /\
  exists trace, run_frames default_conditioner [(5, [(0, [1]); (0, [2])]); (5, [(0, [3])])] = Ok trace /\
    map fst trace = [[(0, [1]); (0, [2])]; [(0, [3])]].
Proof. split; [vm_compute; reflexivity|]. eexists; split; vm_compute; reflexivity. Qed.

(* The excluded case, for the record: a frame arriving in two pieces split inside the
   body.  The first receiver frame consumes and drops the piece; the second one reads the
   rest of the body as a header.  Here the message (0,[7;8]) is lost and the following
   message (1,[5]) is lost too (its bytes are taken for a header announcing 261 bytes). *)
Example C17_short_read_loses_data :
  parse_rounds [] [[0; 2; 0; 7]; [8; 1; 1; 0; 5]] = [[]; []].
Proof. vm_compute. reflexivity. Qed.

Check C17_framing_roundtrip : forall ms, Forall msg_ok ms ->
  send_packets_client ms = (wire_of ms, true) /\ send_packets_server ms = (wire_of ms, true) /\
  parse_all false (wire_of ms) = (ms, StopWouldBlock, []).
Check C17_framing_rounds : forall mss, Forall (Forall msg_ok) mss -> parse_rounds [] (map wire_of mss) = mss.
Print Assumptions C17_ordinary_size.
Print Assumptions C17_framing_roundtrip.
Print Assumptions C17_read_message_frame.
Print Assumptions C17_framing_app.
Print Assumptions C17_framing_rounds.
Print Assumptions C17_framing_partial_header.
Print Assumptions C17_conditioner_fifo.
Print Assumptions C17_conditioner_per_channel.
Print Assumptions C17_conditioner_empty_after_frame.
Print Assumptions C17_conditioner_batches.
Print Assumptions C17_drain_stops.
Print Assumptions C17_backend_exactly_once_in_order.
Print Assumptions C17_frame_total.
Print Assumptions C17_insert_total.
Print Assumptions C17_parse_all_fuel_ok.
Print Assumptions C17_read_message_valid.
Print Assumptions C17_old_order_not_determined.

(* width of the length prefix in the current source *)
Theorem C17_tcp_size_width_pinned : (RV.Generated.Params.tcp_size_width = 16)%N.
Proof. exact tcp_size_width_pinned. Qed.
Print Assumptions C17_tcp_size_width_pinned.

(* the insertion counter of the conditioner (unbounded in the model) is 64 bits wide in the current source *)
Theorem C17_sequence_width_pinned : (RV.Generated.Params.cond_sequence_width = 64)%N.
Proof. exact cond_sequence_width_pinned. Qed.
Print Assumptions C17_sequence_width_pinned.
