(* C16 over whole-system runs -- "When the server registers, no later than the tick in which one of its entities first becomes
   visible to a client, that this entity corresponds to an entity the client spawned in advance, all replication for the
   server entity lands on the client's existing entity and no second entity is created, whatever else travels in the same or
   neighbouring ticks.  If the client's entity no longer exists a fresh one is spawned instead, and other clients are
   unaffected."

   Client level (one message): Properties/C16.v.  Here: runs `Sys.run (sys_init cfg n) script` in the scope of
   Properties/C02H.v ([script_scopem]: `script_okg`, `run_maps_ok`, ...).
     adopted y slot e pc cid    the client of [slot] is connected, maps server entity [e] to its entity [cid], and [cid] was
                                pre-spawned under script id [pc] (`ce_pre x = Some pc`)
     no_desp y slot e           no update message on its way to the client carries a despawn record for [e]
   A. C16E_frame      the frame in which the client applies the message that carries the mapping (e, pc): if the entity
                      `apply_entity_mapping` designates for [pc] is alive at that moment, [e] is adopted - WHATEVER ELSE the
                      message carries (also a despawn record for [e] itself: since the repair of defect D30 the despawn records
                      of a message are applied before its mappings; C16E_D30_fixed) and whatever the earlier messages of the
                      inbox did; the later messages of the same inbox must not despawn [e]
   B. C16E_kept       ... and it STAYS adopted for the rest of the session, as long as no despawn record for [e] is sent to the
                      client ("while e is visible to that client": losing visibility, un-replicating or despawning the entity
                      are what sends such a record; `desp_step` is decidable along the run)
   C. C16E_truthful   at every such moment: [e] is mapped to the pre-spawned entity, which is alive; nothing else is mapped to
                      [e] (no second entity); and when it carries the marker and a confirm history it holds exactly e's components
                      and values at its confirmed tick (T of Properties/C02H.v)
   D. C16E_dead       if all entities pre-spawned under [pc] are dead when the mapping arrives, [e] gets a FRESH client entity
                      (allocated at or above the counter), for which T / Q hold like for any other (C02H_truthful needs no
                      `ce_pre`)
   E. other clients   every statement of C02H / C03F is per slot: nothing is assumed about the other slots, and a mapping only
                      changes the record of its own slot (C16_other_clients_unaffected); the example shows client 1 with its
                      own fresh entities next to client 0's adopted ones.
   Proofs: Repl/ValMapsC16_proofs.v. *)
From RV Require Import Lib.Res Repl.ClientTicks Repl.World Vis.Visibility Repl.Server Repl.ServerSpec
  Repl.StructSpec Repl.Struct_proofs Repl.StructVisSpec Repl.Client Repl.Sys Repl.Client_proofs Repl.ClientEnt_proofs Repl.ClientSys_proofs
  Repl.ClientStructSpec Repl.ClientStruct_proofs Repl.ClientHistMaps_proofs Repl.StructE2E_proofs Repl.StructE2EMut_proofs Repl.StructE2ESess_proofs
  Repl.StructE2EMaps_proofs
  Repl.ValSpec Repl.ValE2E_proofs Repl.ValVisSpec Repl.ValRefSpec Repl.ValRefE2E_proofs
  Repl.ValMapsSpec Repl.ValMapsNorm_proofs Repl.ValMapsE2E_proofs Repl.ValMapsC16_proofs
  Tick.ConfirmHistory.
From RV Require Import Properties.C02H.
Open Scope N_scope.

Theorem C16E_defs : forall y slot e pc cid,
  (adopted y slot e pc cid <->
   exists c, al_get slot (y_clients y) = Some c /\ cl_status c = Connected /\
             al_get e (cl_s2c c) = Some cid /\ exists x, get_cent c cid = Some x /\ ce_pre x = Some pc) /\
  (no_desp y slot e <-> forall u, In u (pending y slot) -> ~ In e (u_despawns u)).
Proof. intros. split; reflexivity. Qed.

(* ---- client level: the message that carries the mapping ---- *)
Theorem C16E_message : forall c u c' e pc cid x,
  ClientMut_proofs.ewf c -> maps_ok (maps_pre c u) (u_maps u) -> In (e, pc) (u_maps u) ->
  find (has_pre pc) (cl_ents (maps_pre c u)) = Some (cid, x) -> ce_alive x = true ->
  apply_update_message c u = Ok c' ->
  adopted_c c' e pc cid /\ cid < cl_next c.
Proof. exact msg_adopts. Qed.

(* ... a whole frame keeps an adoption when its inbox carries no despawn record for the entity *)
Theorem C16E_client_frame : forall c ops c' out e pc cid,
  ClientMut_proofs.ewf c -> cl_status c = Connected -> inbox_maps_ok c (cl_inbox_upd c) ->
  (forall u, In u (cl_inbox_upd c) -> ~ In e (u_despawns u)) ->
  client_frame c ops = Ok (c', out) -> adopted_c c e pc cid -> adopted_c c' e pc cid.
Proof. exact adopted_frame. Qed.

(* ---- A. the frame of the run in which the mapping is applied ---- *)
Theorem C16E_frame : forall cfg0 nclients pre slot ops y0 y1 o c0 us1 u us2 c1 e pc cid x,
  script_scopem cfg0 nclients (pre ++ [StCFrame slot ops]) -> run (sys_init cfg0 nclients) pre = Ok y0 ->
  sys_step y0 (StCFrame slot ops) = Ok (y1, o) ->
  al_get slot (y_clients y0) = Some c0 -> cl_status c0 = Connected ->
  cl_inbox_upd c0 = us1 ++ u :: us2 -> fold_left (res_step apply_update_message) us1 (Ok c0) = Ok c1 ->
  In (e, pc) (u_maps u) -> find (has_pre pc) (cl_ents (maps_pre c1 u)) = Some (cid, x) -> ce_alive x = true ->
  (forall u2, In u2 us2 -> ~ In e (u_despawns u2)) ->
  adopted y1 slot e pc cid /\ cid < cl_next c1.
Proof. exact c16_frame. Qed.

(* ---- B. the rest of the session ---- *)
Theorem C16E_kept : forall cfg0 nclients post pre y1 y slot e pc cid,
  script_scopem cfg0 nclients (pre ++ post) -> run (sys_init cfg0 nclients) pre = Ok y1 -> run y1 post = Ok y ->
  forallb (fun st => negb (ends_session slot st)) post = true ->
  (forall p1 st p2 y0, post = p1 ++ st :: p2 -> run y1 p1 = Ok y0 -> ~ In e (desp_step y0 st slot)) ->
  adopted y1 slot e pc cid -> no_desp y1 slot e -> adopted y slot e pc cid /\ no_desp y slot e.
Proof. intros cfg0 nclients post. exact (c16_kept cfg0 nclients post). Qed.

(* ---- C. what holds at every such moment ---- *)
Theorem C16E_truthful : forall cfg0 nclients script y slot e pc cid,
  script_scopem cfg0 nclients script -> run (sys_init cfg0 nclients) script = Ok y -> mode_of script slot = MLive ->
  adopted y slot e pc cid ->
  exists c x, al_get slot (y_clients y) = Some c /\ cl_status c = Connected /\
    al_get e (cl_s2c c) = Some cid /\ get_cent c cid = Some x /\ ce_pre x = Some pc /\ ce_alive x = true /\
    (forall cid', al_get cid' (cl_c2s c) = Some e -> cid' = cid) /\
    (forall h, ce_marker x = true -> ce_hist x = Some h ->
       exists pre post y1, script = pre ++ post /\ run (sys_init cfg0 nclients) pre = Ok y1 /\
         forallb (fun st => negb (ends_session slot st)) post = true /\ sv_tick (y_server y1) = h_last h /\
         vrepl slot (y_server y1) e <> None /\
         forall k, opt_vrel c (sviewv slot (y_server y1) e k) (al_get k (ce_comps x))).
Proof. exact c16_truthful. Qed.

(* ---- D. the pre-spawned entity no longer exists ---- *)
Theorem C16E_dead : forall c u c' pc e comps,
  cs_inv c -> maps_ok (maps_pre c u) (u_maps u) ->
  (forall cid x, In (cid, x) (cl_ents c) -> ce_pre x = Some pc -> ce_alive x = false) ->
  al_get e (cl_s2c c) = None -> (forall pc', In (e, pc') (u_maps u) -> pc' = pc) -> In (e, comps) (u_changes u) ->
  apply_update_message c u = Ok c' ->
  exists cid' x', al_get e (cl_s2c c') = Some cid' /\ cl_next c <= cid' /\ get_cent c' cid' = Some x' /\ confirmed_ent (u_tick u) x'.
Proof. exact msg_dead_fresh. Qed.

(* the client invariant the premise of D speaks about holds for every client of a run in scope *)
Theorem C16E_cs_inv : forall cfg0 nclients script y slot c,
  script_scopem cfg0 nclients script -> run (sys_init cfg0 nclients) script = Ok y -> al_get slot (y_clients y) = Some c -> cs_inv c.
Proof. exact run_cs_inv. Qed.

Print Assumptions C16E_defs.
Print Assumptions C16E_message.
Print Assumptions C16E_client_frame.
Print Assumptions C16E_frame.
Print Assumptions C16E_kept.
Print Assumptions C16E_truthful.
Print Assumptions C16E_dead.
Print Assumptions C16E_cs_inv.

(* ================================================================== *)
(* the statements are not vacuous                                     *)
(* ================================================================== *)

(* the run of Properties/C02H.v (two clients, whitelist; client 0 pre-spawns 9 and 8; mapping (1, 9) in the tick of the spawn,
   a lost mutate message, mapping (2, 8) registered before the whitelist `SVis` of tick 3).  A + B + C instantiated:
   the mapping (1, 9) is applied in client 0's frame after tick 1 (the 9th step); from then on to the END of the run entity 1 is
   adopted by client entity 0, and T holds for it at the end (confirmed at tick 3, value 6) *)
Definition hx_a : list step := Eval vm_compute in firstn 8 hx_script.
Definition hx_b : list step := Eval vm_compute in skipn 9 hx_script.
Example C16E_ex_split : hx_script = (hx_a ++ [StCFrame 0 []]) ++ hx_b.
Proof. vm_compute. reflexivity. Qed.

(* the mapping (1, 9) is applied by the frame `StCFrame 0 []` that follows [hx_a] *)
Example C16E_ex_frame :
  exists y0 y1 o, run (sys_init hx_wl 2) hx_a = Ok y0 /\ sys_step y0 (StCFrame 0 []) = Ok (y1, o) /\ adopted y1 0 1 9 0 /\ no_desp y1 0 1.
Proof.
  assert (Hsc9 : script_scopem hx_wl 2 (hx_a ++ [StCFrame 0 []])) by (apply scopem_by_bound; vm_compute; reflexivity).
  destruct (run (sys_init hx_wl 2) hx_a) as [y0| |] eqn:E0; [|vm_compute in E0; discriminate|vm_compute in E0; discriminate].
  destruct (sys_step y0 (StCFrame 0 [])) as [[y1 o]| |] eqn:E1;
    [|vm_compute in E0; inversion E0; subst y0; vm_compute in E1; discriminate|vm_compute in E0; inversion E0; subst y0; vm_compute in E1; discriminate].
  destruct (al_get 0 (y_clients y0)) as [c0|] eqn:Ec0; [|vm_compute in E0; inversion E0; subst y0; vm_compute in Ec0; discriminate].
  assert (Hinb : exists u, cl_inbox_upd c0 = [] ++ u :: [] /\ In (1, 9) (u_maps u) /\ cl_status c0 = Connected /\
                   exists x, find (has_pre 9) (cl_ents (maps_pre c0 u)) = Some (0, x) /\ ce_alive x = true).
  { vm_compute in E0; inversion E0; subst y0; vm_compute in Ec0; inversion Ec0; subst c0. eexists. split; [reflexivity|]. split; [left; reflexivity|].
    split; [reflexivity|]. eexists. split; vm_compute; reflexivity. }
  destruct Hinb as (u & Hinb & Hin & Hs0 & x0 & Hf0 & Ha0).
  destruct (C16E_frame hx_wl 2 hx_a 0 [] y0 y1 o c0 [] u [] c0 1 9 0 x0 Hsc9 E0 E1 Ec0 Hs0 Hinb eq_refl Hin Hf0 Ha0 (fun _ H => match H with end)) as [Had1 _].
  exists y0, y1, o. split; [reflexivity|]. split; [exact E1|]. split; [exact Had1|].
  vm_compute in E0; inversion E0; subst y0; vm_compute in E1; inversion E1; subst y1. intros u0 Hu0. vm_compute in Hu0. destruct Hu0.
Qed.

(* no step of [hx_b] sends client 0 a despawn record for entity 1 *)
Definition hx_nodesp (y1 : sys) : bool :=
  forallb (fun n => match run y1 (firstn n hx_b) with
                    | Ok y2 => negb (mem_N 1 (desp_step y2 (nth n hx_b StStart) 0))
                    | _ => true
                    end) (seq 0 (length hx_b)).

Example C16E_ex_adopted_to_the_end :
  exists y, run (sys_init hx_wl 2) hx_script = Ok y /\ adopted y 0 1 9 0 /\
    exists c x, al_get 0 (y_clients y) = Some c /\ al_get 1 (cl_s2c c) = Some 0 /\ get_cent c 0 = Some x /\ ce_pre x = Some 9 /\ ce_alive x = true /\
      (forall cid', al_get cid' (cl_c2s c) = Some 1 -> cid' = 0) /\
      (forall h, ce_marker x = true -> ce_hist x = Some h ->
         exists pre post y1, hx_script = pre ++ post /\ run (sys_init hx_wl 2) pre = Ok y1 /\
           forallb (fun st => negb (ends_session 0 st)) post = true /\ sv_tick (y_server y1) = h_last h /\
           vrepl 0 (y_server y1) 1 <> None /\
           forall k, opt_vrel c (sviewv 0 (y_server y1) 1 k) (al_get k (ce_comps x))).
Proof.
  destruct C16E_ex_frame as (y0 & y1 & o & E0 & E1 & Had1 & Hnd1).
  assert (Hr1 : run (sys_init hx_wl 2) (hx_a ++ [StCFrame 0 []]) = Ok y1) by (rewrite run_app, E0; cbn [bind run]; rewrite E1; reflexivity).
  assert (Hchk : hx_nodesp y1 = true).
  { vm_compute in E0; inversion E0; subst y0; vm_compute in E1; inversion E1; subst y1. vm_compute. reflexivity. }
  assert (Hds : forall p1 st p2 y2, hx_b = p1 ++ st :: p2 -> run y1 p1 = Ok y2 -> ~ In 1 (desp_step y2 st 0)).
  { intros p1 st p2 y2 E R Hin. unfold hx_nodesp in Hchk. rewrite forallb_forall in Hchk.
    assert (Hlen : (length p1 < length hx_b)%nat) by (rewrite E, app_length; cbn [length]; lia).
    specialize (Hchk (length p1) (proj2 (in_seq _ _ _) (conj (Nat.le_0_l _) Hlen))).
    assert (Ef : firstn (length p1) hx_b = p1) by (rewrite E, firstn_app, Nat.sub_diag, firstn_all; cbn; apply app_nil_r).
    assert (En : nth (length p1) hx_b StStart = st) by (rewrite E, app_nth2, Nat.sub_diag by lia; reflexivity).
    rewrite Ef, En, R in Hchk. apply mem_N_In in Hin. rewrite Hin in Hchk. discriminate. }
  pose proof C02H_ex_scope as Hsc. rewrite C16E_ex_split in Hsc.
  destruct (run y1 hx_b) as [y| |] eqn:E2;
    [|vm_compute in E0; inversion E0; subst y0; vm_compute in E1; inversion E1; subst y1; vm_compute in E2; discriminate
     |vm_compute in E0; inversion E0; subst y0; vm_compute in E1; inversion E1; subst y1; vm_compute in E2; discriminate].
  assert (Hrun : run (sys_init hx_wl 2) hx_script = Ok y) by (rewrite C16E_ex_split, run_app, Hr1; exact E2).
  destruct (C16E_kept hx_wl 2 hx_b _ y1 y 0 1 9 0 Hsc Hr1 E2 eq_refl Hds Had1 Hnd1) as [Had _].
  exists y. split; [exact Hrun|]. split; [exact Had|].
  destruct (C16E_truthful hx_wl 2 hx_script y 0 1 9 0 C02H_ex_scope Hrun (proj1 (proj2 (proj2 (proj2 (proj2 C02H_ex_script))))) Had)
    as (c & x & Hc & _ & A1 & Hx & Hp & Ha & Hone & HT).
  exists c, x. auto 8.
Qed.

(* D30 (found while proving this file; confirmed on the real code and repaired: the client now applies the mappings of an update
   message AFTER its despawn records).  `SUnmark` + `SMark` in the tick of the mapping put a despawn record for the mapped entity
   into the very message that carries the mapping and the whole entity.  Before the repair the record despawned the pre-spawned
   entity just mapped and a second client entity was created; now the script is in scope and the entity is adopted. *)
Definition hx_all : cfg := mkCfg PAll AuthNone false 1000.
Definition hx_d30 : list step :=
  [StStart; hfr false []; StConnect 0 1200; StCFrame 0 [CPrespawn 9];
   hfr true [SSpawn 1 true [(0, VNat 1)]; SUnmark 1; SMark 1; SMap 0 1 9]; StDeliver 0 true 0 All; StCFrame 0 []].

Example C16E_D30_fixed :
  script_scopem hx_all 1 hx_d30 /\
  hx_view (run (sys_init hx_all 1) (firstn 5 hx_d30))
    = Some ([(0, [(0, Some 9, None, true, false, [])], [], [(1, [(1, 9)], [1], [(1, [(0, VNat 1)])])], [])], 1) /\
  hx_view (run (sys_init hx_all 1) hx_d30)
    = Some ([(1, [(0, Some 9, Some 1, true, true, [(0, CNat 1)])], [(1, 0)], [], [])], 1) /\
  exists y, run (sys_init hx_all 1) hx_d30 = Ok y /\ adopted y 0 1 9 0.
Proof.
  split; [apply scopem_by_bound; vm_compute; reflexivity|]. split; [vm_compute; reflexivity|]. split; [vm_compute; reflexivity|].
  destruct (run (sys_init hx_all 1) hx_d30) as [y| |] eqn:E; [|vm_compute in E; discriminate|vm_compute in E; discriminate].
  exists y. split; [reflexivity|]. vm_compute in E; inversion E; subst y.
  eexists. split; [reflexivity|]. split; [reflexivity|]. split; [reflexivity|]. eexists. split; reflexivity.
Qed.

(* D: the client despawned its pre-spawned entity before the mapping arrived: a fresh client entity 1 for server entity 1; the
   script is in scope, so T / K / Q of Properties/C02H.v apply to it *)
Definition hx_dead : list step :=
  [StStart; hfr false []; StConnect 0 1200; StCFrame 0 [CPrespawn 9]; StCFrame 0 [CDespawn 9];
   hfr true [SSpawn 1 true [(0, VNat 5)]; SVis 0 1 true; SMap 0 1 9]] ++ hall 0.

Example C16E_ex_dead :
  script_scopem hx_wl 1 hx_dead /\
  hx_view (run (sys_init hx_wl 1) hx_dead)
    = Some ([(1, [(0, Some 9, None, false, false, []); (1, None, Some 1, true, true, [(0, CNat 5)])], [(1, 1)], [], [])], 1).
Proof. split; [apply scopem_by_bound; vm_compute; reflexivity|vm_compute; reflexivity]. Qed.

Example C16E_ex_dead_truthful :
  exists y c x h, run (sys_init hx_wl 1) hx_dead = Ok y /\ al_get 0 (y_clients y) = Some c /\ al_get 1 (cl_s2c c) = Some 1 /\
    get_cent c 1 = Some x /\ ce_pre x = None /\ ce_hist x = Some h /\
    exists pre post y1, hx_dead = pre ++ post /\ run (sys_init hx_wl 1) pre = Ok y1 /\
      forallb (fun st => negb (ends_session 0 st)) post = true /\ sv_tick (y_server y1) = h_last h /\
      vrepl 0 (y_server y1) 1 <> None /\
      forall k, opt_vrel c (sviewv 0 (y_server y1) 1 k) (al_get k (ce_comps x)).
Proof.
  pose proof (proj1 C16E_ex_dead) as Hsc.
  destruct (run (sys_init hx_wl 1) hx_dead) as [y| |] eqn:E; [|vm_compute in E; discriminate|vm_compute in E; discriminate].
  destruct (al_get 0 (y_clients y)) as [c|] eqn:Ec; [|vm_compute in E; inversion E; subst y; vm_compute in Ec; discriminate].
  destruct (get_cent c 1) as [x|] eqn:Ex; [|vm_compute in E; inversion E; subst y; vm_compute in Ec; inversion Ec; subst c; vm_compute in Ex; discriminate].
  destruct (ce_hist x) as [h|] eqn:Eh;
    [|vm_compute in E; inversion E; subst y; vm_compute in Ec; inversion Ec; subst c; vm_compute in Ex; inversion Ex; subst x; vm_compute in Eh; discriminate].
  assert (Hfacts : al_get 1 (cl_s2c c) = Some 1 /\ ce_pre x = None /\ cl_status c = Connected /\ ce_alive x = true /\ ce_marker x = true).
  { vm_compute in E; inversion E; subst y; vm_compute in Ec; inversion Ec; subst c; vm_compute in Ex; inversion Ex; subst x; vm_compute; repeat split; reflexivity. }
  destruct Hfacts as (F1 & F2 & F3 & F4 & F5).
  exists y, c, x, h. split; [reflexivity|]. split; [exact Ec|]. split; [exact F1|]. split; [exact Ex|]. split; [exact F2|]. split; [exact Eh|].
  assert (Hm : mode_of hx_dead 0 = MLive) by (vm_compute; reflexivity).
  exact (C02H_truthful_exact hx_wl 1 hx_dead y 0 c 1 1 x h Hsc E Ec Hm F3 F1 Ex F4 F5 Eh).
Qed.
