(* C07 end to end, over whole-system runs -- "A connected client that has not been authorized is never sent replication data
   or any event other than those registered as independent, however long it stays connected and whatever happens on the
   server; from the tick it becomes authorized it is sent the complete state visible to it.  With the default protocol
   check a client whose protocol differs is never authorized and is asked to disconnect."

   Properties/C07.v pins the per-state facts (`send_replication`, `server_frame`, `connect_client`, `authorize_client`).
   Here: statements about `Sys.run (sys_init c n) script` (replication) and `erun (syse_init c n) script` (remote events).
   Proofs: Repl/AuthRun_proofs.v, Events/AuthRunEv_proofs.v.

   A1  replication, EVERY script (no premise at all, not even legality):
         C07E_frame_outputs_authorized     every update / mutate message in the output of a server frame is for a slot whose
                                           record is authorized before and after the frame; the queues of the other slots
                                           are left alone
         C07E_unauthorized_link_quiet      at every moment the link of a slot whose record is not authorized (or absent) holds
                                           no update and no mutate message; a delivery / drop step on it is a no-op
                                           (C07E_unauthorized_delivery_noop): "however long"
         C07E_unauthorized_ghosts          the ghosts of C03V (structure sent) and C12E (mutate messages sent / lost) of such a
                                           slot are empty
       with the premises of C03F / C12E on the script (`script_okf`, `parts_small`, fewer than 2^31 ticks):
         C07E_unauthorized_client_untouched  the connected client of such a slot holds nothing: empty inboxes, nothing
                                           buffered, empty structure
       the first update message (EVERY script):
         C07E_first_update_complete        in a frame in which `send_replication` runs, a slot that has an authorized record
                                           after the frame and has not been sent anything in its session (ghost = []) is sent
                                           the complete state visible to it: the message builds exactly the visible structure
                                           (C03V) AND carries every visible replicated entity with ALL its components and
                                           their CURRENT values
         C07E_ghost_step                   how the ghost evolves: only an update message for the slot changes it, so it is []
                                           from the authorization to the first update message
         C07E_first_frame_after_unauthorized / _after_authorize   the same without ghost: the next server frame after a
                                           moment at which the slot had no authorized record
   A2  events (Events/Remote.v; the only independent type of the model's pool is SEI):
         C07E_frame_events_classified      one server frame, every reachable state: a message handed to the backend is
                                           unstamped and independent, or stamped, dependent and for a slot whose record is
                                           AUTHORIZED after the frame
         C07E_unauthorized_sent_independent  every run: everything handed to the backend for a connection in its current
                                           session while its record is not authorized is unstamped and independent
         C07E_unauthorized_held_independent  with the premises of C04E / C05E: so is everything such a connection holds (link,
                                           inbox, queue) or has handed to its conversion step (i.e. to game logic)
         C07E_flush_complete / C07E_flush_after_authorization / C07E_not_excluded   after authorization: a frame that
                                           ticks flushes to the connection every dependent event of this frame's emissions
                                           and every buffered one emitted while the connection existed
       NOT delivered, by design of the crate (recorded as C05_unauthorized_client_misses_dependent_event): a dependent event
       flushed while the connection was not authorized is gone for it; the buffer is emptied by every flush.
   A3  authorization is a script step.  The model does not contain the handshake: with `AuthProto` / `AuthCustom` a record
       becomes authorized only by an explicit `StAuthorize slot` step (C07E_authorized_only_by_step,
       C07E_run_authorized_by_step); nothing in the model asks a client to disconnect.  WHEN the default protocol check
       performs that step is `Hash.Protocol.check_protocol`, pinned next to it (C07E_protocol_decision = C14_handshake):
       authorize iff the hashes are equal, otherwise notify and request the disconnect.  The tie between the two - the
       harness issues `StAuthorize` exactly when the real `check_protocol` system inserted `AuthorizedClient` - is the
       correspondence check (differential testing), not a theorem. *)
From Coq Require Import Permutation.
From RV Require Import Lib.Res Repl.ClientTicks Repl.World Vis.Visibility Repl.Server Repl.ServerSpec Repl.Client Repl.Sys
  Repl.StructSpec Repl.StructVisSpec Repl.ClientStructSpec Repl.ClientSys_proofs Repl.StructE2E_proofs Repl.StructE2EMut_proofs Repl.StructE2ESess_proofs
  Repl.MtRunSpec Repl.ValSpec Repl.AuthRun_proofs Hash.Protocol Hash.Protocol_proofs.
From RV Require Import Events.Remote Events.RemoteSpec Events.Remote_proofs Events.RemoteRun Events.RemoteRunTick_proofs
  Events.RemoteRunBirth_proofs Events.AuthRunEv_proofs.
Open Scope N_scope.

(* ================================================================== *)
(* A1. replication                                                    *)
(* ================================================================== *)

Theorem C07E_frame_outputs_authorized : forall c n script y tick dt (cleanup : bool) ops parts y' fo vs,
  run (sys_init c n) script = Ok y ->
  sys_step y (StSFrame tick dt cleanup ops parts) = Ok (y', OSFrame fo vs) ->
  (forall o, In o (fo_clients fo) ->
     exists r r', find_client (y_server y) (co_slot o) = Some r /\ sc_authorized r = true /\
                  find_client (y_server y') (co_slot o) = Some r' /\ sc_authorized r' = true) /\
  (forall slot, l_upd (get_link y' slot) = l_upd (get_link y slot) ++ updates_for slot (fo_clients fo) /\
                l_mut (get_link y' slot) = l_mut (get_link y slot) ++ mutates_for slot (fo_clients fo)) /\
  (forall slot, (forall r', find_client (y_server y') slot = Some r' -> sc_authorized r' = false) ->
     updates_for slot (fo_clients fo) = [] /\ mutates_for slot (fo_clients fo) = [] /\
     l_upd (get_link y' slot) = [] /\ l_mut (get_link y' slot) = []).
Proof. exact run_frame_only_authorized. Qed.

Theorem C07E_unauthorized_link_quiet : forall c n script y slot,
  run (sys_init c n) script = Ok y ->
  (forall r, find_client (y_server y) slot = Some r -> sc_authorized r = false) ->
  l_upd (get_link y slot) = [] /\ l_mut (get_link y slot) = [].
Proof. exact run_unauthorized_link_quiet. Qed.

Theorem C07E_unauthorized_delivery_noop : forall c n script y slot ch w (deliver : bool),
  run (sys_init c n) script = Ok y ->
  (forall r, find_client (y_server y) slot = Some r -> sc_authorized r = false) ->
  exists y', sys_step y (if deliver then StDeliver slot true ch w else StDrop slot true ch w) = Ok (y', ONone) /\
    y_server y' = y_server y /\ (forall sl, al_get sl (y_clients y') = al_get sl (y_clients y)) /\
    (forall sl, l_upd (get_link y' sl) = l_upd (get_link y sl) /\ l_mut (get_link y' sl) = l_mut (get_link y sl) /\
                l_ack (get_link y' sl) = l_ack (get_link y sl)).
Proof. exact run_unauthorized_delivery_noop. Qed.

(* the invariant behind both, and its step *)
Theorem C07E_link_invariant : forall c n script y, run (sys_init c n) script = Ok y ->
  NoDup (map sc_slot (sv_clients (y_server y))) /\
  (sv_running (y_server y) = false -> forall slot, quiet y slot) /\
  (forall slot, ~ has_auth (y_server y) slot -> quiet y slot).
Proof. intros c n script y H. destruct (link_run_init c n script y H) as [A B C]. auto. Qed.

Theorem C07E_link_invariant_step : forall y st y' o, link_inv y -> sys_step y st = Ok (y', o) -> link_inv y'.
Proof. exact link_step. Qed.

Theorem C07E_unauthorized_ghosts : forall c n script y gs G slot,
  erun_s (sys_init c n) [] script = Ok (y, gs) -> mrun (sys_init c n) mgs_empty script = Ok (y, G) ->
  (forall r, find_client (y_server y) slot = Some r -> sc_authorized r = false) ->
  sent_of slot gs = [] /\ mg_sent (G slot) = [] /\ mg_lost (G slot) = [].
Proof.
  intros c n script y gs G slot H1 H2 Hn. split; [exact (run_unauthorized_ghost_empty c n script y gs slot H1 Hn)|].
  exact (run_unauthorized_mutate_ghost c n script y G slot H2 Hn).
Qed.

Theorem C07E_unauthorized_client_untouched : forall c n script y slot cl,
  script_okf script = true -> parts_small script = true -> tick_frames script < 2 ^ 31 ->
  run (sys_init c n) script = Ok y -> al_get slot (y_clients y) = Some cl ->
  mode_of script slot = MLive -> cl_status cl = Connected ->
  (forall r, find_client (y_server y) slot = Some r -> sc_authorized r = false) ->
  cl_inbox_upd cl = [] /\ cl_inbox_mut cl = [] /\ cl_buffered cl = [] /\
  struct_equiv (client_struct cl) [] /\
  l_upd (get_link y slot) = [] /\ l_mut (get_link y slot) = [].
Proof. exact run_unauthorized_client_untouched. Qed.

(* one frame, any state satisfying the invariant of C03V: value side of the first send *)
Theorem C07E_frame_sends_unknown_whole : forall c g tick dt (cleanup : bool) ops parts s' fo,
  ginv_v g -> server_frame c (g_srv g) tick dt cleanup ops parts = Ok (s', fo) -> fo_ran fo = true ->
  forall cl', In cl' (sv_clients s') -> sc_authorized cl' = true ->
  forall e x, repl_get s' e = Some x -> al_get e (sent_of (sc_slot cl') (g_sent g)) = None ->
    vis_visible (sc_vis cl') e = true ->
    exists u, upd_for (sc_slot cl') (fo_clients fo) = Some u /\ In (e, all_comps x) (u_changes u).
Proof. exact gframe_whole_v. Qed.

Theorem C07E_first_update_complete : forall c n script y gs tick dt (cleanup : bool) ops parts y' fo vs slot r',
  erun_s (sys_init c n) [] script = Ok (y, gs) ->
  sys_step y (StSFrame tick dt cleanup ops parts) = Ok (y', OSFrame fo vs) -> fo_ran fo = true ->
  find_client (y_server y') slot = Some r' -> sc_authorized r' = true -> sent_of slot gs = [] ->
  struct_equiv (abs_send [] (upd_for slot (fo_clients fo))) (struct_vis (y_server y') r') /\
  (forall e x, repl_get (y_server y') e = Some x -> vis_visible (sc_vis r') e = true ->
     exists u, upd_for slot (fo_clients fo) = Some u /\ u_tick u = sv_tick (y_server y') /\ In (e, all_comps x) (u_changes u)).
Proof. exact run_first_update_complete. Qed.

Theorem C07E_ghost_step : forall y gs st y' o slot,
  ginv_v (mkG (y_server y) gs) -> sys_step y st = Ok (y', o) -> has_auth (y_server y') slot ->
  sent_of slot (ghost_step_s y gs st) = abs_send (sent_of slot gs) (step_upd o slot).
Proof. exact ghost_step_sent_of. Qed.

Theorem C07E_ghost_invariant : forall c n script y gs,
  erun_s (sys_init c n) [] script = Ok (y, gs) -> ginv_v (mkG (y_server y) gs).
Proof. exact erun_s_ginv. Qed.

Theorem C07E_first_frame_after_unauthorized : forall c n pre y0 slot mid y2 tick dt (cleanup : bool) ops parts y' fo vs r',
  run (sys_init c n) pre = Ok y0 ->
  (forall r, find_client (y_server y0) slot = Some r -> sc_authorized r = false) ->
  run y0 mid = Ok y2 -> forallb not_sframe mid = true ->
  sys_step y2 (StSFrame tick dt cleanup ops parts) = Ok (y', OSFrame fo vs) -> fo_ran fo = true ->
  find_client (y_server y') slot = Some r' -> sc_authorized r' = true ->
  struct_equiv (abs_send [] (upd_for slot (fo_clients fo))) (struct_vis (y_server y') r') /\
  (forall e x, repl_get (y_server y') e = Some x -> vis_visible (sc_vis r') e = true ->
     exists u, upd_for slot (fo_clients fo) = Some u /\ u_tick u = sv_tick (y_server y') /\ In (e, all_comps x) (u_changes u)).
Proof. exact run_first_frame_after_unauthorized. Qed.

Theorem C07E_first_frame_after_authorize : forall c n pre y0 slot r mid y2 tick dt (cleanup : bool) ops parts y' fo vs r',
  run (sys_init c n) pre = Ok y0 ->
  find_client (y_server y0) slot = Some r -> sc_authorized r = false ->
  run y0 (StAuthorize slot :: mid) = Ok y2 -> forallb not_sframe mid = true ->
  sys_step y2 (StSFrame tick dt cleanup ops parts) = Ok (y', OSFrame fo vs) -> fo_ran fo = true ->
  find_client (y_server y') slot = Some r' -> sc_authorized r' = true ->
  struct_equiv (abs_send [] (upd_for slot (fo_clients fo))) (struct_vis (y_server y') r') /\
  (forall e x, repl_get (y_server y') e = Some x -> vis_visible (sc_vis r') e = true ->
     exists u, upd_for slot (fo_clients fo) = Some u /\ u_tick u = sv_tick (y_server y') /\ In (e, all_comps x) (u_changes u)).
Proof. exact run_first_frame_after_authorize. Qed.

(* ================================================================== *)
(* A2. events                                                         *)
(* ================================================================== *)

Theorem C07E_frame_events_classified : forall e tick dt cleanup ops parts emit e' o,
  RemoteSpec.inv e -> syse_step e (ESFrame tick dt cleanup ops parts emit) = Ok (e', o) ->
  forall slot m, In (slot, m) (eo_sent o) ->
  exists r, find_client (y_server (e_sys e')) slot = Some r /\
    ((sm_tick m = None /\ independent (sm_ty m) = true) \/
     (sc_authorized r = true /\ sm_tick m = Some (ct_update_tick (sc_ticks r)) /\ independent (sm_ty m) = false)).
Proof. exact sframe_sent_classified. Qed.

Theorem C07E_frame_unauthorized_independent : forall e tick dt cleanup ops parts emit e' o,
  RemoteSpec.inv e -> syse_step e (ESFrame tick dt cleanup ops parts emit) = Ok (e', o) ->
  forall slot m, In (slot, m) (eo_sent o) ->
  (forall r, find_client (y_server (e_sys e')) slot = Some r -> sc_authorized r = false) ->
  sm_tick m = None /\ independent (sm_ty m) = true.
Proof. exact sframe_unauthorized_independent. Qed.

(* the premise of the two statements above holds in every reachable state *)
Theorem C07E_reachable_inv : forall c n e, reachable c n e -> RemoteSpec.inv e.
Proof. exact reachable_inv. Qed.

Theorem C07E_unauthorized_sent_independent : forall c n script e gl os slot r,
  lrun (syse_init c n) lg_init script = Ok (e, gl, os) ->
  find_client (y_server (e_sys e)) slot = Some r -> sc_authorized r = false ->
  forall m, In m (ssent gl slot) -> sm_tick m = None /\ independent (sm_ty m) = true.
Proof. exact run_unauthorized_sent_independent. Qed.

Theorem C07E_unauthorized_held_independent : forall c n script e gu gl os slot cl r,
  escript_ok script = true -> tick_frames (proj_script script) < 2 ^ 31 ->
  crun (syse_init c n) (ug_init, lg_init) script = Ok (e, (gu, gl), os) ->
  al_get slot (y_clients (e_sys e)) = Some cl -> emode script slot = MLive -> cl_status cl = Connected ->
  find_client (y_server (e_sys e)) slot = Some r -> sc_authorized r = false ->
  forall m, In m (held_msgs e slot cl) \/ In m (snow gl slot) -> sm_tick m = None /\ independent (sm_ty m) = true.
Proof. exact run_unauthorized_held_independent. Qed.

(* a step never turns an authorized record into an unauthorized one *)
Theorem C07E_unauthorized_was_unauthorized : forall y st y' o slot r', link_inv y -> sys_step y st = Ok (y', o) ->
  find_client (y_server y') slot = Some r' -> sc_authorized r' = false ->
  (exists r0, find_client (y_server y) slot = Some r0 /\ sc_authorized r0 = false) \/
  (exists max, st = StConnect slot max /\ find_client (y_server y) slot = None).
Proof. exact step_unauth_back. Qed.

Theorem C07E_flush_complete : forall e tick dt cleanup ops parts emit e' o,
  syse_step e (ESFrame tick dt cleanup ops parts emit) = Ok (e', o) ->
  sv_running (y_server (e_sys e)) = true -> out_ran (eo_base o) = true ->
  forall slot uid r, uid_of e slot = Some uid -> find_client (y_server (e_sys e')) slot = Some r -> sc_authorized r = true ->
  (forall set ev, In set (e_buffer e) -> In ev (bs_events set) -> ~ In uid (bs_excluded set) -> mode_allows (sev_mode ev) uid ->
     In (slot, stamped r ev) (eo_sent o)) /\
  (forall ev, In ev (resolved_emits e emit) -> independent (sev_ty ev) = false -> mode_allows (sev_mode ev) uid ->
     In (slot, stamped r ev) (eo_sent o)).
Proof. exact flush_complete. Qed.

Theorem C07E_not_excluded : forall c n script e b os,
  brun (syse_init c n) [] script = Ok (e, b, os) ->
  Forall2 (fun set birth => forall uid, uid < birth -> ~ In uid (bs_excluded set)) (e_buffer e) b.
Proof. exact run_not_excluded. Qed.

Theorem C07E_flush_after_authorization : forall c n pre e b os tick dt cleanup ops parts emit e' o,
  brun (syse_init c n) [] pre = Ok (e, b, os) -> syse_step e (ESFrame tick dt cleanup ops parts emit) = Ok (e', o) ->
  sv_running (y_server (e_sys e)) = true -> out_ran (eo_base o) = true ->
  forall slot uid r, uid_of e slot = Some uid -> find_client (y_server (e_sys e')) slot = Some r -> sc_authorized r = true ->
  (forall ev, In ev (resolved_emits e emit) -> independent (sev_ty ev) = false -> mode_allows (sev_mode ev) uid ->
     In (slot, stamped r ev) (eo_sent o)) /\
  (forall set birth ev, In (set, birth) (combine (e_buffer e) b) -> uid < birth -> In ev (bs_events set) ->
     mode_allows (sev_mode ev) uid -> In (slot, stamped r ev) (eo_sent o)).
Proof. exact run_flush_after_authorization. Qed.

(* ================================================================== *)
(* A3. authorization is a script step                                 *)
(* ================================================================== *)

Theorem C07E_authorized_only_by_step : forall y st y' o slot,
  NoDup (map sc_slot (sv_clients (y_server y))) -> sys_step y st = Ok (y', o) ->
  ~ has_auth (y_server y) slot -> has_auth (y_server y') slot ->
  (st = StAuthorize slot /\ exists r, find_client (y_server y) slot = Some r /\ sc_authorized r = false) \/
  (exists max, st = StConnect slot max /\ cfg_auth (y_cfg y) = AuthNone /\ find_client (y_server y) slot = None).
Proof. exact authorized_only_by_step. Qed.

Theorem C07E_run_authorized_by_step : forall c n script y slot,
  cfg_auth c <> AuthNone -> run (sys_init c n) script = Ok y -> has_auth (y_server y) slot ->
  exists pre post y0 r, script = pre ++ StAuthorize slot :: post /\ run (sys_init c n) pre = Ok y0 /\
    find_client (y_server y0) slot = Some r /\ sc_authorized r = false.
Proof. exact run_authorized_by_step. Qed.

(* the decision the default protocol check makes (Properties/C14.v, C14_handshake): (insert AuthorizedClient, send
   ProtocolMismatch, write DisconnectRequest) *)
Theorem C07E_protocol_decision : forall client_hash server_hash,
  (client_hash = server_hash /\ check_protocol client_hash server_hash = (true, false, false)) \/
  (client_hash <> server_hash /\ check_protocol client_hash server_hash = (false, true, true)).
Proof. exact check_protocol_spec. Qed.

Print Assumptions C07E_frame_outputs_authorized.
Print Assumptions C07E_unauthorized_link_quiet.
Print Assumptions C07E_unauthorized_delivery_noop.
Print Assumptions C07E_link_invariant.
Print Assumptions C07E_link_invariant_step.
Print Assumptions C07E_unauthorized_ghosts.
Print Assumptions C07E_unauthorized_client_untouched.
Print Assumptions C07E_frame_sends_unknown_whole.
Print Assumptions C07E_first_update_complete.
Print Assumptions C07E_ghost_step.
Print Assumptions C07E_ghost_invariant.
Print Assumptions C07E_first_frame_after_unauthorized.
Print Assumptions C07E_first_frame_after_authorize.
Print Assumptions C07E_frame_events_classified.
Print Assumptions C07E_frame_unauthorized_independent.
Print Assumptions C07E_reachable_inv.
Print Assumptions C07E_unauthorized_sent_independent.
Print Assumptions C07E_unauthorized_held_independent.
Print Assumptions C07E_unauthorized_was_unauthorized.
Print Assumptions C07E_flush_complete.
Print Assumptions C07E_not_excluded.
Print Assumptions C07E_flush_after_authorization.
Print Assumptions C07E_authorized_only_by_step.
Print Assumptions C07E_run_authorized_by_step.
Print Assumptions C07E_protocol_decision.

(* ================================================================== *)
(* the statements are not vacuous                                     *)
(* ================================================================== *)

(* ---- replication: a blacklist server with an authorization step, tracking on; two clients: slot 0 is authorized late
        (after two ticks), slot 1 never ---- *)
Definition xa_cfg : cfg := mkCfg PBlack AuthCustom true 1000.
Definition xfr (tick : bool) (ops : list sop) (parts : list (N * partition)) : step := StSFrame tick 16 false ops parts.

Definition xa_script : list step :=
  [StStart; StConnect 0 1200; StConnect 1 1200;
   xfr true [SSpawn 1 true [(0, VNat 5); (1, VNat 7)]; SSpawn 2 true []; SSpawn 3 false [(0, VNat 1)]] [];
   StDeliver 0 true 0 All; StDeliver 0 true 1 All; StCFrame 0 []; StDeliver 1 true 0 All; StCFrame 1 [];
   xfr true [SMutate 1 0 (VNat 6)] [];
   StAuthorize 0; StDeliver 0 true 0 All; StCFrame 0 [];
   xfr true [SInsert 2 0 (VNat 9); SVis 0 2 true] [(0, [[]])];
   StDeliver 0 true 0 All; StDeliver 0 true 1 All; StCFrame 0 []; StDeliver 0 false 0 All;
   StDeliver 1 true 0 All; StDeliver 1 true 1 All; StCFrame 1 [];
   xfr true [SMutate 1 1 (VNat 8)] [(0, [[1]])];
   StDeliver 0 true 0 All; StDeliver 0 true 1 All; StCFrame 0 []; StDeliver 1 true 1 All; StCFrame 1 []].

Fixpoint xa_outs (y : sys) (script : list step) : list (list client_out) :=
  match script with
  | [] => []
  | st :: r => match sys_step y st with
               | Ok (y', OSFrame fo _) => fo_clients fo :: xa_outs y' r
               | Ok (y', _) => xa_outs y' r
               | _ => []
               end
  end.

(* authorization of the records; update / mutate queue lengths; per client: update tick, entity map, inbox, buffer *)
Definition xa_view (r : res sys) :=
  match r with
  | Ok y => Some (map (fun cl => (sc_slot cl, sc_authorized cl)) (sv_clients (y_server y)),
                  map (fun kl => (fst kl, length (l_upd (snd kl)), length (l_mut (snd kl)))) (y_links y),
                  map (fun kc => (fst kc, cl_upd_tick (snd kc), cl_s2c (snd kc), length (cl_inbox_upd (snd kc)),
                                  length (cl_buffered (snd kc)))) (y_clients y))
  | _ => None
  end.

Example C07E_ex_script : script_okf xa_script = true /\ parts_small xa_script = true /\ tick_frames xa_script = 4 /\
  mode_of xa_script 0 = MLive /\ mode_of xa_script 1 = MLive.
Proof. vm_compute. repeat split; reflexivity. Qed.

(* the four server frames: nothing at ticks 1 and 2 (nobody is authorized); at tick 3 slot 0 gets everything visible to
   it with the CURRENT values (entity 1 component 0 is 6, set at tick 2 while the slot was not authorized; entity 2 got
   its component at tick 3; entity 3 is not replicated) and the empty mutate message of a tracking server; at tick 4 only
   the mutation.  Slot 1 never gets anything *)
Example C07E_ex_outputs :
  xa_outs (sys_init xa_cfg 2) xa_script =
  [ []; [];
    [mkCO 0 (Some (mkUpd 3 [] [] [] [(1, [(0, VNat 6); (1, VNat 7)]); (2, [(0, VNat 9)])])) [mkMut 3 3 1 0 []] false];
    [mkCO 0 None [mkMut 3 4 1 1 [(1, [(1, VNat 8)])]] false] ].
Proof. vm_compute. reflexivity. Qed.

Example C07E_ex_states :
  (* after tick 2: both connected, none authorized, nothing queued, both clients pristine *)
  xa_view (run (sys_init xa_cfg 2) (firstn 10 xa_script))
    = Some ([(0, false); (1, false)], [(0, 0%nat, 0%nat); (1, 0%nat, 0%nat)],
            [(0, 0, [], 0%nat, 0%nat); (1, 0, [], 0%nat, 0%nat)]) /\
  (* the end: client 0 holds entities 1 and 2 at update tick 3, client 1 nothing *)
  xa_view (run (sys_init xa_cfg 2) xa_script)
    = Some ([(0, true); (1, false)], [(0, 0%nat, 0%nat); (1, 0%nat, 0%nat)],
            [(0, 3, [(1, 0); (2, 1)], 0%nat, 0%nat); (1, 0, [], 0%nat, 0%nat)]).
Proof. vm_compute. split; reflexivity. Qed.

(* C07E_unauthorized_client_untouched instantiated: slot 1 at the end of the run (after four ticks), slot 0 after two *)
Example C07E_ex_untouched :
  (exists y cl, run (sys_init xa_cfg 2) xa_script = Ok y /\ al_get 1 (y_clients y) = Some cl /\
     cl_inbox_upd cl = [] /\ cl_inbox_mut cl = [] /\ cl_buffered cl = [] /\ struct_equiv (client_struct cl) [] /\
     l_upd (get_link y 1) = [] /\ l_mut (get_link y 1) = []) /\
  (exists y cl, run (sys_init xa_cfg 2) (firstn 10 xa_script) = Ok y /\ al_get 0 (y_clients y) = Some cl /\
     cl_inbox_upd cl = [] /\ cl_inbox_mut cl = [] /\ cl_buffered cl = [] /\ struct_equiv (client_struct cl) [] /\
     l_upd (get_link y 0) = [] /\ l_mut (get_link y 0) = []).
Proof.
  split.
  - destruct (run (sys_init xa_cfg 2) xa_script) as [y| |] eqn:E; [|vm_compute in E; discriminate|vm_compute in E; discriminate].
    destruct (al_get 1 (y_clients y)) as [cl|] eqn:Ec; [|vm_compute in E; injection E as <-; vm_compute in Ec; discriminate].
    exists y, cl. split; [reflexivity|]. split; [exact Ec|].
    apply (C07E_unauthorized_client_untouched xa_cfg 2 xa_script y 1 cl); try (vm_compute; reflexivity); try assumption.
    + vm_compute in E. injection E as <-. vm_compute in Ec. injection Ec as <-. reflexivity.
    + vm_compute in E. injection E as <-. intros r Hr. vm_compute in Hr. injection Hr as <-. reflexivity.
  - destruct (run (sys_init xa_cfg 2) (firstn 10 xa_script)) as [y| |] eqn:E; [|vm_compute in E; discriminate|vm_compute in E; discriminate].
    destruct (al_get 0 (y_clients y)) as [cl|] eqn:Ec; [|vm_compute in E; injection E as <-; vm_compute in Ec; discriminate].
    exists y, cl. split; [reflexivity|]. split; [exact Ec|].
    apply (C07E_unauthorized_client_untouched xa_cfg 2 (firstn 10 xa_script) y 0 cl); try (vm_compute; reflexivity); try assumption.
    + vm_compute in E. injection E as <-. vm_compute in Ec. injection Ec as <-. reflexivity.
    + vm_compute in E. injection E as <-. intros r Hr. vm_compute in Hr. injection Hr as <-. reflexivity.
Qed.

(* C07E_first_frame_after_authorize instantiated: pre = the first ten steps, then `StAuthorize 0`, a delivery and a client
   frame, then the frame of tick 3 (its output is the third one of C07E_ex_outputs) *)
Definition xa_mid : list step := [StDeliver 0 true 0 All; StCFrame 0 []].
Definition xa_frame3 : step := xfr true [SInsert 2 0 (VNat 9); SVis 0 2 true] [(0, [[]])].

Example C07E_ex_first_frame_script : xa_script = firstn 10 xa_script ++ StAuthorize 0 :: xa_mid ++ xa_frame3 :: skipn 14 xa_script.
Proof. reflexivity. Qed.

Example C07E_ex_first_frame :
  exists y0 r y2 y' fo vs r',
    run (sys_init xa_cfg 2) (firstn 10 xa_script) = Ok y0 /\ find_client (y_server y0) 0 = Some r /\ sc_authorized r = false /\
    run y0 (StAuthorize 0 :: xa_mid) = Ok y2 /\ sys_step y2 xa_frame3 = Ok (y', OSFrame fo vs) /\ fo_ran fo = true /\
    find_client (y_server y') 0 = Some r' /\ sc_authorized r' = true /\
    struct_equiv (abs_send [] (upd_for 0 (fo_clients fo))) (struct_vis (y_server y') r') /\
    (forall e x, repl_get (y_server y') e = Some x -> vis_visible (sc_vis r') e = true ->
       exists u, upd_for 0 (fo_clients fo) = Some u /\ u_tick u = sv_tick (y_server y') /\ In (e, all_comps x) (u_changes u)).
Proof.
  destruct (run (sys_init xa_cfg 2) (firstn 10 xa_script)) as [y0| |] eqn:E0; [|vm_compute in E0; discriminate|vm_compute in E0; discriminate].
  destruct (find_client (y_server y0) 0) as [r|] eqn:Ef0; [|exfalso; vm_compute in E0; injection E0 as <-; vm_compute in Ef0; discriminate].
  assert (Hn0 : sc_authorized r = false) by (vm_compute in E0; injection E0 as <-; vm_compute in Ef0; injection Ef0 as <-; reflexivity).
  destruct (run y0 (StAuthorize 0 :: xa_mid)) as [y2| |] eqn:E2;
    [|exfalso; vm_compute in E0; injection E0 as <-; vm_compute in E2; discriminate|exfalso; vm_compute in E0; injection E0 as <-; vm_compute in E2; discriminate].
  destruct (sys_step y2 xa_frame3) as [[y' o]| |] eqn:E3;
    [|exfalso; vm_compute in E0; injection E0 as <-; vm_compute in E2; injection E2 as <-; vm_compute in E3; discriminate
     |exfalso; vm_compute in E0; injection E0 as <-; vm_compute in E2; injection E2 as <-; vm_compute in E3; discriminate].
  destruct o as [|fo vs| |];
    try (exfalso; vm_compute in E0; injection E0 as <-; vm_compute in E2; injection E2 as <-; vm_compute in E3; discriminate).
  assert (Hran : fo_ran fo = true).
  { vm_compute in E0; injection E0 as <-; vm_compute in E2; injection E2 as <-; vm_compute in E3; injection E3 as _ <- _. reflexivity. }
  destruct (find_client (y_server y') 0) as [r'|] eqn:Ef;
    [|exfalso; vm_compute in E0; injection E0 as <-; vm_compute in E2; injection E2 as <-; vm_compute in E3; injection E3 as <- _ _; vm_compute in Ef; discriminate].
  assert (Ha : sc_authorized r' = true).
  { vm_compute in E0; injection E0 as <-; vm_compute in E2; injection E2 as <-; vm_compute in E3; injection E3 as <- _ _. vm_compute in Ef. injection Ef as <-. reflexivity. }
  exists y0, r, y2, y', fo, vs, r'. repeat (split; [first [reflexivity|assumption]|]).
  exact (C07E_first_frame_after_authorize xa_cfg 2 (firstn 10 xa_script) y0 0 r xa_mid y2
           true 16 false [SInsert 2 0 (VNat 9); SVis 0 2 true] [(0, [[]])] y' fo vs r' E0 Ef0 Hn0 E2 eq_refl E3 Hran Ef Ha).
Qed.

(* the authorization of slot 0 is the `StAuthorize 0` step of the script (instance of C07E_run_authorized_by_step) *)
Example C07E_ex_authorized_by_step :
  exists y, run (sys_init xa_cfg 2) xa_script = Ok y /\ has_auth (y_server y) 0 /\ ~ has_auth (y_server y) 1 /\
    exists pre post y0 r, xa_script = pre ++ StAuthorize 0 :: post /\ run (sys_init xa_cfg 2) pre = Ok y0 /\
      find_client (y_server y0) 0 = Some r /\ sc_authorized r = false.
Proof.
  destruct (run (sys_init xa_cfg 2) xa_script) as [y| |] eqn:E; [|vm_compute in E; discriminate|vm_compute in E; discriminate].
  assert (Ha : has_auth (y_server y) 0).
  { vm_compute in E. injection E as <-. eexists. split; [left; reflexivity|]. split; reflexivity. }
  exists y. split; [reflexivity|]. split; [exact Ha|]. split.
  - vm_compute in E. injection E as <-. intros [r [Hin [Hs Hr]]]. cbn in Hin. destruct Hin as [<-|[<-|[]]]; cbn in Hs, Hr; discriminate.
  - apply (C07E_run_authorized_by_step xa_cfg 2 xa_script y 0); [discriminate|exact E|exact Ha].
Qed.

(* ---- events: custom authorization, two clients; every frame emits a dependent event (SE0, broadcast) and an independent
        one (SEI, broadcast); after the authorization of slot 0 also a mapped event about entity 1 directly to it ---- *)
Definition xe_cfg : cfg := mkCfg PAll AuthCustom false 1000.
Definition xesf (tick : bool) (ops : list sop) (emit : list (sety * (N * bool * bool) * N * option N)) : estep :=
  ESFrame tick 16 false ops [] emit.
Definition xbc : N * bool * bool := (999, false, false).

Definition xe_script : list estep :=
  [EBase StStart; EBase (StConnect 0 1200); EBase (StConnect 1 1200);
   xesf true [SSpawn 1 true [(0, VNat 5)]] [(SE0, xbc, 1, None); (SEI, xbc, 2, None)];
   EDeliverS2C 0 SEI All false; EDeliverS2C 1 SEI All false; ECFrame 0 [] []; ECFrame 1 [] [];
   xesf true [] [(SE0, xbc, 3, None); (SEI, xbc, 4, None)];
   EBase (StAuthorize 0);
   xesf true [SMutate 1 0 (VNat 6)] [(SE0, xbc, 5, None); (SEI, xbc, 6, None); (SEM, (0, false, true), 7, Some 1)];
   EBase (StDeliver 0 true 0 All); EBase (StDeliver 0 true 1 All);
   EDeliverS2C 0 SEI All false; EDeliverS2C 0 SE0 All false; EDeliverS2C 0 SEM All false; EDeliverS2C 1 SEI All false;
   ECFrame 0 [] []; ECFrame 1 [] [];
   xesf true [] [(SE0, xbc, 8, None)];
   EDeliverS2C 0 SE0 All false; ECFrame 0 [] []; ECFrame 1 [] []].

(* per step: the messages handed to the backend (slot, type, stamp, number) and the events handed to game logic *)
Definition xe_obs (r : res (syse * list eout)) :=
  match r with
  | Ok (_, os) => Some (map (fun o => (map (fun sm => (fst sm, sm_ty (snd sm), sm_tick (snd sm), sm_seq (snd sm))) (eo_sent o), eo_got o)) os)
  | _ => None
  end.

Example C07E_ex_events_script : escript_ok xe_script = true /\ tick_frames (proj_script xe_script) = 4.
Proof. vm_compute. split; reflexivity. Qed.

(* slot 1 (never authorized) is sent, and its game logic sees, the independent events 2, 4, 6 only; slot 0 is sent the
   independent ones throughout and dependent ones from its authorization on: 5 and 7 (tick 3), 8 (tick 4).  The dependent
   events 1 and 3, flushed while nobody was authorized, reach nobody (C05_unauthorized_client_misses_dependent_event) *)
Example C07E_ex_events :
  xe_obs (RemoteSpec.erun (syse_init xe_cfg 2) xe_script) =
  Some [([], []); ([], []); ([], []);
        ([(0, SEI, None, 2); (1, SEI, None, 2)], []);
        ([], []); ([], []); ([], [(SEI, 2, None)]); ([], [(SEI, 2, None)]);
        ([(0, SEI, None, 4); (1, SEI, None, 4)], []);
        ([], []);
        ([(0, SEI, None, 6); (1, SEI, None, 6); (0, SE0, Some 3, 5); (0, SEM, Some 3, 7)], []);
        ([], []); ([], []); ([], []); ([], []); ([], []); ([], []);
        ([], [(SE0, 5, None); (SEI, 4, None); (SEI, 6, None); (SEM, 7, Some 1)]);
        ([], [(SEI, 4, None); (SEI, 6, None)]);
        ([(0, SE0, Some 3, 8)], []);
        ([], []); ([], [(SE0, 8, None)]); ([], [])].
Proof. vm_compute. reflexivity. Qed.

(* C07E_unauthorized_held_independent instantiated on slot 1 at the end of the run *)
Example C07E_ex_events_instance :
  exists e gu gl os cl r, crun (syse_init xe_cfg 2) (ug_init, lg_init) xe_script = Ok (e, (gu, gl), os) /\
    al_get 1 (y_clients (e_sys e)) = Some cl /\ find_client (y_server (e_sys e)) 1 = Some r /\ sc_authorized r = false /\
    map sm_seq (ssent gl 1) = [2; 4; 6] /\ map sm_seq (snow gl 1) = [2; 4; 6] /\
    forall m, In m (held_msgs e 1 cl) \/ In m (snow gl 1) -> sm_tick m = None /\ independent (sm_ty m) = true.
Proof.
  destruct (crun (syse_init xe_cfg 2) (ug_init, lg_init) xe_script) as [[[e [gu gl]] os]| |] eqn:E;
    [|vm_compute in E; discriminate|vm_compute in E; discriminate].
  destruct (al_get 1 (y_clients (e_sys e))) as [cl|] eqn:Ec; [|vm_compute in E; injection E as <- _ _ _; vm_compute in Ec; discriminate].
  destruct (find_client (y_server (e_sys e)) 1) as [r|] eqn:Ef; [|vm_compute in E; injection E as <- _ _ _; vm_compute in Ef; discriminate].
  assert (Hn : sc_authorized r = false) by (vm_compute in E; injection E as <- _ _ _; vm_compute in Ef; injection Ef as <-; reflexivity).
  exists e, gu, gl, os, cl, r. split; [reflexivity|]. split; [exact Ec|]. split; [exact Ef|]. split; [exact Hn|].
  split; [vm_compute in E; injection E as _ _ <- _; vm_compute; reflexivity|].
  split; [vm_compute in E; injection E as _ _ <- _; vm_compute; reflexivity|].
  refine (C07E_unauthorized_held_independent xe_cfg 2 xe_script e gu gl os 1 cl r _ _ E Ec _ _ Ef Hn).
  - vm_compute. reflexivity.
  - vm_compute. reflexivity.
  - vm_compute. reflexivity.
  - vm_compute in E; injection E as <- _ _ _. vm_compute in Ec. injection Ec as <-. reflexivity.
Qed.
