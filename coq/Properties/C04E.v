(* C04 end to end, over whole-system runs with remote events -- "A server event or trigger that is not marked independent
   is handed to a client's game logic only after that client has applied every spawn, insertion, removal and despawn the
   server had replicated to it up to the tick in which the event was sent."

   Properties/C04.v pins per-step facts of Events/Remote.v.  Here: invariants of `erun (syse_init c n) script` for EVERY
   script satisfying [escript_ok] (Events/RemoteRun.v):
       forallb legal_estep    deliveries the channel contracts allow
       forallb ebase_ok       no replication frame hidden in an `EBase` step: a frame is an `ESFrame` / `ECFrame`, the event
                              systems run in every frame (witness C04E_witness_hidden_frame)
       script_okf (proj)      legal, no `SMap`, `sessions_ok` (Properties/C03F.v) on the projected `Repl.Sys` script
       no_tick0 (proj)        no replication to a client at replicon tick 0: the open defect D19 (witness C04E_witness_tick0)
   and `tick_frames (proj_script script) < 2^31`.

   E0  `e_sys` of a run is `Sys.run` of the projected script (Remote does not modify Sys): the C03F / C02G theorems apply to it.
   E1  the ghost `ughost` records per slot the update messages sent to / applied by the connection in its current session
       (`usent`, `uapplied`; `urun` is the run with this ghost, C04E_ghost_run).  For a live connection (session mode MLive):
         flush      a stamped message handed to the backend carries the tick of the LAST update message sent to the
                    connection so far, this frame's included (0: none sent yet), and every update message sent so far has a
                    tick up to the stamp;
         delivery   a dependent event handed to game logic came in a message whose stamp is not ahead of the client's update
                    tick; applied ++ in flight = sent (FIFO), and the update messages with a tick up to the stamp are a
                    prefix of the applied ones;
         session    within a session the sent list only grows;
         end to end the update messages sent up to and including the flush frame are a prefix of the applied ones when the
                    event (or any event with a stamp not older) is observed; with distinct sequence numbers
                    (`seqs_distinct`) the observed event numbered q IS the flushed message numbered q
                    (C04E_end_to_end_event; uses the ledger of Properties/C05E.v);
         entity     a delivered mapped event / trigger target names a mapped server entity, and a replica it is mapped to
                    is the replica of that very entity (C04E_entity);
         structure  then the client's structure is empty or `struct_vis` of a server state of the session whose tick is the
                    client's update tick, not before the stamp (C03F_every_moment at that moment).
       Run invariant: `tinv` (Events/RemoteRunTick_proofs.v): every stamped message in flight, received or queued by a live
       connection carries 0 or the tick of an update message sent to it in this session (`lc_stamps`).
   Proofs: Events/RemoteRunProj_proofs.v, Events/RemoteRunTick_proofs.v, Events/RemoteRunE1_proofs.v,
   Events/RemoteRunE2_proofs.v (C04E_end_to_end_event). *)
From Coq Require Import Sorted.
From RV Require Import Lib.Res Repl.ClientTicks Repl.World Vis.Visibility Repl.Server Repl.Client Repl.Sys Tick.RepliconTick
  Repl.StructSpec Repl.StructVisSpec Repl.ClientSys_proofs Repl.ClientStructSpec
  Repl.StructE2E_proofs Repl.StructE2EMut_proofs Repl.StructE2ESess_proofs Repl.ValSpec.
From RV Require Import Events.Remote Events.RemoteSpec Events.Remote_proofs Events.RemoteRun Events.RemoteRunProj_proofs
  Events.RemoteRunTick_proofs Events.RemoteRunE1_proofs Events.RemoteRunLedger_proofs Events.RemoteRunOnce_proofs Events.RemoteRunE2_proofs.
Open Scope N_scope.

(* ---------- E0: the projection ---------- *)

Theorem C04E_projection : forall c n script e os,
  RemoteSpec.erun (syse_init c n) script = Ok (e, os) -> run (sys_init c n) (proj_script script) = Ok (e_sys e).
Proof. exact erun_init_sys. Qed.

(* from any state in which every client app has its event state *)
Theorem C04E_projection_from : forall script e e' os, clients_dom e ->
  RemoteSpec.erun e script = Ok (e', os) -> run (e_sys e) (proj_script script) = Ok (e_sys e') /\ clients_dom e'.
Proof. exact erun_sys. Qed.

(* one step: the `Sys` step of the projection, with the observation of the replication layer *)
Theorem C04E_projection_step : forall e st e' o, clients_dom e -> syse_step e st = Ok (e', o) ->
  match proj_estep st with
  | [] => e_sys e' = e_sys e
  | b :: _ => sys_step (e_sys e) b = Ok (e_sys e', eo_base o)
  end.
Proof. exact step_sys. Qed.

(* a run with a ghost is the run, and every run has its ghost *)
Theorem C04E_ghost_run : forall script e g e' g' os,
  (urun e g script = Ok (e', g', os) -> RemoteSpec.erun e script = Ok (e', os)) /\
  (RemoteSpec.erun e script = Ok (e', os) -> exists g2, urun e g script = Ok (e', g2, os)).
Proof. intros. split; [apply grun_erun|apply erun_grun]. Qed.

(* the structural invariant of C03F holds along every run with remote events *)
Theorem C04E_struct_invariant : forall c n script e os,
  escript_ok script = true -> tick_frames (proj_script script) < 2 ^ 31 ->
  RemoteSpec.erun (syse_init c n) script = Ok (e, os) ->
  exists gs, erun_s (sys_init c n) [] (proj_script script) = Ok (e_sys e, gs) /\ f_inv c n (proj_script script) (e_sys e) gs.
Proof. exact finv_of_erun. Qed.

(* ---------- E1: the invariant ---------- *)

Theorem C04E_invariant : forall c n script e g os,
  escript_ok script = true -> tick_frames (proj_script script) < 2 ^ 31 ->
  urun (syse_init c n) ug_init script = Ok (e, g, os) -> tinv script e g.
Proof. exact tinv_run. Qed.

(* what the invariant says about a live connection *)
Theorem C04E_invariant_live : forall c n script e g os slot cl,
  escript_ok script = true -> tick_frames (proj_script script) < 2 ^ 31 ->
  urun (syse_init c n) ug_init script = Ok (e, g, os) ->
  al_get slot (y_clients (e_sys e)) = Some cl -> emode script slot = MLive -> cl_status cl = Connected ->
  usent g slot = uapplied g slot ++ cl_inbox_upd cl ++ l_upd (get_link (e_sys e) slot) /\
  StronglySorted N.lt (map u_tick (usent g slot)) /\
  (forall u, In u (usent g slot) -> 1 <= u_tick u <= sv_tick (y_server (e_sys e))) /\
  (forall r, find_client (y_server (e_sys e)) slot = Some r ->
     if sc_authorized r then ct_update_tick (sc_ticks r) = last_tick (usent g slot) else usent g slot = []) /\
  cl_upd_tick cl = last_tick (uapplied g slot) /\
  (forall m tk, In m (held_msgs e slot cl) -> sm_tick m = Some tk -> tk = 0 \/ In tk (map u_tick (usent g slot))).
Proof.
  intros c n script e g os slot cl Hok Hb H Hc Hm Hs. destruct (tinv_run c n script e g os Hok Hb H) as [_ _ T3].
  destruct (T3 slot cl Hc) as [_ I2]. destruct (I2 Hm Hs) as [L1 L2 L3 L4 L5 L6]. auto 10.
Qed.

(* ... and about a slot without a session: nothing in flight, nothing received *)
Theorem C04E_invariant_idle : forall c n script e g os slot cl,
  escript_ok script = true -> tick_frames (proj_script script) < 2 ^ 31 ->
  urun (syse_init c n) ug_init script = Ok (e, g, os) ->
  al_get slot (y_clients (e_sys e)) = Some cl ->
  emode script slot = MClean \/ emode script slot = MLeft \/ (emode script slot = MLive /\ cl_status cl = Disconnected) ->
  chan_s2c e slot = [] /\ inbox_of e slot = [].
Proof.
  intros c n script e g os slot cl Hok Hb H Hc Hi. destruct (tinv_run c n script e g os Hok Hb H) as [_ _ T3].
  destruct (T3 slot cl Hc) as [I1 _]. destruct (I1 Hi) as (A & B & _). auto.
Qed.

(* in every reachable state: a message held anywhere on the client side is stamped iff its type is dependent *)
Theorem C04E_stamped_iff_dependent : forall c n e, reachable c n e ->
  forall slot m, In m (chan_s2c e slot ++ inbox_of e slot ++ map snd (queue_of e slot)) ->
  (sm_tick m = None <-> independent (sm_ty m) = true).
Proof. intros c n e Hr. exact (proj1 (reachable_minv c n e Hr)). Qed.

(* ---------- E1: the flush ---------- *)

Theorem C04E_flush : forall c n script tick dt cleanup ops parts emit e1 g1 os1 e o,
  let st := ESFrame tick dt cleanup ops parts emit in
  let g := ustep e1 g1 st e o in
  escript_ok (script ++ [st]) = true -> tick_frames (proj_script (script ++ [st])) < 2 ^ 31 ->
  urun (syse_init c n) ug_init script = Ok (e1, g1, os1) -> syse_step e1 st = Ok (e, o) ->
  forall slot cl m tk, emode (script ++ [st]) slot = MLive -> al_get slot (y_clients (e_sys e)) = Some cl ->
  In (slot, m) (eo_sent o) -> sm_tick m = Some tk ->
  cl_status cl = Connected /\
  (exists r, find_client (y_server (e_sys e)) slot = Some r /\ sc_authorized r = true /\ ct_update_tick (sc_ticks r) = tk) /\
  tk = last_tick (usent g slot) /\ sent_upto tk (usent g slot) = usent g slot /\
  (exists fo views, eo_base o = OSFrame fo views /\ usent g slot = usent g1 slot ++ updates_for slot (fo_clients fo)).
Proof. exact e1_flush. Qed.

(* ---------- E1: the delivery ---------- *)

Theorem C04E_delivery : forall c n script slot ops emit e1 g1 os1 e o,
  let st := ECFrame slot ops emit in
  let g := ustep e1 g1 st e o in
  escript_ok (script ++ [st]) = true -> tick_frames (proj_script (script ++ [st])) < 2 ^ 31 ->
  urun (syse_init c n) ug_init script = Ok (e1, g1, os1) -> syse_step e1 st = Ok (e, o) ->
  emode (script ++ [st]) slot = MLive ->
  forall ty q ent, In (ty, q, ent) (eo_got o) -> independent ty = false ->
  exists cl tk m,
    al_get slot (y_clients (e_sys e)) = Some cl /\ cl_status cl = Connected /\
    deliverable cl m = Some (ty, q, ent) /\ sm_tick m = Some tk /\ In m (held_all e1 slot) /\
    (tk = 0 \/ In tk (map u_tick (usent g slot))) /\
    tk <= cl_upd_tick cl /\ cl_upd_tick cl = last_tick (uapplied g slot) /\
    usent g slot = uapplied g slot ++ l_upd (get_link (e_sys e) slot) /\
    is_prefix (sent_upto tk (usent g slot)) (uapplied g slot).
Proof. exact e1_delivery. Qed.

Theorem C04E_structure : forall c n script slot ops emit e1 g1 os1 e o,
  let st := ECFrame slot ops emit in
  escript_ok (script ++ [st]) = true -> tick_frames (proj_script (script ++ [st])) < 2 ^ 31 ->
  urun (syse_init c n) ug_init script = Ok (e1, g1, os1) -> syse_step e1 st = Ok (e, o) ->
  emode (script ++ [st]) slot = MLive ->
  forall ty q ent, In (ty, q, ent) (eo_got o) -> independent ty = false ->
  exists cl tk m,
    al_get slot (y_clients (e_sys e)) = Some cl /\ deliverable cl m = Some (ty, q, ent) /\ sm_tick m = Some tk /\
    tk <= cl_upd_tick cl /\
    (struct_equiv (client_struct cl) [] \/
     exists pre post y1 cl1, proj_script (script ++ [st]) = pre ++ post /\ run (sys_init c n) pre = Ok y1 /\
       forallb (fun b => negb (ends_session slot b)) post = true /\
       find_client (y_server y1) slot = Some cl1 /\ sc_authorized cl1 = true /\
       struct_equiv (client_struct cl) (struct_vis (y_server y1) cl1) /\ cl_upd_tick cl = sv_tick (y_server y1) /\
       tk <= sv_tick (y_server y1)).
Proof. exact e1_structure. Qed.

(* entity references: a delivered mapped event / trigger target names a mapped server entity (per step: C04); when the
   mapped client entity is a replica, it is the replica of THAT server entity, replicated and visible to this client at
   the client's update tick (no `SMap` operations: `script_okf`) *)
Theorem C04E_entity : forall c n script slot ops emit e1 g1 os1 e o,
  let st := ECFrame slot ops emit in
  escript_ok (script ++ [st]) = true -> tick_frames (proj_script (script ++ [st])) < 2 ^ 31 ->
  urun (syse_init c n) ug_init script = Ok (e1, g1, os1) -> syse_step e1 st = Ok (e, o) ->
  emode (script ++ [st]) slot = MLive ->
  forall ty q se, In (ty, q, Some se) (eo_got o) -> independent ty = false ->
  exists cl tk, al_get slot (y_clients (e_sys e)) = Some cl /\ al_get se (cl_s2c cl) <> None /\ tk <= cl_upd_tick cl /\
    forall ks, al_get se (client_struct cl) = Some ks ->
      exists pre post y1 cl1 ks', proj_script (script ++ [st]) = pre ++ post /\ run (sys_init c n) pre = Ok y1 /\
        forallb (fun b => negb (ends_session slot b)) post = true /\
        find_client (y_server y1) slot = Some cl1 /\ sc_authorized cl1 = true /\
        al_get se (struct_vis (y_server y1) cl1) = Some ks' /\ kinds_equiv ks ks' /\
        cl_upd_tick cl = sv_tick (y_server y1) /\ tk <= sv_tick (y_server y1).
Proof. exact e1_entity. Qed.

(* ---------- E1: within a session, and end to end ---------- *)

Theorem C04E_session : forall c n mid script slot e1 g1 os1 e2 g2 os2 c1,
  escript_ok (script ++ mid) = true -> tick_frames (proj_script (script ++ mid)) < 2 ^ 31 ->
  urun (syse_init c n) ug_init script = Ok (e1, g1, os1) -> urun e1 g1 mid = Ok (e2, g2, os2) ->
  emode script slot = MLive -> al_get slot (y_clients (e_sys e1)) = Some c1 -> cl_status c1 = Connected ->
  forallb (fun b => negb (ends_session slot b)) (proj_script mid) = true ->
  exists ext c2, usent g2 slot = usent g1 slot ++ ext /\ emode (script ++ mid) slot = MLive /\
                 al_get slot (y_clients (e_sys e2)) = Some c2 /\ cl_status c2 = Connected.
Proof. exact e1_session. Qed.

Theorem C04E_end_to_end : forall c n script tick dt cleanup ops parts emit mid slot cops cemit e1 g1 os1 e2 o2 e3 g3 os3 e4 o4 c2,
  let stf := ESFrame tick dt cleanup ops parts emit in
  let stc := ECFrame slot cops cemit in
  let g2 := ustep e1 g1 stf e2 o2 in
  let g4 := ustep e3 g3 stc e4 o4 in
  let full := ((script ++ [stf]) ++ mid) ++ [stc] in
  escript_ok full = true -> tick_frames (proj_script full) < 2 ^ 31 ->
  urun (syse_init c n) ug_init script = Ok (e1, g1, os1) -> syse_step e1 stf = Ok (e2, o2) ->
  urun e2 g2 mid = Ok (e3, g3, os3) -> syse_step e3 stc = Ok (e4, o4) ->
  emode (script ++ [stf]) slot = MLive -> al_get slot (y_clients (e_sys e2)) = Some c2 ->
  forallb (fun b => negb (ends_session slot b)) (proj_script mid) = true ->
  forall m tk, In (slot, m) (eo_sent o2) -> sm_tick m = Some tk ->
  forall ty q ent, In (ty, q, ent) (eo_got o4) -> independent ty = false ->
  exists cl tk' m',
    al_get slot (y_clients (e_sys e4)) = Some cl /\ deliverable cl m' = Some (ty, q, ent) /\ sm_tick m' = Some tk' /\
    In m' (held_all e3 slot) /\ tk' <= cl_upd_tick cl /\ tk = last_tick (usent g2 slot) /\
    (tk <= tk' -> is_prefix (usent g2 slot) (uapplied g4 slot)).
Proof. exact e1_end_to_end. Qed.

(* ... for THE event: with distinct sequence numbers (`seqs_distinct`) the event numbered q that is flushed to the connection
   and the event numbered q it observes later in the session travel in the same message *)
Theorem C04E_end_to_end_event : forall c n script tick dt cleanup ops parts emit mid slot cops cemit e1 g1 os1 e2 o2 e3 g3 os3 e4 o4 c2,
  let stf := ESFrame tick dt cleanup ops parts emit in
  let stc := ECFrame slot cops cemit in
  let g2 := ustep e1 g1 stf e2 o2 in
  let g4 := ustep e3 g3 stc e4 o4 in
  let full := ((script ++ [stf]) ++ mid) ++ [stc] in
  escript_ok full = true -> tick_frames (proj_script full) < 2 ^ 31 -> seqs_distinct full ->
  urun (syse_init c n) ug_init script = Ok (e1, g1, os1) -> syse_step e1 stf = Ok (e2, o2) ->
  urun e2 g2 mid = Ok (e3, g3, os3) -> syse_step e3 stc = Ok (e4, o4) ->
  emode (script ++ [stf]) slot = MLive -> al_get slot (y_clients (e_sys e2)) = Some c2 ->
  forallb (fun b => negb (ends_session slot b)) (proj_script mid) = true ->
  forall m tk ty q ent, In (slot, m) (eo_sent o2) -> sm_tick m = Some tk -> sm_seq m = q ->
  In (ty, q, ent) (eo_got o4) -> independent ty = false ->
  exists cl, al_get slot (y_clients (e_sys e4)) = Some cl /\ deliverable cl m = Some (ty, q, ent) /\
    tk <= cl_upd_tick cl /\ tk = last_tick (usent g2 slot) /\ is_prefix (usent g2 slot) (uapplied g4 slot).
Proof. exact e1_end_to_end_seq. Qed.

Print Assumptions C04E_end_to_end_event.
Print Assumptions C04E_entity.
Print Assumptions C04E_projection.
Print Assumptions C04E_projection_from.
Print Assumptions C04E_projection_step.
Print Assumptions C04E_ghost_run.
Print Assumptions C04E_struct_invariant.
Print Assumptions C04E_invariant.
Print Assumptions C04E_invariant_live.
Print Assumptions C04E_invariant_idle.
Print Assumptions C04E_stamped_iff_dependent.
Print Assumptions C04E_flush.
Print Assumptions C04E_delivery.
Print Assumptions C04E_structure.
Print Assumptions C04E_session.
Print Assumptions C04E_end_to_end.

(* ---------- the statements are not vacuous ---------- *)

Definition c04e_cfg : cfg := mkCfg PAll AuthNone false 10000.
Definition esf (tick : bool) (ops : list sop) (emit : list (sety * (N * bool * bool) * N * option N)) : estep :=
  ESFrame tick 16 false ops [] emit.

(* three client slots.  Ticks 1 and 2 replicate entity 1 to clients 0 and 1; client 0 applies tick 1, client 1 nothing.
   SE0/7 is emitted in a frame without tick, then client 2 connects; tick 3 spawns entity 2 and emits the mapped event
   SEM/8 about it: the flush stamps SE0/7 and SEM/8 with 3 for clients 0 and 1, client 2 gets SEM/8 only (it connected
   after SE0/7 was emitted).  All event messages overtake the update messages.  Client 0 receives its two pending update
   messages and delivers both events in its next frame; client 1 queues them and releases them only in the frame that
   applies the third update message, in tick order, entity 2 mapped. *)
Definition c04e_pre : list estep :=
  [EBase StStart; EBase (StConnect 0 1200); EBase (StConnect 1 1200);
   esf true [SSpawn 1 true [(0, VNat 5)]] [];
   EBase (StDeliver 0 true 0 All); ECFrame 0 [] [];
   esf true [SInsert 1 1 (VNat 7)] [];
   esf false [] [(SE0, (999, false, false), 7, None)];
   EBase (StConnect 2 1200)].
Definition c04e_flush_step : estep := esf true [SSpawn 2 true [(0, VNat 9)]] [(SEM, (999, false, false), 8, Some 2)].
Definition c04e_mid : list estep :=
  [EDeliverS2C 0 SE0 All false; EDeliverS2C 0 SEM All false; EDeliverS2C 1 SE0 All false; EDeliverS2C 1 SEM All false;
   EBase (StDeliver 0 true 0 All); ECFrame 0 [] [];
   ECFrame 1 [] [];
   EBase (StDeliver 1 true 0 First); ECFrame 1 [] [];
   EBase (StDeliver 1 true 0 First); ECFrame 1 [] [];
   EBase (StDeliver 1 true 0 First)].
Definition c04e_last : estep := ECFrame 1 [] [].
Definition c04e_script : list estep := ((c04e_pre ++ [c04e_flush_step]) ++ c04e_mid) ++ [c04e_last].

Definition c04e_view (r : res (syse * ughost * list eout)) :=
  match r with
  | Ok (e, g, os) =>
    Some (map eo_sent os, map eo_got os, map (fun kv => (fst kv, ce_queue (snd kv))) (e_clients e),
          map (fun kv => (fst kv, map u_tick (snd kv))) (ug_sent g), map (fun kv => (fst kv, map u_tick (snd kv))) (ug_applied g),
          map (fun kv => (fst kv, cl_upd_tick (snd kv))) (y_clients (e_sys e)))
  | _ => None
  end.

Example C04E_ex_premises :
  escript_ok c04e_script = true /\ tick_frames (proj_script c04e_script) = 3 /\
  emode c04e_script 0 = MLive /\ emode c04e_script 1 = MLive /\ emode c04e_script 2 = MLive.
Proof. vm_compute. repeat split; reflexivity. Qed.

Example C04E_ex_run :
  let a := mkSMsg SE0 (Some 3) 7 None in
  let b := mkSMsg SEM (Some 3) 8 (Some 2) in
  c04e_view (urun (syse_init c04e_cfg 3) ug_init c04e_script)
  = Some ([[]; []; []; []; []; []; []; []; []; [(0, a); (1, a); (0, b); (1, b); (2, b)];
           []; []; []; []; []; []; []; []; []; []; []; []; []],
          [[]; []; []; []; []; []; []; []; []; []; []; []; []; []; []; [(SE0, 7, None); (SEM, 8, Some 2)];
           []; []; []; []; []; []; [(SE0, 7, None); (SEM, 8, Some 2)]],
          [(0, []); (1, []); (2, [])],
          [(0, [1; 2; 3]); (1, [1; 2; 3]); (2, [3])], [(0, [1; 2; 3]); (1, [1; 2; 3]); (2, [])],
          [(0, 3); (1, 3); (2, 0)]) /\
  (* client 1 after its first frame: both events queued by tick, nothing applied *)
  match urun (syse_init c04e_cfg 3) ug_init (firstn 17 c04e_script) with
  | Ok (e, g, os) => Some (map (fun kv => (fst kv, ce_queue (snd kv))) (e_clients e), uapplied g 1, map eo_got (skipn 16 os))
  | _ => None
  end = Some ([(0, []); (1, [(SE0, 3, a); (SEM, 3, b)]); (2, [])], [], [[]]).
Proof. vm_compute. split; reflexivity. Qed.

(* C04E_end_to_end instantiated: the three update messages sent to client 1 up to the flush are a prefix of (here: are)
   what it has applied when SEM/8 reaches its game logic *)
Example C04E_ex_instance :
  exists e1 g1 os1 e2 o2 e3 g3 os3 e4 o4 c2 cl tk' m',
    urun (syse_init c04e_cfg 3) ug_init c04e_pre = Ok (e1, g1, os1) /\ syse_step e1 c04e_flush_step = Ok (e2, o2) /\
    urun e2 (ustep e1 g1 c04e_flush_step e2 o2) c04e_mid = Ok (e3, g3, os3) /\ syse_step e3 c04e_last = Ok (e4, o4) /\
    al_get 1 (y_clients (e_sys e2)) = Some c2 /\
    al_get 1 (y_clients (e_sys e4)) = Some cl /\ deliverable cl m' = Some (SEM, 8, Some 2) /\ sm_tick m' = Some tk' /\
    tk' <= cl_upd_tick cl /\ 3 = last_tick (usent (ustep e1 g1 c04e_flush_step e2 o2) 1) /\
    (3 <= tk' -> is_prefix (usent (ustep e1 g1 c04e_flush_step e2 o2) 1) (uapplied (ustep e3 g3 c04e_last e4 o4) 1)) /\
    map u_tick (usent (ustep e1 g1 c04e_flush_step e2 o2) 1) = [1; 2; 3].
Proof.
  destruct (urun (syse_init c04e_cfg 3) ug_init c04e_pre) as [[[e1 g1] os1]| |] eqn:E1; [|vm_compute in E1; discriminate..].
  destruct (syse_step e1 c04e_flush_step) as [[e2 o2]| |] eqn:E2;
    [|vm_compute in E1; injection E1 as <- _ _; vm_compute in E2; discriminate..].
  destruct (urun e2 (ustep e1 g1 c04e_flush_step e2 o2) c04e_mid) as [[[e3 g3] os3]| |] eqn:E3;
    [|vm_compute in E1; injection E1 as <- <- _; vm_compute in E2; injection E2 as <- <-; vm_compute in E3; discriminate..].
  destruct (syse_step e3 c04e_last) as [[e4 o4]| |] eqn:E4;
    [|vm_compute in E1; injection E1 as <- <- _; vm_compute in E2; injection E2 as <- <-; vm_compute in E3; injection E3 as <- _ _;
      vm_compute in E4; discriminate..].
  destruct (al_get 1 (y_clients (e_sys e2))) as [c2|] eqn:Ec2;
    [|vm_compute in E1; injection E1 as <- _ _; vm_compute in E2; injection E2 as <- _; vm_compute in Ec2; discriminate].
  assert (Hin : In (1, mkSMsg SEM (Some 3) 8 (Some 2)) (eo_sent o2)).
  { vm_compute in E1. injection E1 as <- _ _. vm_compute in E2. injection E2 as _ <-. vm_compute. tauto. }
  assert (Hgot : In (SEM, 8, Some 2) (eo_got o4)).
  { vm_compute in E1. injection E1 as <- <- _. vm_compute in E2. injection E2 as <- <-. vm_compute in E3. injection E3 as <- _ _.
    vm_compute in E4. injection E4 as _ <-. vm_compute. tauto. }
  assert (Hb : tick_frames (proj_script c04e_script) < 2 ^ 31) by (rewrite (proj1 (proj2 C04E_ex_premises)); reflexivity).
  destruct (C04E_end_to_end c04e_cfg 3 c04e_pre true 16 false [SSpawn 2 true [(0, VNat 9)]] [] [(SEM, (999, false, false), 8, Some 2)]
              c04e_mid 1 [] [] e1 g1 os1 e2 o2 e3 g3 os3 e4 o4 c2 (proj1 C04E_ex_premises) Hb E1 E2 E3 E4 eq_refl Ec2 eq_refl
              (mkSMsg SEM (Some 3) 8 (Some 2)) 3 Hin eq_refl SEM 8 (Some 2) Hgot eq_refl) as (cl & tk' & m' & A1 & A2 & A3 & _ & A4 & A5 & A6).
  exists e1, g1, os1, e2, o2, e3, g3, os3, e4, o4, c2, cl, tk', m'. repeat (split; [first [assumption|reflexivity]|]).
  vm_compute in E1. injection E1 as <- <- _. vm_compute in E2. injection E2 as <- <-. vm_compute. reflexivity.
Qed.

Example C04E_ex_seqs : seqs_distinct c04e_script.
Proof. unfold seqs_distinct. vm_compute. repeat constructor; cbn; intuition discriminate. Qed.

(* ... and C04E_end_to_end_event: SEM/8 itself *)
Example C04E_ex_instance_event :
  exists e1 g1 os1 e2 o2 e3 g3 os3 e4 o4 cl,
    urun (syse_init c04e_cfg 3) ug_init c04e_pre = Ok (e1, g1, os1) /\ syse_step e1 c04e_flush_step = Ok (e2, o2) /\
    urun e2 (ustep e1 g1 c04e_flush_step e2 o2) c04e_mid = Ok (e3, g3, os3) /\ syse_step e3 c04e_last = Ok (e4, o4) /\
    al_get 1 (y_clients (e_sys e4)) = Some cl /\ deliverable cl (mkSMsg SEM (Some 3) 8 (Some 2)) = Some (SEM, 8, Some 2) /\
    3 <= cl_upd_tick cl /\
    is_prefix (usent (ustep e1 g1 c04e_flush_step e2 o2) 1) (uapplied (ustep e3 g3 c04e_last e4 o4) 1).
Proof.
  destruct (urun (syse_init c04e_cfg 3) ug_init c04e_pre) as [[[e1 g1] os1]| |] eqn:E1; [|vm_compute in E1; discriminate..].
  destruct (syse_step e1 c04e_flush_step) as [[e2 o2]| |] eqn:E2;
    [|vm_compute in E1; injection E1 as <- _ _; vm_compute in E2; discriminate..].
  destruct (urun e2 (ustep e1 g1 c04e_flush_step e2 o2) c04e_mid) as [[[e3 g3] os3]| |] eqn:E3;
    [|vm_compute in E1; injection E1 as <- <- _; vm_compute in E2; injection E2 as <- <-; vm_compute in E3; discriminate..].
  destruct (syse_step e3 c04e_last) as [[e4 o4]| |] eqn:E4;
    [|vm_compute in E1; injection E1 as <- <- _; vm_compute in E2; injection E2 as <- <-; vm_compute in E3; injection E3 as <- _ _;
      vm_compute in E4; discriminate..].
  destruct (al_get 1 (y_clients (e_sys e2))) as [c2|] eqn:Ec2;
    [|vm_compute in E1; injection E1 as <- _ _; vm_compute in E2; injection E2 as <- _; vm_compute in Ec2; discriminate].
  assert (Hin : In (1, mkSMsg SEM (Some 3) 8 (Some 2)) (eo_sent o2)).
  { vm_compute in E1. injection E1 as <- _ _. vm_compute in E2. injection E2 as _ <-. vm_compute. tauto. }
  assert (Hgot : In (SEM, 8, Some 2) (eo_got o4)).
  { vm_compute in E1. injection E1 as <- <- _. vm_compute in E2. injection E2 as <- <-. vm_compute in E3. injection E3 as <- _ _.
    vm_compute in E4. injection E4 as _ <-. vm_compute. tauto. }
  assert (Hb : tick_frames (proj_script c04e_script) < 2 ^ 31) by (rewrite (proj1 (proj2 C04E_ex_premises)); reflexivity).
  destruct (C04E_end_to_end_event c04e_cfg 3 c04e_pre true 16 false [SSpawn 2 true [(0, VNat 9)]] [] [(SEM, (999, false, false), 8, Some 2)]
              c04e_mid 1 [] [] e1 g1 os1 e2 o2 e3 g3 os3 e4 o4 c2 (proj1 C04E_ex_premises) Hb C04E_ex_seqs E1 E2 E3 E4 eq_refl Ec2 eq_refl
              (mkSMsg SEM (Some 3) 8 (Some 2)) 3 SEM 8 (Some 2) Hin eq_refl eq_refl Hgot eq_refl) as (cl & A1 & A2 & A3 & _ & A5).
  exists e1, g1, os1, e2, o2, e3, g3, os3, e4, o4, cl. auto 10.
Qed.

(* C04E_entity on the run: entity 2, spawned in the flush tick, is a replica on client 1 when SEM/8 is delivered: it is
   the server's entity 2 (kinds [0]) at tick 3 *)
Example C04E_ex_entity :
  exists e1 g1 os1 e o cl ks,
    urun (syse_init c04e_cfg 3) ug_init ((c04e_pre ++ [c04e_flush_step]) ++ c04e_mid) = Ok (e1, g1, os1) /\
    syse_step e1 c04e_last = Ok (e, o) /\ In (SEM, 8, Some 2) (eo_got o) /\
    al_get 1 (y_clients (e_sys e)) = Some cl /\ al_get 2 (client_struct cl) = Some ks /\
    exists pre post y1 cl1 ks', proj_script c04e_script = pre ++ post /\ run (sys_init c04e_cfg 3) pre = Ok y1 /\
      find_client (y_server y1) 1 = Some cl1 /\ al_get 2 (struct_vis (y_server y1) cl1) = Some ks' /\ kinds_equiv ks ks' /\
      cl_upd_tick cl = sv_tick (y_server y1).
Proof.
  destruct (urun (syse_init c04e_cfg 3) ug_init ((c04e_pre ++ [c04e_flush_step]) ++ c04e_mid)) as [[[e1 g1] os1]| |] eqn:E1; [|vm_compute in E1; discriminate..].
  destruct (syse_step e1 c04e_last) as [[e o]| |] eqn:E2; [|vm_compute in E1; injection E1 as <- _ _; vm_compute in E2; discriminate..].
  assert (Hgot : In (SEM, 8, Some 2) (eo_got o)).
  { vm_compute in E1. injection E1 as <- _ _. vm_compute in E2. injection E2 as _ <-. vm_compute. tauto. }
  assert (Hb : tick_frames (proj_script c04e_script) < 2 ^ 31) by (rewrite (proj1 (proj2 C04E_ex_premises)); reflexivity).
  destruct (C04E_entity c04e_cfg 3 _ 1 [] [] e1 g1 os1 e o (proj1 C04E_ex_premises) Hb E1 E2 eq_refl SEM 8 2 Hgot eq_refl) as (cl & tk & Hcl & _ & _ & Hent).
  destruct (al_get 2 (client_struct cl)) as [ks|] eqn:Eks.
  2:{ exfalso. vm_compute in E1. injection E1 as <- _ _. vm_compute in E2. injection E2 as <- _. vm_compute in Hcl. injection Hcl as <-. vm_compute in Eks. discriminate. }
  destruct (Hent ks eq_refl) as (pre & post & y1 & cl1 & ks' & A1 & A2 & _ & A4 & _ & A6 & A7 & A8 & _).
  exists e1, g1, os1, e, o, cl, ks. repeat (split; [first [assumption|reflexivity]|]). exists pre, post, y1, cl1, ks'. auto 10.
Qed.

(* ---------- why the premises are there ---------- *)

(* W1 (defect D19).  The first server frame does not increment the tick: the spawn of entity 1 is replicated at tick 0,
   SE0/7 is stamped 0, and the client - update tick 0, nothing applied - hands it to game logic before the update message
   arrived.  `no_tick0` fails; everything else holds. *)
Definition c04e_w_tick0 : list estep :=
  [EBase StStart; EBase (StConnect 0 1200);
   esf false [SSpawn 1 true [(0, VNat 5)]] [(SE0, (999, false, false), 7, None)];
   EDeliverS2C 0 SE0 All false; ECFrame 0 [] []].
Example C04E_witness_tick0 :
  no_tick0 (proj_script c04e_w_tick0) = false /\ script_okf (proj_script c04e_w_tick0) = true /\
  forallb legal_estep c04e_w_tick0 = true /\ forallb ebase_ok c04e_w_tick0 = true /\
  c04e_view (urun (syse_init c04e_cfg 1) ug_init c04e_w_tick0)
  = Some ([[]; []; [(0, mkSMsg SE0 (Some 0) 7 None)]; []; []], [[]; []; []; []; [(SE0, 7, None)]],
          [(0, [])], [(0, [0])], [(0, [])], [(0, 0)]).
Proof. vm_compute. repeat split; reflexivity. Qed.

(* W2.  A client frame hidden in an `EBase` step (`StCFrame` without the event systems: impossible in the implementation,
   where `ClientEventPlugin` runs in every frame): the flag of `client_just_connected` is consumed without `ResetEvents`,
   the queue of the first session survives, and SE0/7 - stamped 1 for connection 1 - is handed to connection 2 when it
   applies the update message of tick 2.  Only `ebase_ok` fails. *)
Definition c04e_w_hidden : list estep :=
  [EBase StStart; EBase (StConnect 0 1200);
   esf true [SSpawn 1 true [(0, VNat 5)]] [(SE0, (999, false, false), 7, None)];
   EDeliverS2C 0 SE0 All false; ECFrame 0 [] [];
   EBase (StDisconnect 0); ECFrame 0 [] []; EBase (StConnect 0 1200);
   esf true [] [];
   EBase (StCFrame 0 []);
   EBase (StDeliver 0 true 0 All); ECFrame 0 [] []].
Example C04E_witness_hidden_frame :
  forallb ebase_ok c04e_w_hidden = false /\ script_okf (proj_script c04e_w_hidden) = true /\
  no_tick0 (proj_script c04e_w_hidden) = true /\ forallb legal_estep c04e_w_hidden = true /\
  c04e_view (urun (syse_init c04e_cfg 1) ug_init c04e_w_hidden)
  = Some ([[]; []; [(0, mkSMsg SE0 (Some 1) 7 None)]; []; []; []; []; []; []; []; []; []],
          [[]; []; []; []; []; []; []; []; []; []; []; [(SE0, 7, None)]],
          [(0, [])], [(0, [2])], [(0, [2])], [(0, 2)]).
Proof. vm_compute. repeat split; reflexivity. Qed.

(* W3.  `sessions_ok`: the quick reconnect of Properties/C05.v (C05_quick_reconnect_receives_old_event: no client frame
   between `StDisconnect 0` and `StConnect 0`) is excluded by this premise. *)
Example C04E_witness_quick_reconnect :
  sessions_ok (proj_script [EBase StStart; esf false [] []; EBase (StConnect 0 1200);
                            esf true [SSpawn 1 true [(0, VNat 5)]] [(SE0, (999, false, false), 7, None)];
                            EDeliverS2C 0 SE0 All false; ECFrame 0 [] [];
                            EBase (StDisconnect 0); EBase (StConnect 0 1200)]) = false.
Proof. vm_compute. reflexivity. Qed.
