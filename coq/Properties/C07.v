(* C07 (Layer 1) -- clients that are not authorized get no replication; a newly authorized
   client gets the complete (visible) state.  Model: Repl/Server.v (`send_for_client`,
   `send_replication`, `server_frame`, `connect_client`, `authorize_client`); helper names:
   Repl/ServerSpec.v; proofs: Repl/Server_proofs.v.  All statements are for arbitrary server
   states, configurations and partition oracles unless a hypothesis says otherwise
   (`ents_wf s`: the entity table has unique keys, an invariant of the model, see C07_ents_wf_init and following). *)
From RV Require Import Lib.Res Repl.ClientTicks Repl.World Vis.Visibility Repl.Server Repl.ServerSpec
  Repl.Server_proofs.
Open Scope N_scope.

(* `send_for_client` (hence `send_replication`) never fails *)
Theorem C07_send_for_client_total : forall c s this_run cl p,
  send_for_client c s this_run cl p = Ok (sfc_pure c s this_run cl p).
Proof. exact send_for_client_eq. Qed.

(* 1. every output of `send_replication` belongs to an authorized client; the record of an
      unauthorized client is not touched *)
Theorem C07_send_replication_only_authorized : forall c s parts s' outs,
  send_replication c s parts = Ok (s', outs) ->
  (forall o, In o outs -> exists cl, In cl (sv_clients s) /\ sc_slot cl = co_slot o /\ sc_authorized cl = true) /\
  Forall2 (fun cl cl' => sc_slot cl' = sc_slot cl /\ (sc_authorized cl = false -> cl' = cl) /\
                         (sc_authorized cl = true -> sc_authorized cl' = true))
          (sv_clients s) (sv_clients s').
Proof. exact send_replication_only_authorized. Qed.

(* ... tied to a whole frame: whatever the frame does (acks, cleanup, game operations), its
   outputs are for slots that were authorized BEFORE the frame *)
Theorem C07_server_frame_only_authorized : forall c s tick dt cleanup ops parts s' fo,
  server_frame c s tick dt cleanup ops parts = Ok (s', fo) ->
  forall o, In o (fo_clients fo) ->
    exists cl, In cl (sv_clients s) /\ sc_slot cl = co_slot o /\ sc_authorized cl = true.
Proof. exact server_frame_only_authorized. Qed.

Theorem C07_server_frame_unauthorized_silent : forall c s tick dt cleanup ops parts s' fo cl,
  NoDup (map sc_slot (sv_clients s)) -> In cl (sv_clients s) -> sc_authorized cl = false ->
  server_frame c s tick dt cleanup ops parts = Ok (s', fo) ->
  forall o, In o (fo_clients fo) -> co_slot o <> sc_slot cl.
Proof. exact server_frame_unauthorized_silent. Qed.

(* 2. the first send to a freshly authorized client (`ct_default`: no mutation ticks): the changes
      array is exactly the list of all replicated entities that are not hidden (w.r.t. the
      visibility after collect_despawns, `sfc_vis1`), each with ALL its components in `se_comps`
      order (entities without components with []); nothing is left for mutate messages: there is
      one empty-bodied mutate message iff `cfg_track c` *)
Theorem C07_first_send_complete : forall c s this_run cl p cl' out,
  ents_wf s -> sc_ticks cl = ct_default ->
  send_for_client c s this_run cl p = Ok (cl', out) ->
  let shown := filter (fun exm => negb (is_hidden (vis_state_of (sfc_vis1 s cl) (ent_id exm)))) (replicated_ents s) in
  (forall u, co_update out = Some u ->
     u_changes u = map (fun exm => (ent_id exm, all_comps (snd (fst exm)))) shown) /\
  (forall e x madd, In (e, x, madd) (replicated_ents s) -> vis_state_of (sfc_vis1 s cl) e <> VHidden ->
     exists u, co_update out = Some u /\ In (e, all_comps x) (u_changes u)) /\
  mutated_set s this_run cl = [] /\
  co_mutates out =
    if cfg_track c then [mkMut (match co_update out with Some _ => sv_tick s | None => 0 end) (sv_tick s) 1 0 []]
    else [].
Proof. exact first_send_complete. Qed.

(* `all_comps`, `replicated_ents` spelled out *)
Theorem C07_all_comps : forall x, all_comps x = map (fun kc => (fst kc, c_val (snd kc))) (se_comps x).
Proof. reflexivity. Qed.
Theorem C07_replicated_ents_In : forall s e x madd,
  In (e, x, madd) (replicated_ents s) <->
  In (e, x) (sv_ents s) /\ se_marker x = Some madd /\ se_alive x = true.
Proof. exact replicated_ents_In. Qed.

(* 3. with an authorization step a connecting client starts unauthorized; `authorize_client`
      replaces it by `authorized_client` (fresh `ct_default`, fresh visibility by policy) *)
Theorem C07_connect_unauthorized_under_custom : forall c s slot max,
  cfg_auth c <> AuthNone -> sv_running s = true -> find_client s slot = None ->
  let s1 := connect_client c s slot max in
  sv_clients s1 = sv_clients s ++ [mkSC slot false max ct_default None []] /\
  find_client s1 slot = Some (mkSC slot false max ct_default None []) /\
  sv_clients (authorize_client c s1 slot) =
    map (fun cl => if sc_slot cl =? slot then authorized_client c slot max else cl) (sv_clients s1) /\
  find_client (authorize_client c s1 slot) slot = Some (authorized_client c slot max).
Proof. exact connect_unauthorized_under_custom. Qed.

Theorem C07_authorized_client : forall c slot max,
  authorized_client c slot max = mkSC slot true max ct_default (new_vis c) [].
Proof. reflexivity. Qed.

(* the invariant used by C07_first_send_complete holds in every reachable state *)
Theorem C07_ents_wf_init : ents_wf server_init.
Proof. exact server_init_wf. Qed.
Theorem C07_ents_wf_op : forall s op, ents_wf s -> ents_wf (apply_sop s op).
Proof. exact apply_sop_wf. Qed.
Theorem C07_ents_wf_frame : forall c s tick dt cleanup ops parts s' fo,
  ents_wf s -> server_frame c s tick dt cleanup ops parts = Ok (s', fo) -> ents_wf s'.
Proof. exact server_frame_wf. Qed.

(* ---- non-vacuity: a blacklist server with an authorization step, two clients ---- *)
Definition ex07_cfg := mkCfg PBlack AuthCustom true 1000.
Definition ex07_s1 := connect_client ex07_cfg (connect_client ex07_cfg (set_running server_init true) 1 1200) 2 1200.
Definition ex07_ops := [SSpawn 10 true [(0, VNat 5); (1, VNat 7)]; SSpawn 11 true []; SSpawn 12 false [(0, VNat 1)]].
Definition ex07_after (r : res (server * frame_out)) : server :=
  match r with Ok (s, _) => s | _ => server_init end.
Definition ex07_outs (r : res (server * frame_out)) : option (list client_out) :=
  match r with Ok (_, fo) => Some (fo_clients fo) | _ => None end.
Definition ex07_s2 := ex07_after (server_frame ex07_cfg ex07_s1 true 16 false ex07_ops []).
Definition ex07_s3 := authorize_client ex07_cfg ex07_s2 1.

(* both clients connected but not authorized: the frame runs and sends nothing *)
Example C07_ex_unauthorized_get_nothing :
  map sc_authorized (sv_clients ex07_s1) = [false; false] /\
  ex07_outs (server_frame ex07_cfg ex07_s1 true 16 false ex07_ops []) = Some [].
Proof. split; vm_compute; reflexivity. Qed.

(* client 1 authorized: it gets every marked entity with all components (11 has none; 12 is not
   marked), client 2 still nothing and its record is unchanged *)
Example C07_ex_first_send :
  ex07_outs (server_frame ex07_cfg ex07_s3 true 16 false [] [(1, [[]])]) =
    Some [mkCO 1 (Some (mkUpd 2 [] [] [] [(10, [(0, VNat 5); (1, VNat 7)]); (11, [])]))
                 [mkMut 2 2 1 0 []] false] /\
  nth 1 (sv_clients (ex07_after (server_frame ex07_cfg ex07_s3 true 16 false [] [(1, [[]])]))) (mkSC 0 true 0 ct_default None [])
    = mkSC 2 false 1200 ct_default None [].
Proof. split; vm_compute; reflexivity. Qed.

(* the hypotheses of C07_first_send_complete are satisfiable on that state *)
Example C07_ex_first_send_hyps :
  ents_wf ex07_s3 /\
  exists cl, find_client ex07_s3 1 = Some cl /\ sc_authorized cl = true /\ sc_ticks cl = ct_default.
Proof.
  split.
  - unfold ents_wf. vm_compute. repeat (constructor; [cbn; intuition discriminate|]). constructor.
  - eexists. split; [vm_compute; reflexivity|]. split; reflexivity.
Qed.

Print Assumptions C07_send_for_client_total.
Print Assumptions C07_send_replication_only_authorized.
Print Assumptions C07_server_frame_only_authorized.
Print Assumptions C07_server_frame_unauthorized_silent.
Print Assumptions C07_first_send_complete.
Print Assumptions C07_replicated_ents_In.
Print Assumptions C07_connect_unauthorized_under_custom.
Print Assumptions C07_ents_wf_frame.
