(* C15 -- Entity wire encoding is lossless and decoding is total.
   This file only pins statements; proofs live in Wire/*_proofs.v. *)
From RV Require Import Lib.Res Wire.Varint Wire.EntityCodec Wire.EntityCodec_proofs.
Open Scope N_scope.

(* every valid identifier survives, the decoder consumes exactly the encoder's bytes
   even when they are embedded in a longer message *)
Theorem C15_roundtrip : forall e rest, valid_entity e ->
  deserialize_entity (serialize_entity e ++ rest) = Ok (e, rest).
Proof. exact deserialize_serialize. Qed.

(* decoding arbitrary bytes never panics *)
Theorem C15_total : forall bytes, deserialize_entity bytes <> Panic.
Proof. exact deserialize_entity_total. Qed.

(* ... and yields a valid identifier, consuming a non-empty prefix, or an error *)
Theorem C15_decoded_valid : forall bytes e rest, deserialize_entity bytes = Ok (e, rest) ->
  valid_entity e /\ exists used, bytes = used ++ rest /\ used <> [].
Proof. exact deserialize_entity_valid. Qed.

Theorem C15_encoding_wellformed : forall e, bytes_ok (serialize_entity e) /\ (length (serialize_entity e) <= 15)%nat.
Proof. intros e; split; [apply serialize_entity_bytes_ok|apply serialize_entity_length]. Qed.

(* non-vacuity: a valid entity at the upper boundary *)
Example C15_valid_boundary : valid_entity (mkEnt (2^32 - 1) (2^31 - 1)).
Proof. reflexivity. Qed.
Example C15_decode_concrete :
  deserialize_entity [1; 255; 255; 255; 255; 15] = Err /\
  deserialize_entity [5; 2; 9] = Ok (mkEnt 2 3, [9]).
Proof. split; reflexivity. Qed.

Check C15_roundtrip : forall e rest, valid_entity e -> deserialize_entity (serialize_entity e ++ rest) = Ok (e, rest).
Check C15_total : forall bytes, deserialize_entity bytes <> Panic.
Print Assumptions C15_roundtrip.
Print Assumptions C15_total.
Print Assumptions C15_decoded_valid.
Print Assumptions C15_encoding_wellformed.
