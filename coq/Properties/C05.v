(* C05 -- "Over reliable channels every event or trigger sent while a session is up is delivered exactly once
   to each intended recipient - all clients, all but one, one client, or the server together with the true
   sender identity - and to nobody else, and events of one type on an ordered channel arrive in sending
   order; over unreliable channels delivery is at most once.  A client never receives an event sent before
   it connected, nothing is sent again on later frames, and entity references are translated to the
   receiver's identifiers or the event is not sent."

   Model: Events/Remote.v (validated against the implementation).  This file only pins statements; proofs
   live in Events/Remote_proofs.v, vocabulary in Events/RemoteSpec.v.
   The property is pinned as its stages: who gets a message (recipients), what enters and leaves the buffer,
   what a channel delivery does to the stream of one type, what the receiving side does with its inbox.
   Two behaviours of the model do NOT fit the text; they are recorded as Examples at the end
   (C05_quick_reconnect_receives_old_event, C05_unauthorized_client_misses_dependent_event). *)
From Coq Require Import Permutation.
From RV Require Import Lib.Res Repl.ClientTicks Repl.World Repl.Server Repl.Client Repl.Sys Tick.RepliconTick
  Events.Remote Events.RemoteSpec Events.Remote_proofs.
Open Scope N_scope.

(* ---------- recipients ---------- *)

Theorem C05_recipients_exact : forall e mode excluded auth_only slot,
  In slot (recipients e mode excluded auth_only) <->
  exists uid cl, uid_of e slot = Some uid /\ find_client (y_server (e_sys e)) slot = Some cl /\
                 ~ In uid excluded /\ (auth_only = true -> sc_authorized cl = true) /\ mode_allows mode uid.
Proof. exact recipients_spec. Qed.

Theorem C05_recipients_nodup : forall e mode excluded auth_only,
  NoDup (map sc_slot (sv_clients (y_server (e_sys e)))) -> NoDup (recipients e mode excluded auth_only).
Proof. exact recipients_nodup. Qed.

(* dependent events: exactly the authorized, not excluded recipients of the mode *)
Theorem C05_send_buffered_recipients : forall e slot m,
  In (slot, m) (snd (send_buffered e)) <->
  exists set ev cl, In set (e_buffer e) /\ In ev (bs_events set) /\
    In slot (recipients e (sev_mode ev) (bs_excluded set) true) /\
    find_client (y_server (e_sys e)) slot = Some cl /\ m = stamped cl ev.
Proof. exact in_send_buffered. Qed.

(* independent events: at emission, every connection of the mode, authorized or not *)
Theorem C05_send_or_buffer_recipients : forall e slot m,
  In (slot, m) (snd (send_or_buffer e)) <->
  exists ev, In ev (e_emitted e) /\ independent (sev_ty ev) = true /\
             In slot (recipients e (sev_mode ev) [] false) /\ m = unstamped ev.
Proof. exact in_send_or_buffer. Qed.

(* the dependent emissions of a frame enter the buffer exactly once *)
Theorem C05_send_or_buffer_buffers_once : forall e,
  exists set, e_buffer (fst (send_or_buffer e)) = e_buffer e ++ [set] /\ bs_excluded set = [] /\
    Permutation (bs_events set) (filter (fun ev => negb (independent (sev_ty ev))) (e_emitted e)).
Proof. exact send_or_buffer_buffered_perm. Qed.

(* ---------- connecting ---------- *)

(* a connection that really is new gets a fresh id which is excluded from every buffered set, so the
   next flush sends it nothing of what is buffered *)
Theorem C05_no_event_from_before_connection : forall e slot max e' o,
  syse_step e (EBase (StConnect slot max)) = Ok (e', o) ->
  find_client (y_server (e_sys e)) slot = None ->
  find_client (y_server (e_sys e')) slot <> None ->
  uid_of e' slot = Some (e_next_uid e) /\
  (forall s, s <> slot -> uid_of e' s = uid_of e s) /\
  e_next_uid e' = e_next_uid e + 1 /\
  e_buffer e' = map (fun set => mkBSet (bs_events set) (bs_excluded set ++ [e_next_uid e])) (e_buffer e) /\
  (forall set, In set (e_buffer e') -> In (e_next_uid e) (bs_excluded set)) /\
  (forall m, ~ In (slot, m) (snd (send_buffered e'))) /\
  e_s2c e' = e_s2c e.
Proof. exact connect_excludes_from_buffered. Qed.

(* exclusions only grow until the set is flushed; sets created later start without exclusions *)
Theorem C05_exclusion_persists : forall e st e' o,
  syse_step e st = Ok (e', o) ->
  forall set', In set' (e_buffer e') ->
  (exists set, In set (e_buffer e) /\ bs_events set' = bs_events set /\ incl (bs_excluded set) (bs_excluded set')) \/
  (bs_excluded set' = [] /\ exists tick dt cleanup ops parts emit, st = ESFrame tick dt cleanup ops parts emit).
Proof. exact buffer_step_mono. Qed.

Theorem C05_excluded_connection_gets_nothing : forall e slot uid set m,
  uid_of e slot = Some uid -> In uid (bs_excluded set) -> ~ In (slot, m) (set_msgs e set).
Proof. exact excluded_not_sent. Qed.

(* ... and nobody else loses anything by an exclusion *)
Theorem C05_exclusion_hits_only_that_connection : forall e mode excl u a s,
  In s (recipients e mode (excl ++ [u]) a) <-> In s (recipients e mode excl a) /\ uid_of e s <> Some u.
Proof. exact recipients_exclude_one. Qed.

Theorem C05_independent_only_to_existing_connections : forall e slot m,
  In (slot, m) (snd (send_or_buffer e)) ->
  exists uid cl, uid_of e slot = Some uid /\ find_client (y_server (e_sys e)) slot = Some cl.
Proof. exact independent_sent_to_existing_connections. Qed.

(* ---------- nothing is sent twice ---------- *)

Theorem C05_buffer_flushed_once : forall e,
  e_buffer (fst (send_buffered e)) = [] /\
  e_emitted (fst (send_or_buffer e)) = [] /\
  snd (send_buffered e) = flat_map (fun set => flat_map (ev_msgs e set) (bs_events set)) (e_buffer e) /\
  (forall set ev, map fst (ev_msgs e set ev) = recipients e (sev_mode ev) (bs_excluded set) true) /\
  (NoDup (map sc_slot (sv_clients (y_server (e_sys e)))) -> forall set ev, NoDup (map fst (ev_msgs e set ev))) /\
  (forall slot, chan_s2c (fst (send_buffered e)) slot = chan_s2c e slot ++ msgs_for slot (snd (send_buffered e))).
Proof. exact buffer_flushed_once. Qed.

(* between steps no emission is pending anywhere, and connection ids are below the counter (never reused) *)
Theorem C05_nothing_resent : forall c n e,
  reachable c n e ->
  e_emitted e = [] /\ (forall slot ce, al_get slot (e_clients e) = Some ce -> ce_emitted ce = []) /\
  (forall slot uid, uid_of e slot = Some uid -> uid < e_next_uid e).
Proof. exact reachable_nothing_resent. Qed.

(* ---------- client -> server ---------- *)

Theorem C05_server_receive_exactly_once_with_sender : forall e,
  Permutation (snd (server_receive e)) (e_inbox e) /\
  e_inbox (fst (server_receive e)) = [] /\
  (forall t, filter (fun m => cety_eqb (cev_ty (snd m)) t) (snd (server_receive e))
             = filter (fun m => cety_eqb (cev_ty (snd m)) t) (e_inbox e)).
Proof. exact server_receive_conservation. Qed.

Theorem C05_server_frame_receives_once : forall e tick dt cleanup ops parts emit e' o,
  syse_step e (ESFrame tick dt cleanup ops parts emit) = Ok (e', o) ->
  (sv_running (y_server (e_sys e)) = true -> Permutation (eo_from o) (e_inbox e) /\ e_inbox e' = []) /\
  (sv_running (y_server (e_sys e)) = false -> eo_from o = []).
Proof. exact sframe_from. Qed.

(* the backend tags what it takes from slot's channel with that slot: the true sender *)
Theorem C05_deliver_c2s_tags_sender : forall e slot ty w e' o,
  syse_step e (EDeliverC2S slot ty w) = Ok (e', o) ->
  exists picked rest,
    take_typed (fun m => cety_eqb (cev_ty m) ty) w (chan_c2s e slot) = (picked, rest) /\
    chan_c2s e' slot = rest /\
    (forall s, s <> slot -> chan_c2s e' s = chan_c2s e s) /\
    e_inbox e' = (if sv_running (y_server (e_sys e)) &&
                     match find_client (y_server (e_sys e)) slot with Some _ => true | None => false end
                  then e_inbox e ++ map (fun m => (slot, m)) picked else e_inbox e).
Proof. exact deliver_c2s_tags_sender. Qed.

Theorem C05_client_send_maps_or_drops : forall c ce,
  Permutation (client_send c ce) (flat_map (send_one c) (ce_emitted ce)) /\
  (forall ev, (length (send_one c ev) <= 1)%nat) /\
  (forall ev, cev_ent ev = None -> send_one c ev = [ev]) /\
  (forall ev se, cev_ent ev = Some se ->
     (forall cid s, al_get se (cl_s2c c) = Some cid -> al_get cid (cl_c2s c) = Some s ->
                    send_one c ev = [mkCev (cev_ty ev) (cev_seq ev) (Some s)]) /\
     ((al_get se (cl_s2c c) = None \/ exists cid, al_get se (cl_s2c c) = Some cid /\ al_get cid (cl_c2s c) = None) ->
      send_one c ev = [])) /\
  (maps_consistent c -> forall ev se, cev_ent ev = Some se ->
     send_one c ev = match al_get se (cl_s2c c) with Some _ => [ev] | None => [] end).
Proof. exact client_send_maps_or_drops. Qed.

(* sending keeps the writing order within one event type (the types themselves go out type by type) *)
Theorem C05_client_send_type_order : forall c ce t,
  filter (fun x => cety_eqb (cev_ty x) t) (client_send c ce)
  = flat_map (send_one c) (filter (fun ev => cety_eqb (cev_ty ev) t) (ce_emitted ce)).
Proof. exact client_send_type_order. Qed.

Theorem C05_server_emission_type_order : forall e t,
  filter (fun ev => sety_eqb (sev_ty ev) t) (emitted_in_order e) = filter (fun ev => sety_eqb (sev_ty ev) t) (e_emitted e).
Proof. exact emitted_in_order_type. Qed.

(* ---------- channels ---------- *)

(* First / All: the picked elements are a prefix of the type's stream; every other stream is untouched *)
Theorem C05_ordered_channel_fifo : forall (A : Type) (is_ty : A -> bool) w q picked rest,
  w <> Last -> take_typed is_ty w q = (picked, rest) ->
  filter is_ty q = picked ++ filter is_ty rest /\
  (forall p : A -> bool, (forall x, is_ty x = true -> p x = false) -> filter p rest = filter p q).
Proof. exact @channel_fifo. Qed.

(* a legal delivery on an ordered channel leaves "inbox then channel" of every type unchanged *)
Theorem C05_deliver_s2c_fifo : forall e slot ty w drop e' o ce,
  syse_step e (EDeliverS2C slot ty w drop) = Ok (e', o) ->
  legal_estep (EDeliverS2C slot ty w drop) = true -> ty <> SEU ->
  al_get slot (e_clients e) = Some ce -> client_connected e slot = true ->
  exists ce', al_get slot (e_clients e') = Some ce' /\ ce_queue ce' = ce_queue ce /\ ce_emitted ce' = ce_emitted ce /\
    forall t, filter (fun m => sety_eqb (sm_ty m) t) (ce_inbox ce' ++ chan_s2c e' slot)
              = filter (fun m => sety_eqb (sm_ty m) t) (ce_inbox ce ++ chan_s2c e slot).
Proof. exact deliver_s2c_fifo. Qed.

(* any delivery (also Last / drop on the unreliable channel): what is picked leaves the channel *)
Theorem C05_deliver_s2c_at_most_once : forall e slot ty w drop e' o ce,
  syse_step e (EDeliverS2C slot ty w drop) = Ok (e', o) ->
  al_get slot (e_clients e) = Some ce ->
  exists ce' picked, al_get slot (e_clients e') = Some ce' /\ ce_queue ce' = ce_queue ce /\
    Permutation (chan_s2c e slot) (picked ++ chan_s2c e' slot) /\
    (ce_inbox ce' = ce_inbox ce ++ picked \/ ce_inbox ce' = ce_inbox ce).
Proof. exact deliver_s2c_at_most_once. Qed.

(* ---------- receiving ---------- *)

(* inbox + queue before = handed on (delivered or unresolvable) + still queued, as multisets *)
Theorem C05_client_receive_conservation : forall c ce ce' got,
  client_receive c ce = (ce', got) ->
  exists now, got = omap (deliverable c) now /\
    Permutation (map snd (ce_queue ce) ++ ce_inbox ce) (now ++ map snd (ce_queue ce')) /\
    ce_inbox ce' = [] /\ ce_emitted ce' = ce_emitted ce.
Proof. exact client_receive_conservation. Qed.

Theorem C05_client_receive_conservation_type : forall c ce t ce' got,
  client_receive_type c ce t = (ce', got) ->
  got = omap (deliverable c) (now_msgs c ce t) /\
  Permutation (map snd (ce_queue ce) ++ ce_inbox ce) (now_msgs c ce t ++ map snd (ce_queue ce') ++ ce_inbox ce') /\
  ce_emitted ce' = ce_emitted ce.
Proof. exact client_receive_type_conservation. Qed.

(* ---------- non-vacuity and the two deviations ---------- *)

Definition c05_cfg : cfg := mkCfg PAll AuthNone false 10000.
Definition c05_cfg_auth : cfg := mkCfg PAll AuthCustom false 10000.

Definition c05_view (r : res (syse * list eout)) :=
  match r with
  | Ok (e, os) => Some (map eo_sent os, map eo_got os, map eo_from os, map eo_csent os)
  | _ => None
  end.

(* client 0 connected; SE0 (dependent) and SEI (independent) broadcast in a frame without tick;
   client 1 connects; tick: SEI went to client 0 at once, SE0 goes to client 0 only *)
Definition c05_script_a : list estep :=
  [EBase StStart; ESFrame false 10 false [] [] []; EBase (StConnect 0 1200);
   ESFrame false 10 false [] [] [(SE0, (999, false, false), 7, None); (SEI, (999, false, false), 8, None)];
   EBase (StConnect 1 1200);
   ESFrame true 16 false [] [] []].
Example C05_late_client_excluded :
  c05_view (erun (syse_init c05_cfg 2) c05_script_a)
  = Some ([[]; []; []; [(0, mkSMsg SEI None 8 None)]; []; [(0, mkSMsg SE0 (Some 0) 7 None)]],
          [[]; []; []; []; []; []], [[]; []; []; []; []; []], [[]; []; []; []; []; []]).
Proof. vm_compute. reflexivity. Qed.

Example C05_connect_hypotheses_satisfiable : exists e os e' o,
  erun (syse_init c05_cfg 2) (firstn 4 c05_script_a) = Ok (e, os) /\ reachable c05_cfg 2 e /\
  syse_step e (EBase (StConnect 1 1200)) = Ok (e', o) /\
  find_client (y_server (e_sys e)) 1 = None /\ find_client (y_server (e_sys e')) 1 <> None /\
  e_buffer e' = [mkBSet [mkSev SE0 MBroadcast 7 None] [2]] /\ uid_of e' 1 = Some 2.
Proof.
  destruct (erun (syse_init c05_cfg 2) (firstn 4 c05_script_a)) as [[e os]| |] eqn:E; [|vm_compute in E; discriminate..].
  destruct (syse_step e (EBase (StConnect 1 1200))) as [[e' o]| |] eqn:E';
    [|vm_compute in E; injection E as <- _; vm_compute in E'; discriminate..].
  exists e, os, e', o. split; [reflexivity|]. split; [eapply erun_reachable; [apply reach_init|exact E]|].
  split; [exact E'|]. vm_compute in E. injection E as <- _. vm_compute in E'. injection E' as <- _.
  vm_compute. repeat split; discriminate.
Qed.

(* client events: CEM about the mapped entity 1 is sent, about the unmapped entity 2 is not; the server
   sees each once, tagged with slot 0 *)
Definition c05_script_b : list estep :=
  [EBase StStart; ESFrame false 10 false [] [] []; EBase (StConnect 0 1200);
   ESFrame true 16 false [SSpawn 1 true [(0, VNat 5)]] [] [];
   EBase (StDeliver 0 true 0 All);
   ECFrame 0 [] [mkCev CEM 3 (Some 1); mkCev CEM 4 (Some 2); mkCev CE0 5 None];
   EDeliverC2S 0 CEM First; EDeliverC2S 0 CE0 All;
   ESFrame true 16 false [] [] []; ESFrame true 16 false [] [] []].
Example C05_client_events :
  c05_view (erun (syse_init c05_cfg 1) c05_script_b)
  = Some ([[]; []; []; []; []; []; []; []; []; []], [[]; []; []; []; []; []; []; []; []; []],
          [[]; []; []; []; []; []; []; [];
           [(0, mkCev CE0 5 None); (0, mkCev CEM 3 (Some 1))]; []],
          [[]; []; []; []; []; [mkCev CE0 5 None; mkCev CEM 3 (Some 1)]; []; []; []; []]).
Proof. vm_compute. reflexivity. Qed.

Example C05_legal_examples :
  legal_estep (EDeliverS2C 0 SE0 First false) = true /\ legal_estep (EDeliverS2C 0 SE0 Last false) = false /\
  legal_estep (EDeliverS2C 0 SE0 All true) = false /\ legal_estep (EDeliverS2C 0 SEU Last true) = true /\
  legal_estep (EDeliverC2S 0 CE0 Last) = false.
Proof. repeat split. Qed.

(* DEVIATION 1.  The client app of slot 0 is disconnected and connected again between two of its frames.
   Its `client_just_connected` condition never fires, so the event queue of the first session survives:
   the event SE0/7, sent to connection 1 before connection 2 existed, is handed to the logic of
   connection 2 (last frame) - "a client never receives an event sent before it connected" fails. *)
Definition c05_script_reconnect : list estep :=
  [EBase StStart; ESFrame false 10 false [] [] []; EBase (StConnect 0 1200);
   ESFrame true 16 false [SSpawn 1 true [(0, VNat 5)]] [] [(SE0, (999, false, false), 7, None)];
   EDeliverS2C 0 SE0 All false;
   ECFrame 0 [] [];
   EBase (StDisconnect 0); EBase (StConnect 0 1200);
   ESFrame true 16 false [] [] [];
   EBase (StDeliver 0 true 0 All);
   ECFrame 0 [] []].
Example C05_quick_reconnect_receives_old_event :
  match erun (syse_init c05_cfg 1) c05_script_reconnect with
  | Ok (e, os) => Some (map eo_sent os, map eo_got os, e_uids e)
  | _ => None
  end
  = Some ([[]; []; []; [(0, mkSMsg SE0 (Some 1) 7 None)]; []; []; []; []; []; []; []],
          [[]; []; []; []; []; []; []; []; []; []; [(SE0, 7, None)]], [(0, 2)]).
Proof. vm_compute. reflexivity. Qed.

(* DEVIATION 2.  With an authorization step, a connected but not yet authorized client gets the
   independent broadcast SEI but never the dependent broadcast SE0 of the same frame: the buffer is
   flushed to authorized clients only and then emptied. *)
Definition c05_script_unauth : list estep :=
  [EBase StStart; ESFrame false 10 false [] [] []; EBase (StConnect 0 1200);
   ESFrame true 16 false [] [] [(SE0, (999, false, false), 7, None); (SEI, (999, false, false), 8, None)];
   EBase (StAuthorize 0);
   ESFrame true 16 false [] [] []].
Example C05_unauthorized_client_misses_dependent_event :
  match erun (syse_init c05_cfg_auth 1) c05_script_unauth with
  | Ok (e, os) => Some (map eo_sent os, e_buffer e)
  | _ => None
  end
  = Some ([[]; []; []; [(0, mkSMsg SEI None 8 None)]; []; []], []).
Proof. vm_compute. reflexivity. Qed.

Print Assumptions C05_recipients_exact.
Print Assumptions C05_recipients_nodup.
Print Assumptions C05_send_buffered_recipients.
Print Assumptions C05_send_or_buffer_recipients.
Print Assumptions C05_send_or_buffer_buffers_once.
Print Assumptions C05_no_event_from_before_connection.
Print Assumptions C05_exclusion_persists.
Print Assumptions C05_excluded_connection_gets_nothing.
Print Assumptions C05_exclusion_hits_only_that_connection.
Print Assumptions C05_independent_only_to_existing_connections.
Print Assumptions C05_buffer_flushed_once.
Print Assumptions C05_nothing_resent.
Print Assumptions C05_server_receive_exactly_once_with_sender.
Print Assumptions C05_server_frame_receives_once.
Print Assumptions C05_deliver_c2s_tags_sender.
Print Assumptions C05_client_send_maps_or_drops.
Print Assumptions C05_client_send_type_order.
Print Assumptions C05_server_emission_type_order.
Print Assumptions C05_ordered_channel_fifo.
Print Assumptions C05_deliver_s2c_fifo.
Print Assumptions C05_deliver_s2c_at_most_once.
Print Assumptions C05_client_receive_conservation.
Print Assumptions C05_client_receive_conservation_type.
