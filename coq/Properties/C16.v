(* C16 -- a server entity registered as the counterpart of an entity the client spawned in advance
   lands on that entity; a dead pre-spawned entity is replaced by a fresh one; other clients are
   not concerned.  This file only pins statements; proofs live in Repl/ClientEnt_proofs.v and
   Repl/ClientSys_proofs.v. *)
From RV Require Import Lib.Res Repl.ClientTicks Repl.World Repl.Server Repl.Client Repl.Sys
  Repl.Client_proofs Repl.ClientEnt_proofs Repl.ClientMut_proofs Repl.ClientSys_proofs
  Tick.RepliconTick Tick.ConfirmHistory Tick.MutateTicks.
Open Scope N_scope.

(* The client holds an alive pre-spawned entity [cid] (script id [pc], unique), nothing is mapped to
   it yet; the message carries the mapping (e, pc) (the only one for e and for pc).  (Until defect D30 was
   repaired the statement needed the hypothesis "the message does not despawn e": the mappings were applied
   BEFORE the despawn records of the same message, so a despawn record for e - e.g. from `SUnmark` +
   `SMark` in one tick - despawned the pre-spawned entity just mapped and a second entity was created.  Now
   the despawn records are applied first; C16_D30_regression below.)
   Whatever else the message contains, and whether or not it is aborted half way:
   e is mapped to cid both ways, cid is an entity that existed before (so nothing was spawned for
   e), it is alive and carries the marker.  If the message runs to its end and has a record for e,
   that record is confirmed on cid at the message tick. *)
Theorem C16_mapping_adopts_prespawned : forall c u c' cid pc e x,
  ents_fresh c -> NoDup (al_keys (cl_ents c)) ->
  get_cent c cid = Some x -> ce_alive x = true -> ce_pre x = Some pc ->
  (forall cid' x', In (cid', x') (cl_ents c) -> ce_pre x' = Some pc -> cid' = cid) ->
  (forall s, al_get s (cl_s2c c) <> Some cid) -> al_get cid (cl_c2s c) = None ->
  In (e, pc) (u_maps u) ->
  (forall e' pc', In (e', pc') (u_maps u) -> (pc' = pc <-> e' = e)) ->
  (apply_update_message c u = Ok c' ->
     cid < cl_next c /\ al_get e (cl_s2c c') = Some cid /\ al_get cid (cl_c2s c') = Some e /\
     exists x', get_cent c' cid = Some x' /\ ce_alive x' = true /\ ce_marker x' = true /\ ce_pre x' = Some pc) /\
  (forall comps, update_completes c u c' -> In (e, comps) (u_changes u) ->
     al_get e (cl_s2c c') = Some cid /\
     exists x', get_cent c' cid = Some x' /\ ce_pre x' = Some pc /\ confirmed_ent (u_tick u) x').
Proof.
  intros c u c' cid pc e x Hf Hnd Hx Ha Hp Huniq Hunm Hc2s Hin Hside. split.
  - exact (mapping_adopts_prespawned c u c' cid pc e x Hf Hnd Hx Ha Hp Huniq Hunm Hc2s Hin Hside).
  - intros comps. exact (mapping_adopts_prespawned_confirmed c u c' cid pc e x comps Hf Hnd Hx Ha Hp Huniq Hunm Hc2s Hin Hside).
Qed.

(* the record's components are all written to the entity the record lands on *)
Theorem C16_record_components_written : forall comps c cid x, get_cent c cid = Some x -> NoDup (map fst comps) ->
  exists x', get_cent (write_comps c cid comps) cid = Some x' /\ same_but_comps x x' /\
    (forall k v, In (k, v) comps -> exists cv, al_get k (ce_comps x') = Some cv /\ val_matches (write_comps c cid comps) v cv) /\
    (forall k, ~ In k (map fst comps) -> al_get k (ce_comps x') = al_get k (ce_comps x)).
Proof. exact write_comps_all. Qed.

Theorem C16_dead_prespawn_spawns_fresh :
  (forall c s pc, (forall cid x, In (cid, x) (cl_ents c) -> ce_pre x = Some pc -> ce_alive x = false) ->
     apply_entity_mapping c s pc = c) /\
  (forall c u c' pc e comps, ents_fresh c ->
     (forall cid x, In (cid, x) (cl_ents c) -> ce_pre x = Some pc -> ce_alive x = false) ->
     al_get e (cl_s2c c) = None ->
     (forall pc', In (e, pc') (u_maps u) -> pc' = pc) ->
     update_completes c u c' -> In (e, comps) (u_changes u) ->
     exists cid' x', al_get e (cl_s2c c') = Some cid' /\ cl_next c <= cid' /\
                     get_cent c' cid' = Some x' /\ confirmed_ent (u_tick u) x').
Proof. split; [exact mapping_dead_ignored|exact mapping_dead_prespawn_spawns_fresh]. Qed.

Theorem C16_other_clients_unaffected : forall s slot e pc,
  let s' := apply_sop s (SMap slot e pc) in
  (forall slot', slot' <> slot -> find_client s' slot' = find_client s slot') /\
  (forall cl, In cl (sv_clients s) -> sc_slot cl <> slot -> In cl (sv_clients s')) /\
  map sc_slot (sv_clients s') = map sc_slot (sv_clients s) /\
  (forall cfg this_run cl p, send_for_client cfg s' this_run cl p = send_for_client cfg s this_run cl p) /\
  sv_ents s' = sv_ents s /\ sv_despawn_buf s' = sv_despawn_buf s /\ sv_removal_buf s' = sv_removal_buf s.
Proof. exact mapping_other_clients_unaffected. Qed.

(* ---- non-vacuity ---- *)
Definition ex_c0 : client := set_status (client_init false) Connected.
Definition ex_pre : client := apply_cop ex_c0 (CPrespawn 9).
Definition ex_u : update_msg := mkUpd 1 [(5, 9)] [] [] [(7, [(3, VRef 5)]); (5, [(0, VNat 3)])].

(* the hypotheses of C16_mapping_adopts_prespawned hold for (ex_pre, ex_u) *)
Example C16_hyps_satisfiable :
  ents_fresh ex_pre /\ NoDup (al_keys (cl_ents ex_pre)) /\
  get_cent ex_pre 0 = Some (mkCEnt true (Some 9) false None []) /\
  (forall cid' x', In (cid', x') (cl_ents ex_pre) -> ce_pre x' = Some 9 -> cid' = 0) /\
  (forall s, al_get s (cl_s2c ex_pre) <> Some 0) /\ al_get 0 (cl_c2s ex_pre) = None /\
  In (5, 9) (u_maps ex_u) /\ (forall e' pc', In (e', pc') (u_maps ex_u) -> (pc' = 9 <-> e' = 5)).
Proof.
  split; [intros cid Hle; vm_compute in Hle |- *; destruct cid as [|p]; [exfalso; apply Hle; reflexivity|];
          destruct p; reflexivity|].
  split; [vm_compute; constructor; [intros []|constructor]|]. split; [reflexivity|].
  split; [intros cid' x' [H|[]] _; inversion H; reflexivity|].
  split; [intros s; vm_compute; discriminate|]. split; [reflexivity|]. split; [left; reflexivity|].
  intros e' pc' [H|[]]; inversion H; subst; split; reflexivity.
Qed.

(* the mapped entity 5 lands on the pre-spawned client entity 0, although entity 7 (earlier in the
   same message) refers to it; the only new client entity is the one for server entity 7 *)
Example C16_adoption_concrete :
  match apply_update_message ex_pre ex_u with
  | Ok c => (cl_s2c c, cl_c2s c, cl_next c,
             map (fun kv => (fst kv, ce_pre (snd kv), ce_marker (snd kv),
                             match ce_hist (snd kv) with Some h => h_last h | None => 99 end, ce_comps (snd kv))) (cl_ents c))
  | _ => ([], [], 0, [])
  end = ([(5, 0); (7, 1)], [(0, 5); (1, 7)], 2,
         [(0, Some 9, true, 1, [(0, CNat 3)]); (1, None, true, 1, [(3, CRef 0)])]).
Proof. vm_compute. reflexivity. Qed.

(* D30 regression: the message also carries a despawn record for the mapped entity 5 (what `SUnmark 5; SMark 5` in the
   tick of the mapping produces).  The despawn record is applied first (entity 5 is unknown: no effect), then the
   mapping: entity 5 lands on the pre-spawned client entity 0 and no second entity is created.  (Before the repair:
   client entity 0 despawned, a fresh client entity 1 for server entity 5.) *)
Example C16_D30_regression :
  match apply_update_message ex_pre (mkUpd 1 [(5, 9)] [5] [] [(5, [(0, VNat 3)])]) with
  | Ok c => (cl_s2c c, cl_c2s c, cl_next c,
             map (fun kv => (fst kv, ce_alive (snd kv), ce_pre (snd kv), ce_marker (snd kv), ce_comps (snd kv))) (cl_ents c))
  | _ => ([], [], 0, [])
  end = ([(5, 0)], [(0, 5)], 1, [(0, true, Some 9, true, [(0, CNat 3)])]).
Proof. vm_compute. reflexivity. Qed.

(* the pre-spawned entity was despawned by the client before the mapping arrived: a fresh entity *)
Example C16_dead_concrete :
  match apply_update_message (apply_cop ex_pre (CDespawn 9)) (mkUpd 1 [(5, 9)] [] [] [(5, [(0, VNat 3)])]) with
  | Ok c => (cl_s2c c, cl_next c, map (fun kv => (fst kv, ce_alive (snd kv), ce_pre (snd kv), ce_marker (snd kv))) (cl_ents c))
  | _ => ([], 0, [])
  end = ([(5, 1)], 2, [(0, false, Some 9, false); (1, true, None, true)]).
Proof. vm_compute. reflexivity. Qed.

Check C16_mapping_adopts_prespawned.
Check C16_dead_prespawn_spawns_fresh.
Check C16_other_clients_unaffected.
Print Assumptions C16_mapping_adopts_prespawned.
Print Assumptions C16_record_components_written.
Print Assumptions C16_dead_prespawn_spawns_fresh.
Print Assumptions C16_other_clients_unaffected.
