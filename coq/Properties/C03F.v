(* C03 end to end, for EVERY visibility policy and SEVERAL sessions -- "at the end of every client frame (in fact
   at every moment) the client's replicated structure (which server entities it holds, which component kinds
   each has) equals the structure the server had replicated to that client at the tick the client reports as its
   last update tick, restricted to what was visible to that client; that tick never decreases".

   Generalises Properties/C03E.v B4-B6 (C03E_fifo_mut / C03E_in_flight_mut / C03E_every_moment_mut):
     G1  no hypothesis on `cfg_policy`: PAll / PBlack / PWhite, `SVis` operations anywhere in the script.  The server
         structure is `struct_vis s1 cl1` (Repl/StructVisSpec.v, Properties/C03V.v): `struct_of s1` filtered by the
         visibility of [cl1], the server-side record of the slot in the state [s1] (after that frame's `send_for_client`).
     G2  several sessions: `StDisconnect` and `StStop` anywhere, under the decidable premise [sessions_ok] on the script.
     G3  (part 6) pre-spawn mappings: `SMap` operations allowed, under the premise [run_maps_ok] on the run (what C16
         promises about a mapping; decidable: [run_maps_okb] computes it along the run).
   Server half: Properties/C03V.v (ghost `g_sent`, invariant `ginv_v`); client half: Properties/C03E.v part A
   (policy independent).  Proofs: Repl/StructE2EVis_proofs.v (what a server frame does, with `ginv_v`),
   Repl/StructE2ESess_proofs.v (the invariant of a whole-system run).

   Vocabulary (Repl/StructE2ESess_proofs.v):
     mode_of script slot   MClean  never connected, or disconnected and reset since
                           MLive   `StConnect slot` seen since the slot was last clean (if it did not take effect the
                                   client is still clean)
                           MLeft   session ended by `StDisconnect slot`, the client has not run a frame since
                           MStale  `StStop` while the slot was live, no `StDisconnect slot` yet (the model's `StStop`
                                   does NOT change the status of the clients: the script disconnects them)
     sessions_ok script    every `StConnect slot` finds the slot MClean or MLive: after a session end there is a
                           `StDisconnect slot` and then a `StCFrame slot _` before the next `StConnect slot`
     script_okf script     = legal script && no_smap script && sessions_ok script
     ends_session slot st  st is `StStop` or `StDisconnect slot`
     erun_s / ghost_step_s the run with the ghost of C03V (per authorized slot the structure obtained by applying every
                           update message sent so far); `StDisconnect` and the reset of a stopped server drop the slot,
                           so the ghost of a slot restarts from [] at every connect
   The C03 statement is proved for MClean / MLive slots.  For MLeft / MStale slots the client may still hold the
   structure of the session that ended while the server has forgotten it (C03F_ex_run shows such a moment), or, for a
   MStale slot of a server that is started again without having run a frame while stopped, the server still sends to
   a client that missed messages (C03F_ex_stale_slot, C09_witness_restart_between_frames): proved are the client-local
   invariants (C03F_left, C03F_stale); the next `StCFrame` after the `StDisconnect` makes the slot MClean
   (C03F_left_then_frame, C03F_clean: the structure is empty again).  Nothing is assumed about MStale slots: the other
   slots keep their guarantees whatever happens to them. *)
From RV Require Import Lib.Res Repl.ClientTicks Repl.World Vis.Visibility Repl.Server Repl.ServerSpec
  Repl.StructSpec Repl.StructVisSpec Repl.StructVisRun_proofs Repl.Client Repl.Sys Repl.Client_proofs Repl.ClientStructSpec Repl.ClientStruct_proofs
  Repl.ClientSys_proofs Repl.StructE2E_proofs Repl.StructE2EMut_proofs Repl.StructE2EVis_proofs Repl.StructE2ESess_proofs
  Repl.ClientHistMaps_proofs Repl.StructE2EMaps_proofs.
From RV Require Import Properties.C09.
Open Scope N_scope.

(* ---- 0. scripts ---- *)
Theorem C03F_mode_step : forall script st slot, mode_of (script ++ [st]) slot = mode_step slot (mode_of script slot) st.
Proof. exact mode_of_snoc. Qed.

Theorem C03F_sessions_ok_step : forall script st, sessions_ok (script ++ [st]) = sessions_ok script && sess_step_ok script st.
Proof. exact sessions_ok_snoc. Qed.

(* single-session scripts (the scope of C03E) satisfy the premise, and every slot is clean or live *)
Theorem C03F_single_session : forall script, single_session script = true ->
  sessions_ok script = true /\ forall slot, mode_of script slot = MClean \/ mode_of script slot = MLive.
Proof. exact single_session_modes. Qed.

Theorem C03F_left_then_frame : forall script slot ops,
  mode_of script slot = MLeft -> mode_of (script ++ [StCFrame slot ops]) slot = MClean.
Proof. intros script slot ops H. rewrite mode_of_snoc, H. cbn. rewrite N.eqb_refl. reflexivity. Qed.

(* the run with its ghost is the run; without session steps the ghost is the one of C03E *)
Theorem C03F_erun_is_run :
  (forall script y gs y' gs', erun_s y gs script = Ok (y', gs') -> run y script = Ok y') /\
  (forall script y gs y', run y script = Ok y' -> exists gs', erun_s y gs script = Ok (y', gs')) /\
  (forall script y gs, single_session script = true -> erun_s y gs script = erun y gs script).
Proof. split; [exact erun_s_run|]. split; [exact run_erun_s|exact erun_s_erun]. Qed.

(* the ghost is the `g_sent` of the server-only run (`grun`, Properties/C03V.v) of the projected script, so
   C03V_run_invariant / C03V_run_sends_diffs / C03V_run_independent apply to it *)
Theorem C03F_ghost_is_grun : forall cfg0 nclients script y gs,
  erun_s (sys_init cfg0 nclients) [] script = Ok (y, gs) ->
  grun cfg0 ginit (proj_script_s (sys_init cfg0 nclients) script) = Ok (mkG (y_server y) gs).
Proof. exact erun_s_grun_init. Qed.

Theorem C03F_ghost_invariant : forall cfg0 nclients script y gs,
  script_okf script = true -> tick_frames script < 2 ^ 31 ->
  erun_s (sys_init cfg0 nclients) [] script = Ok (y, gs) -> ginv_v (mkG (y_server y) gs).
Proof. exact f_ghost_invariant. Qed.

(* ---- 1. the client frame of a client that is not connected: `reset` runs when the previous frame saw the
        client connected; `cs_inv` survives, the structure is empty afterwards (old entities stay in the client
        world unmapped) ---- *)
Theorem C03F_client_frame_disconnected : forall c ops c' out,
  cs_inv c -> pu c -> (cl_last_not_disconnected c = false -> srel c [] /\ cl_buffered c = []) ->
  cl_status c = Disconnected -> client_frame c ops = Ok (c', out) ->
  cs_inv c' /\ pu c' /\ srel c' [] /\ cl_status c' = Disconnected /\ cl_inbox_upd c' = cl_inbox_upd c /\
  cl_inbox_mut c' = cl_inbox_mut c /\ cl_buffered c' = [] /\ cl_last_not_disconnected c' = false /\
  out = mkCFO [] [].
Proof. exact frame_disconnected_gen. Qed.

(* ---- 2. G1 + G2: all policies, several sessions ---- *)

(* first in, first out, atomically, PER SESSION: the update messages sent to a connected client since its current
   connect are [applied] followed by its inbox and its queue; its structure is the fold of [applied]; the whole list
   folds to the ghost of the slot; ticks strictly increase; every non-empty prefix is the structure visible to the
   slot's record at a moment of the CURRENT session (no session end of the slot after that moment), at the tick of the
   prefix's last message *)
Theorem C03F_fifo : forall cfg0 nclients script y gs slot c,
  script_okf script = true -> tick_frames script < 2 ^ 31 ->
  erun_s (sys_init cfg0 nclients) [] script = Ok (y, gs) ->
  al_get slot (y_clients y) = Some c -> mode_of script slot = MLive -> cl_status c = Connected ->
  ginv_v (mkG (y_server y) gs) /\
  exists applied,
    struct_equiv (client_struct c) (fold_left abs_apply applied []) /\
    fold_left abs_apply (applied ++ cl_inbox_upd c ++ l_upd (get_link y slot)) [] = sent_of slot gs /\
    (applied <> [] -> cl_upd_tick c = u_tick (last applied dflt_upd)) /\
    ticks_incr (applied ++ cl_inbox_upd c ++ l_upd (get_link y slot)) /\
    (forall p q, applied ++ cl_inbox_upd c ++ l_upd (get_link y slot) = p ++ q -> p <> [] ->
       exists pre post y1 cl1, script = pre ++ post /\ run (sys_init cfg0 nclients) pre = Ok y1 /\
         forallb (fun st => negb (ends_session slot st)) post = true /\
         find_client (y_server y1) slot = Some cl1 /\ sc_authorized cl1 = true /\
         struct_equiv (fold_left abs_apply p []) (struct_vis (y_server y1) cl1) /\
         u_tick (last p dflt_upd) = sv_tick (y_server y1)).
Proof. exact f_fifo. Qed.

Theorem C03F_in_flight : forall cfg0 nclients script y gs slot c,
  script_okf script = true -> tick_frames script < 2 ^ 31 ->
  erun_s (sys_init cfg0 nclients) [] script = Ok (y, gs) ->
  al_get slot (y_clients y) = Some c -> mode_of script slot = MLive -> cl_status c = Connected ->
  struct_equiv (fold_left abs_apply (cl_inbox_upd c ++ l_upd (get_link y slot)) (client_struct c)) (sent_of slot gs).
Proof. exact f_in_flight. Qed.

Theorem C03F_synced : forall cfg0 nclients script y gs slot c,
  script_okf script = true -> tick_frames script < 2 ^ 31 ->
  erun_s (sys_init cfg0 nclients) [] script = Ok (y, gs) ->
  al_get slot (y_clients y) = Some c -> mode_of script slot = MLive -> cl_status c = Connected ->
  cl_inbox_upd c = [] -> l_upd (get_link y slot) = [] ->
  struct_equiv (client_struct c) (sent_of slot gs).
Proof. exact f_synced. Qed.

(* C03 itself, without any ghost: at every moment, for a slot that is clean or live, the client's structure is empty
   or the structure visible to the slot's server-side record at an earlier moment of its current session, whose tick
   is the client's update tick *)
Theorem C03F_every_moment : forall cfg0 nclients script y slot c,
  script_okf script = true -> tick_frames script < 2 ^ 31 ->
  run (sys_init cfg0 nclients) script = Ok y -> al_get slot (y_clients y) = Some c ->
  mode_of script slot = MClean \/ mode_of script slot = MLive ->
  struct_equiv (client_struct c) [] \/
  exists pre post y1 cl1, script = pre ++ post /\ run (sys_init cfg0 nclients) pre = Ok y1 /\
    forallb (fun st => negb (ends_session slot st)) post = true /\
    find_client (y_server y1) slot = Some cl1 /\ sc_authorized cl1 = true /\
    struct_equiv (client_struct c) (struct_vis (y_server y1) cl1) /\ cl_upd_tick c = sv_tick (y_server y1).
Proof. exact f_every_moment. Qed.

(* "that tick never decreases": every update message still in flight has a tick above the client's update tick (once
   the client holds anything), and a client frame never moves the update tick backwards *)
Theorem C03F_ticks_increase : forall cfg0 nclients script y gs slot c,
  script_okf script = true -> tick_frames script < 2 ^ 31 ->
  erun_s (sys_init cfg0 nclients) [] script = Ok (y, gs) ->
  al_get slot (y_clients y) = Some c -> mode_of script slot = MLive -> cl_status c = Connected ->
  forall u, In u (cl_inbox_upd c ++ l_upd (get_link y slot)) -> struct_equiv (client_struct c) [] \/ cl_upd_tick c < u_tick u.
Proof. exact f_ticks_increase. Qed.

Theorem C03F_tick_monotone : forall cfg0 nclients script y gs slot c ops y' o c',
  script_okf script = true -> tick_frames script < 2 ^ 31 ->
  erun_s (sys_init cfg0 nclients) [] script = Ok (y, gs) ->
  al_get slot (y_clients y) = Some c -> mode_of script slot = MLive -> cl_status c = Connected ->
  sys_step y (StCFrame slot ops) = Ok (y', o) -> al_get slot (y_clients y') = Some c' ->
  struct_equiv (client_struct c) [] \/ cl_upd_tick c <= cl_upd_tick c'.
Proof. exact f_tick_monotone. Qed.

(* the slots that are not live *)
Theorem C03F_clean : forall cfg0 nclients script y slot c,
  script_okf script = true -> tick_frames script < 2 ^ 31 ->
  run (sys_init cfg0 nclients) script = Ok y -> al_get slot (y_clients y) = Some c ->
  mode_of script slot = MClean ->
  cl_status c = Disconnected /\ struct_equiv (client_struct c) [] /\ cl_buffered c = [] /\
  cl_inbox_upd c = [] /\ cl_inbox_mut c = [] /\ find_client (y_server y) slot = None /\
  l_upd (get_link y slot) = [] /\ l_mut (get_link y slot) = [].
Proof. exact f_clean. Qed.

Theorem C03F_left : forall cfg0 nclients script y slot c,
  script_okf script = true -> tick_frames script < 2 ^ 31 ->
  run (sys_init cfg0 nclients) script = Ok y -> al_get slot (y_clients y) = Some c ->
  mode_of script slot = MLeft ->
  cl_status c = Disconnected /\ cs_inv c /\ cl_inbox_upd c = [] /\ cl_inbox_mut c = [] /\
  find_client (y_server y) slot = None /\ l_upd (get_link y slot) = [] /\ l_mut (get_link y slot) = [].
Proof. exact f_left. Qed.

Theorem C03F_stale : forall cfg0 nclients script y slot c,
  script_okf script = true -> tick_frames script < 2 ^ 31 ->
  run (sys_init cfg0 nclients) script = Ok y -> al_get slot (y_clients y) = Some c ->
  mode_of script slot = MStale ->
  cs_inv c /\ (cl_status c = Disconnected -> struct_equiv (client_struct c) [] /\ find_client (y_server y) slot = None).
Proof. exact f_stale. Qed.

(* ---- 3. G1 in the vocabulary of C03E: single-session scripts (`script_okm`), the ghost `erun` of C03E, every policy ---- *)
Theorem C03F_fifo_all_policies : forall cfg0 nclients script y gs slot c,
  script_okm script = true -> tick_frames script < 2 ^ 31 ->
  erun (sys_init cfg0 nclients) [] script = Ok (y, gs) ->
  al_get slot (y_clients y) = Some c -> cl_status c = Connected ->
  ginv_v (mkG (y_server y) gs) /\
  exists applied,
    struct_equiv (client_struct c) (fold_left abs_apply applied []) /\
    fold_left abs_apply (applied ++ cl_inbox_upd c ++ l_upd (get_link y slot)) [] = sent_of slot gs /\
    (applied <> [] -> cl_upd_tick c = u_tick (last applied dflt_upd)) /\
    ticks_incr (applied ++ cl_inbox_upd c ++ l_upd (get_link y slot)) /\
    (forall p q, applied ++ cl_inbox_upd c ++ l_upd (get_link y slot) = p ++ q -> p <> [] ->
       exists pre post y1 cl1, script = pre ++ post /\ run (sys_init cfg0 nclients) pre = Ok y1 /\
         find_client (y_server y1) slot = Some cl1 /\ sc_authorized cl1 = true /\
         struct_equiv (fold_left abs_apply p []) (struct_vis (y_server y1) cl1) /\
         u_tick (last p dflt_upd) = sv_tick (y_server y1)).
Proof. exact v_fifo. Qed.

Theorem C03F_in_flight_all_policies : forall cfg0 nclients script y gs slot c,
  script_okm script = true -> tick_frames script < 2 ^ 31 ->
  erun (sys_init cfg0 nclients) [] script = Ok (y, gs) ->
  al_get slot (y_clients y) = Some c -> cl_status c = Connected ->
  struct_equiv (fold_left abs_apply (cl_inbox_upd c ++ l_upd (get_link y slot)) (client_struct c)) (sent_of slot gs).
Proof. exact v_in_flight. Qed.

Theorem C03F_every_moment_all_policies : forall cfg0 nclients script y slot c,
  script_okm script = true -> tick_frames script < 2 ^ 31 ->
  run (sys_init cfg0 nclients) script = Ok y -> al_get slot (y_clients y) = Some c ->
  struct_equiv (client_struct c) [] \/
  exists pre post y1 cl1, script = pre ++ post /\ run (sys_init cfg0 nclients) pre = Ok y1 /\
    find_client (y_server y1) slot = Some cl1 /\ sc_authorized cl1 = true /\
    struct_equiv (client_struct c) (struct_vis (y_server y1) cl1) /\ cl_upd_tick c = sv_tick (y_server y1).
Proof. exact v_every_moment. Qed.

(* the records the statements speak about carry the ClientVisibility of the configured policy (none / blacklist /
   whitelist); for PAll the statement is C03E_every_moment_mut *)
Theorem C03F_record_kind : forall cfg0 nclients pre y1 slot cl1,
  run (sys_init cfg0 nclients) pre = Ok y1 -> find_client (y_server y1) slot = Some cl1 -> sc_authorized cl1 = true ->
  vis_kind (cfg_policy cfg0) (sc_vis cl1).
Proof. exact reached_kind. Qed.

Theorem C03F_every_moment_pall : forall cfg0 nclients script y slot c,
  cfg_policy cfg0 = PAll ->
  script_okm script = true -> tick_frames script < 2 ^ 31 ->
  run (sys_init cfg0 nclients) script = Ok y -> al_get slot (y_clients y) = Some c ->
  struct_equiv (client_struct c) [] \/
  exists pre post y1, script = pre ++ post /\ run (sys_init cfg0 nclients) pre = Ok y1 /\
    struct_equiv (client_struct c) (struct_of (y_server y1)) /\ cl_upd_tick c = sv_tick (y_server y1).
Proof. exact v_every_moment_pall. Qed.

Print Assumptions C03F_mode_step.
Print Assumptions C03F_sessions_ok_step.
Print Assumptions C03F_single_session.
Print Assumptions C03F_left_then_frame.
Print Assumptions C03F_erun_is_run.
Print Assumptions C03F_ghost_is_grun.
Print Assumptions C03F_ghost_invariant.
Print Assumptions C03F_client_frame_disconnected.
Print Assumptions C03F_fifo.
Print Assumptions C03F_in_flight.
Print Assumptions C03F_synced.
Print Assumptions C03F_every_moment.
Print Assumptions C03F_ticks_increase.
Print Assumptions C03F_tick_monotone.
Print Assumptions C03F_clean.
Print Assumptions C03F_left.
Print Assumptions C03F_stale.
Print Assumptions C03F_fifo_all_policies.
Print Assumptions C03F_in_flight_all_policies.
Print Assumptions C03F_every_moment_all_policies.
Print Assumptions C03F_record_kind.
Print Assumptions C03F_every_moment_pall.

(* ---- 4. the statements are not vacuous ---- *)

Definition fx_bl : cfg := mkCfg PBlack AuthNone false 1000.
Definition fx_wl : cfg := mkCfg PWhite AuthNone false 1000.
Definition fx_all : cfg := mkCfg PAll AuthNone false 1000.
Definition fsfr (tick : bool) (ops : list sop) : step := StSFrame tick 10 false ops [].

(* per client: slot, mode, status, update tick, structure, inbox length, update queue length, mutate queue length;
   per server record: slot, the structure visible to it now; server tick *)
Definition fx_view (script : list step) (r : res sys) :=
  match r with
  | Ok y => Some (map (fun sc => (fst sc, mode_of script (fst sc), cl_status (snd sc), cl_upd_tick (snd sc), client_struct (snd sc),
                                  length (cl_inbox_upd (snd sc)), length (l_upd (get_link y (fst sc))), length (l_mut (get_link y (fst sc)))))
                      (y_clients y),
                  map (fun cl => (sc_slot cl, struct_vis (y_server y) cl)) (sv_clients (y_server y)), sv_tick (y_server y))
  | _ => None
  end.

(* (a) two clients seeing different subsets (entities 1 {0,1}, 2 {0}, 3 {4}: client 0 sees 1 and 2, client 1 sees 2 and
       3), the same script under a blacklist and under a whitelist; entity 1 is hidden from client 0 at tick 2 and shown
       again at tick 3; client 0 applies the tick-2 message only (partial delivery), one of its mutate messages is lost,
       the other one is delivered late; client 1 is disconnected, runs a frame, reconnects and is sent its visible
       structure again (for the whitelist its visibility has to be set again: the record is new) *)
Definition fx_script : list step :=
  [StStart; StConnect 0 1200; StConnect 1 1200;
   fsfr true [SSpawn 1 true [(0, VNat 1); (1, VNat 2)]; SSpawn 2 true [(0, VNat 5)]; SSpawn 3 true [(4, VNat 0)];
              SVis 0 3 false; SVis 1 1 false; SVis 0 1 true; SVis 0 2 true; SVis 1 2 true; SVis 1 3 true];
   StDeliver 0 true 0 All; StDeliver 0 true 1 All; StCFrame 0 [];
   StDeliver 1 true 0 All; StCFrame 1 [];
   fsfr true [SVis 0 1 false; SMutate 2 0 (VNat 6)];
   fsfr true [SVis 0 1 true; SInsert 3 5 (VNat 1)];
   StDeliver 0 true 0 First; StCFrame 0 [];
   StDrop 0 true 1 First;
   StDisconnect 1; StCFrame 1 []; StConnect 1 1200;
   fsfr true [SVis 1 1 false; SVis 1 2 true; SVis 1 3 true];
   StDeliver 1 true 0 All; StCFrame 1 [];
   StDeliver 0 true 1 All; StCFrame 0 []].

Example C03F_ex_script : script_okf fx_script = true /\ tick_frames fx_script = 4 /\ single_session fx_script = false.
Proof. vm_compute. repeat split; reflexivity. Qed.

(* at the end client 0 holds {2}: NOT what is visible to it now ({1, 2}, tick 4) but what was visible to it at tick 2
   (the state after the first ten steps); client 1, in its second session, is up to date *)
Example C03F_ex_run :
  fx_view fx_script (run (sys_init fx_bl 2) fx_script)
    = Some ([(0, MLive, Connected, 2, [(2, [0])], 0%nat, 1%nat, 0%nat);
             (1, MLive, Connected, 4, [(2, [0]); (3, [4; 5])], 0%nat, 0%nat, 0%nat)],
            [(0, [(1, [0; 1]); (2, [0])]); (1, [(2, [0]); (3, [4; 5])])], 4) /\
  fx_view fx_script (run (sys_init fx_wl 2) fx_script)
    = Some ([(0, MLive, Connected, 2, [(2, [0])], 0%nat, 1%nat, 0%nat);
             (1, MLive, Connected, 4, [(2, [0]); (3, [4; 5])], 0%nat, 0%nat, 0%nat)],
            [(0, [(1, [0; 1]); (2, [0])]); (1, [(2, [0]); (3, [4; 5])])], 4) /\
  (* after ten steps (tick 2): entity 1 is hidden from client 0, which still holds it (the message is in the queue) *)
  fx_view (firstn 10 fx_script) (run (sys_init fx_wl 2) (firstn 10 fx_script))
    = Some ([(0, MLive, Connected, 1, [(1, [0; 1]); (2, [0])], 0%nat, 1%nat, 1%nat);
             (1, MLive, Connected, 1, [(2, [0]); (3, [4])], 0%nat, 0%nat, 1%nat)],
            [(0, [(2, [0])]); (1, [(2, [0]); (3, [4])])], 2) /\
  (* after `StDisconnect 1`: client 1 still holds the structure of the session that ended, the server has no record *)
  fx_view (firstn 15 fx_script) (run (sys_init fx_bl 2) (firstn 15 fx_script))
    = Some ([(0, MLive, Connected, 2, [(2, [0])], 0%nat, 1%nat, 1%nat);
             (1, MLeft, Disconnected, 1, [(2, [0]); (3, [4])], 0%nat, 0%nat, 0%nat)],
            [(0, [(1, [0; 1]); (2, [0])])], 3) /\
  (* ... and its next frame resets it *)
  fx_view (firstn 16 fx_script) (run (sys_init fx_bl 2) (firstn 16 fx_script))
    = Some ([(0, MLive, Connected, 2, [(2, [0])], 0%nat, 1%nat, 1%nat);
             (1, MClean, Disconnected, 0, [], 0%nat, 0%nat, 0%nat)],
            [(0, [(1, [0; 1]); (2, [0])])], 3).
Proof. vm_compute. repeat split; reflexivity. Qed.

(* the ghost at the end: what each slot has been sent in its current session *)
Example C03F_ex_ghost :
  match erun_s (sys_init fx_bl 2) [] fx_script with Ok (_, gs) => Some gs | _ => None end
    = Some [(0, [(2, [0]); (1, [0; 1])]); (1, [(2, [0]); (3, [4; 5])])].
Proof. vm_compute. reflexivity. Qed.

(* C03F_every_moment instantiated on the run, both policies *)
Example C03F_ex_instance : forall c0, c0 = fx_bl \/ c0 = fx_wl ->
  exists y, run (sys_init c0 2) fx_script = Ok y /\
    forall slot c, al_get slot (y_clients y) = Some c ->
      struct_equiv (client_struct c) [] \/
      exists pre post y1 cl1, fx_script = pre ++ post /\ run (sys_init c0 2) pre = Ok y1 /\
        forallb (fun st => negb (ends_session slot st)) post = true /\
        find_client (y_server y1) slot = Some cl1 /\ sc_authorized cl1 = true /\
        struct_equiv (client_struct c) (struct_vis (y_server y1) cl1) /\ cl_upd_tick c = sv_tick (y_server y1).
Proof.
  intros c0 Hc0.
  assert (Hmodes : forall slot, mode_of fx_script slot = MClean \/ mode_of fx_script slot = MLive).
  { intros slot. destruct (N.eq_dec slot 0) as [->|H0]; [right; vm_compute; reflexivity|].
    destruct (N.eq_dec slot 1) as [->|H1]; [right; vm_compute; reflexivity|].
    left. destruct (mode_of fx_script slot) eqn:Em; [reflexivity| | |];
      (exfalso; assert (Hin : In slot (connect_slots fx_script)) by (apply mode_not_clean; rewrite Em; discriminate);
       vm_compute in Hin; destruct Hin as [?|[?|[?|[]]]]; congruence). }
  assert (Hb : tick_frames fx_script < 2 ^ 31) by (rewrite (proj1 (proj2 C03F_ex_script)); reflexivity).
  destruct (run (sys_init c0 2) fx_script) as [y| |] eqn:E;
    [|destruct Hc0; subst c0; vm_compute in E; discriminate|destruct Hc0; subst c0; vm_compute in E; discriminate].
  exists y. split; [reflexivity|]. intros slot c Hc.
  exact (C03F_every_moment c0 2 fx_script y slot c (proj1 C03F_ex_script) Hb E Hc (Hmodes slot)).
Qed.

(* (b) stop / restart: the clients of the stopped server are disconnected and run a frame, the stopped server runs a
       frame (reset), after the restart both reconnect; client 1 only sees entity 2 *)
Definition fx_stop : list step :=
  [StStart; StConnect 0 1200; StConnect 1 1200;
   fsfr true [SSpawn 1 true [(0, VNat 1)]; SSpawn 2 true [(0, VNat 5)]; SVis 0 1 true; SVis 0 2 true; SVis 1 2 true; SVis 1 1 false];
   StDeliver 0 true 0 All; StCFrame 0 [];
   StStop; StDisconnect 0; StCFrame 0 []; StDisconnect 1; StCFrame 1 [];
   fsfr false [SInsert 1 3 (VNat 0)]; StStart; fsfr false [];
   StConnect 0 1200; StConnect 1 1200;
   fsfr true [SVis 0 1 true; SVis 0 2 true; SVis 1 2 true; SVis 1 1 false];
   StDeliver 0 true 0 All; StCFrame 0 []; StDeliver 1 true 0 All; StCFrame 1 []].

Example C03F_ex_stop :
  script_okf fx_stop = true /\ tick_frames fx_stop = 2 /\
  (* after `StStop`: both slots are stale, client 0 holds the old structure *)
  fx_view (firstn 7 fx_stop) (run (sys_init fx_wl 2) (firstn 7 fx_stop))
    = Some ([(0, MStale, Connected, 1, [(1, [0]); (2, [0])], 0%nat, 0%nat, 0%nat);
             (1, MStale, Connected, 0, [], 0%nat, 0%nat, 0%nat)],
            [(0, [(1, [0]); (2, [0])]); (1, [(2, [0])])], 1) /\
  fx_view fx_stop (run (sys_init fx_wl 2) fx_stop)
    = Some ([(0, MLive, Connected, 1, [(1, [0; 3]); (2, [0])], 0%nat, 0%nat, 0%nat);
             (1, MLive, Connected, 1, [(2, [0])], 0%nat, 0%nat, 0%nat)],
            [(0, [(1, [0; 3]); (2, [0])]); (1, [(2, [0])])], 1) /\
  fx_view fx_stop (run (sys_init fx_bl 2) fx_stop)
    = Some ([(0, MLive, Connected, 1, [(1, [0; 3]); (2, [0])], 0%nat, 0%nat, 0%nat);
             (1, MLive, Connected, 1, [(2, [0])], 0%nat, 0%nat, 0%nat)],
            [(0, [(1, [0; 3]); (2, [0])]); (1, [(2, [0])])], 1).
Proof. vm_compute. repeat split; reflexivity. Qed.

(* ---- 5. why the premise [sessions_ok] is there: witnesses ---- *)

(* the C03 statement for one slot at the end of a script, as a boolean *)
Definition c03_check (c0 : cfg) (n : N) (script : list step) (slot : N) : bool :=
  match run (sys_init c0 n) script with
  | Ok y =>
    match al_get slot (y_clients y) with
    | Some c =>
      struct_eqb (client_struct c) [] ||
      existsb (fun k => match run (sys_init c0 n) (firstn k script) with
                        | Ok y1 => match find_client (y_server y1) slot with
                                   | Some cl1 => struct_eqb (client_struct c) (struct_vis (y_server y1) cl1)
                                                 && (cl_upd_tick c =? sv_tick (y_server y1))
                                   | None => false
                                   end
                        | _ => false
                        end) (seq 0 (S (length script)))
    | None => false
    end
  | _ => false
  end.

Example C03F_ex_check : c03_check fx_bl 2 fx_script 0 = true /\ c03_check fx_wl 2 fx_script 1 = true /\
                        c03_check fx_wl 2 fx_stop 0 = true.
Proof. vm_compute. repeat split; reflexivity. Qed.

(* W1. quick reconnect, no client frame between `StDisconnect 0` and `StConnect 0`: the client's `reset`
       never runs, the entity map of the old session survives into the new one.  Entity 1 was despawned between the
       sessions; the client holds {1, 2} for ever, the server replicates {2}.  With the client frame in between
       (w_quick_ok) the statement holds.  (C09_witness_reconnect_between_frames is the same scenario for values.) *)
Definition w_quick : list step :=
  [StStart; StConnect 0 1200; fsfr true [SSpawn 1 true [(0, VNat 1)]]; StDeliver 0 true 0 All; StCFrame 0 [];
   StDisconnect 0; fsfr true [SDespawn 1; SSpawn 2 true [(0, VNat 2)]]; StConnect 0 1200; fsfr true [];
   StDeliver 0 true 0 All; StCFrame 0 []].
Definition w_quick_ok : list step :=
  [StStart; StConnect 0 1200; fsfr true [SSpawn 1 true [(0, VNat 1)]]; StDeliver 0 true 0 All; StCFrame 0 [];
   StDisconnect 0; fsfr true [SDespawn 1; SSpawn 2 true [(0, VNat 2)]]; StCFrame 0 []; StConnect 0 1200; fsfr true [];
   StDeliver 0 true 0 All; StCFrame 0 []].

Example C03F_witness_quick_reconnect :
  legal w_quick = true /\ no_smap w_quick = true /\ sessions_ok w_quick = false /\ c03_check fx_all 1 w_quick 0 = false /\
  fx_view w_quick (run (sys_init fx_all 1) w_quick)
    = Some ([(0, MClean, Connected, 3, [(1, [0]); (2, [0])], 0%nat, 0%nat, 0%nat)], [(0, [(2, [0])])], 3) /\
  script_okf w_quick_ok = true /\ c03_check fx_all 1 w_quick_ok 0 = true /\
  fx_view w_quick_ok (run (sys_init fx_all 1) w_quick_ok)
    = Some ([(0, MLive, Connected, 3, [(2, [0])], 0%nat, 0%nat, 0%nat)], [(0, [(2, [0])])], 3) /\
  sessions_ok c09_w1 = false.
Proof. vm_compute. repeat split; reflexivity. Qed.

(* W2. `StStop` does not disconnect the clients in the model (the harness scripts do it with `StDisconnect`): a client
       that is never disconnected keeps its maps through stop / reset / restart / `StConnect` (the slot is MStale at the
       `StConnect`); with `StDisconnect 0; StCFrame 0` after the stop the statement holds *)
Definition w_stop : list step :=
  [StStart; StConnect 0 1200; fsfr true [SSpawn 1 true [(0, VNat 1)]]; StDeliver 0 true 0 All; StCFrame 0 [];
   StStop; fsfr false [SDespawn 1]; StCFrame 0 []; StStart; StConnect 0 1200; fsfr true [SSpawn 2 true [(0, VNat 2)]];
   StDeliver 0 true 0 All; StCFrame 0 []].
Definition w_stop_ok : list step :=
  [StStart; StConnect 0 1200; fsfr true [SSpawn 1 true [(0, VNat 1)]]; StDeliver 0 true 0 All; StCFrame 0 [];
   StStop; StDisconnect 0; StCFrame 0 []; fsfr false [SDespawn 1]; StStart; StConnect 0 1200; fsfr true [SSpawn 2 true [(0, VNat 2)]];
   StDeliver 0 true 0 All; StCFrame 0 []].

Example C03F_witness_stop_without_disconnect :
  legal w_stop = true /\ no_smap w_stop = true /\ sessions_ok w_stop = false /\ c03_check fx_all 1 w_stop 0 = false /\
  fx_view w_stop (run (sys_init fx_all 1) w_stop)
    = Some ([(0, MStale, Connected, 1, [(1, [0]); (2, [0])], 0%nat, 0%nat, 0%nat)], [(0, [(2, [0])])], 1) /\
  script_okf w_stop_ok = true /\ c03_check fx_all 1 w_stop_ok 0 = true.
Proof. vm_compute. repeat split; reflexivity. Qed.

(* W3. why nothing is claimed for a MStale slot.  `StStop` immediately followed by `StStart` while the client is still
       connected (this is C09_witness_restart_between_frames): the server's `reset` never runs, the record of the slot
       survives, but the update message that carried entity 1 died with the link: the client holds {2}, the server
       replicated {1, 2} to it at that tick.  The script satisfies [sessions_ok] (the slot is never connected again);
       slot 1, connected after the restart, has its guarantee (C03F_every_moment applies to it). *)
Definition w_restart : list step :=
  [StStart; StConnect 0 1200; fsfr true [SSpawn 1 true [(0, VNat 1)]];
   StStop; StStart; StConnect 1 1200; fsfr true [SSpawn 2 true [(0, VNat 2)]];
   StDeliver 0 true 0 All; StCFrame 0 []; StDeliver 1 true 0 All; StCFrame 1 []].

Example C03F_ex_stale_slot :
  script_okf w_restart = true /\ c03_check fx_all 2 w_restart 0 = false /\ c03_check fx_all 2 w_restart 1 = true /\
  fx_view w_restart (run (sys_init fx_all 2) w_restart)
    = Some ([(0, MStale, Connected, 2, [(2, [0])], 0%nat, 0%nat, 0%nat);
             (1, MLive, Connected, 2, [(1, [0]); (2, [0])], 0%nat, 0%nat, 0%nat)],
            [(0, [(1, [0]); (2, [0])]); (1, [(1, [0]); (2, [0])])], 2) /\
  sessions_ok c09_w2 = true.
Proof. vm_compute. repeat split; reflexivity. Qed.

(* ---- 6. G3: pre-spawn mappings (`SMap` operations) ----
   The same statements (every policy, several sessions) for scripts WITH `SMap` operations: `script_okg` is
   `legal && sessions_ok` (no `no_smap`).  The premise [run_maps_ok y0 script] says, for every step of the run:
     - StSFrame: every update message produced names, in its mappings, only entities that are in its changes array
       ([maps_in_changes]; C16's premise "registered no later than the tick in which the entity first becomes visible to
       that client" gives this: C03V_unknown_visible_is_sent_whole);
     - StCFrame: when the (connected) client applies its inbox every mapping is harmless at the moment it is applied,
       i.e. after the despawn records of its message ([inbox_maps_ok], [maps_ok] at [maps_pre]: the server entity is
       unknown to the client, not even as the placeholder of an entity reference; the pre-spawned entity, if alive, is
       neither marked nor mapped), and the client operations of the frame are harmless
       ([cops_safe]: the client does not despawn a pre-spawned entity a server entity is mapped to).
   It is decidable along the run: [run_maps_okb] (C03F_maps_checker).  Proofs: Repl/ClientHistMaps_proofs.v (the history
   argument and the client frame with mappings), Repl/StructE2EMaps_proofs.v. *)

(* the client step with mappings: structure, invariant, confirm histories *)
Theorem C03F_update_message_maps : forall c S u c' applied,
  cs_inv c -> srel c S -> hist_small c -> ent_hist_ok applied c ->
  (forall u0, In u0 applied -> u_tick u0 <= u_tick u) -> small_tick (u_tick u) ->
  maps_ok (maps_pre c u) (u_maps u) -> maps_in_changes u ->
  apply_update_message c u = Ok c' ->
  cs_inv c' /\ srel c' (abs_apply S u) /\ hist_small c' /\ ent_hist_ok (applied ++ [u]) c'.
Proof. exact update_message_maps_props. Qed.

(* a whole client frame under the history invariant, with mappings *)
Theorem C03F_client_frame_maps : forall c applied lupd ops c' out,
  hist_pre_m c applied lupd -> cl_status c = Connected ->
  (forall c2 out2, apply_replication c = Ok (c2, out2) -> cops_safe c2 ops = true) ->
  client_frame c ops = Ok (c', out) ->
  cs_inv c' /\ srel c' (fold_left abs_apply (applied ++ cl_inbox_upd c) []) /\
  ent_hist_ok (applied ++ cl_inbox_upd c) c' /\ hist_small c' /\
  (applied ++ cl_inbox_upd c <> [] -> cl_upd_tick c' = u_tick (last (applied ++ cl_inbox_upd c) dflt_upd)) /\
  cl_inbox_upd c' = [] /\ cl_inbox_mut c' = [] /\ cl_status c' = Connected /\
  (forall m, In m (cl_buffered c') -> In m (cl_inbox_mut c ++ cl_buffered c)).
Proof. exact frame_hist_maps. Qed.

Theorem C03F_maps_checker : forall script y, run_maps_okb y script = true -> run_maps_ok y script.
Proof. exact run_maps_okb_sound. Qed.

Theorem C03F_maps_fifo : forall cfg0 nclients script y gs slot c,
  script_okg script = true -> run_maps_ok (sys_init cfg0 nclients) script -> tick_frames script < 2 ^ 31 ->
  erun_s (sys_init cfg0 nclients) [] script = Ok (y, gs) ->
  al_get slot (y_clients y) = Some c -> mode_of script slot = MLive -> cl_status c = Connected ->
  ginv_v (mkG (y_server y) gs) /\
  exists applied,
    struct_equiv (client_struct c) (fold_left abs_apply applied []) /\
    fold_left abs_apply (applied ++ cl_inbox_upd c ++ l_upd (get_link y slot)) [] = sent_of slot gs /\
    (applied <> [] -> cl_upd_tick c = u_tick (last applied dflt_upd)) /\
    ticks_incr (applied ++ cl_inbox_upd c ++ l_upd (get_link y slot)) /\
    (forall p q, applied ++ cl_inbox_upd c ++ l_upd (get_link y slot) = p ++ q -> p <> [] ->
       exists pre post y1 cl1, script = pre ++ post /\ run (sys_init cfg0 nclients) pre = Ok y1 /\
         forallb (fun st => negb (ends_session slot st)) post = true /\
         find_client (y_server y1) slot = Some cl1 /\ sc_authorized cl1 = true /\
         struct_equiv (fold_left abs_apply p []) (struct_vis (y_server y1) cl1) /\
         u_tick (last p dflt_upd) = sv_tick (y_server y1)).
Proof. exact g_fifo. Qed.

Theorem C03F_maps_in_flight : forall cfg0 nclients script y gs slot c,
  script_okg script = true -> run_maps_ok (sys_init cfg0 nclients) script -> tick_frames script < 2 ^ 31 ->
  erun_s (sys_init cfg0 nclients) [] script = Ok (y, gs) ->
  al_get slot (y_clients y) = Some c -> mode_of script slot = MLive -> cl_status c = Connected ->
  struct_equiv (fold_left abs_apply (cl_inbox_upd c ++ l_upd (get_link y slot)) (client_struct c)) (sent_of slot gs).
Proof. exact g_in_flight. Qed.

Theorem C03F_maps_every_moment : forall cfg0 nclients script y slot c,
  script_okg script = true -> run_maps_ok (sys_init cfg0 nclients) script -> tick_frames script < 2 ^ 31 ->
  run (sys_init cfg0 nclients) script = Ok y -> al_get slot (y_clients y) = Some c ->
  mode_of script slot = MClean \/ mode_of script slot = MLive ->
  struct_equiv (client_struct c) [] \/
  exists pre post y1 cl1, script = pre ++ post /\ run (sys_init cfg0 nclients) pre = Ok y1 /\
    forallb (fun st => negb (ends_session slot st)) post = true /\
    find_client (y_server y1) slot = Some cl1 /\ sc_authorized cl1 = true /\
    struct_equiv (client_struct c) (struct_vis (y_server y1) cl1) /\ cl_upd_tick c = sv_tick (y_server y1).
Proof. exact g_every_moment. Qed.

Theorem C03F_maps_tick_monotone : forall cfg0 nclients script y gs slot c ops y' o c',
  script_okg script = true -> run_maps_ok (sys_init cfg0 nclients) script -> tick_frames script < 2 ^ 31 ->
  erun_s (sys_init cfg0 nclients) [] script = Ok (y, gs) ->
  al_get slot (y_clients y) = Some c -> mode_of script slot = MLive -> cl_status c = Connected ->
  cframe_ok c ops ->
  sys_step y (StCFrame slot ops) = Ok (y', o) -> al_get slot (y_clients y') = Some c' ->
  struct_equiv (client_struct c) [] \/ cl_upd_tick c <= cl_upd_tick c'.
Proof. exact g_tick_monotone. Qed.

Print Assumptions C03F_update_message_maps.
Print Assumptions C03F_client_frame_maps.
Print Assumptions C03F_maps_checker.
Print Assumptions C03F_maps_fifo.
Print Assumptions C03F_maps_in_flight.
Print Assumptions C03F_maps_every_moment.
Print Assumptions C03F_maps_tick_monotone.

(* entities of a client: id, pre-spawn id, alive, marker, kinds; and its server -> client map *)
Definition fx_ents (r : res sys) (slot : N) :=
  match r with
  | Ok y => match al_get slot (y_clients y) with
            | Some c => Some (map (fun kv => (fst kv, ce_pre (snd kv), ce_alive (snd kv), ce_marker (snd kv), map fst (ce_comps (snd kv)))) (cl_ents c),
                              cl_s2c c)
            | None => None
            end
  | _ => None
  end.

(* client 0 pre-spawns an entity (id 9); the server registers entity 1 as its counterpart in the tick in which entity 1
   is first sent to client 0: entity 1 lands on the pre-spawned client entity 0 (C16) and the structures agree, for a
   blacklist and for a whitelist; client 1 does not see entity 1 *)
Definition fx_map : list step :=
  [StStart; StConnect 0 1200; StConnect 1 1200; StCFrame 0 [CPrespawn 9];
   fsfr true [SSpawn 1 true [(0, VNat 1)]; SSpawn 2 true [(0, VNat 5)]; SVis 0 1 true; SVis 0 2 true; SVis 1 2 true; SVis 1 1 false; SMap 0 1 9];
   StDeliver 0 true 0 All; StCFrame 0 []; StDeliver 1 true 0 All; StCFrame 1 [];
   fsfr true [SInsert 1 2 (VNat 3); SMutate 2 0 (VNat 6)]; StDeliver 0 true 0 All; StDeliver 0 true 1 All; StCFrame 0 []].

Example C03F_ex_maps :
  script_okg fx_map = true /\ no_smap fx_map = false /\ tick_frames fx_map = 2 /\
  run_maps_okb (sys_init fx_bl 2) fx_map = true /\ run_maps_okb (sys_init fx_wl 2) fx_map = true /\
  fx_view fx_map (run (sys_init fx_wl 2) fx_map)
    = Some ([(0, MLive, Connected, 2, [(1, [0; 2]); (2, [0])], 0%nat, 0%nat, 0%nat);
             (1, MLive, Connected, 1, [(2, [0])], 0%nat, 0%nat, 1%nat)],
            [(0, [(1, [0; 2]); (2, [0])]); (1, [(2, [0])])], 2) /\
  fx_ents (run (sys_init fx_wl 2) fx_map) 0
    = Some ([(0, Some 9, true, true, [0; 2]); (1, None, true, true, [0])], [(1, 0); (2, 1)]).
Proof. vm_compute. repeat split; reflexivity. Qed.

Example C03F_ex_maps_instance : forall c0, c0 = fx_bl \/ c0 = fx_wl ->
  exists y, run (sys_init c0 2) fx_map = Ok y /\
    forall slot c, al_get slot (y_clients y) = Some c ->
      struct_equiv (client_struct c) [] \/
      exists pre post y1 cl1, fx_map = pre ++ post /\ run (sys_init c0 2) pre = Ok y1 /\
        forallb (fun st => negb (ends_session slot st)) post = true /\
        find_client (y_server y1) slot = Some cl1 /\ sc_authorized cl1 = true /\
        struct_equiv (client_struct c) (struct_vis (y_server y1) cl1) /\ cl_upd_tick c = sv_tick (y_server y1).
Proof.
  intros c0 Hc0.
  assert (Hmodes : forall slot, mode_of fx_map slot = MClean \/ mode_of fx_map slot = MLive).
  { intros slot. destruct (N.eq_dec slot 0) as [->|H0]; [right; vm_compute; reflexivity|].
    destruct (N.eq_dec slot 1) as [->|H1]; [right; vm_compute; reflexivity|].
    left. destruct (mode_of fx_map slot) eqn:Em; [reflexivity| | |];
      (exfalso; assert (Hin : In slot (connect_slots fx_map)) by (apply mode_not_clean; rewrite Em; discriminate);
       vm_compute in Hin; destruct Hin as [?|[?|[]]]; congruence). }
  assert (Hb : tick_frames fx_map < 2 ^ 31) by (rewrite (proj1 (proj2 (proj2 C03F_ex_maps))); reflexivity).
  assert (Hmk : run_maps_ok (sys_init c0 2) fx_map).
  { apply C03F_maps_checker. destruct Hc0; subst c0; apply C03F_ex_maps. }
  destruct (run (sys_init c0 2) fx_map) as [y| |] eqn:E;
    [|destruct Hc0; subst c0; vm_compute in E; discriminate|destruct Hc0; subst c0; vm_compute in E; discriminate].
  exists y. split; [reflexivity|]. intros slot c Hc.
  exact (C03F_maps_every_moment c0 2 fx_map y slot c (proj1 C03F_ex_maps) Hmk Hb E Hc (Hmodes slot)).
Qed.

(* why each part of [run_maps_ok] is there *)

(* M1. the mapped entity is not replicated (no `Replicated` marker): the update message carries the mapping only; the
       client marks the pre-spawned entity and maps it: it holds entity 1 (no kinds), the server replicates nothing *)
Definition w_map_unsent : list step :=
  [StStart; StConnect 0 1200; StCFrame 0 [CPrespawn 9];
   fsfr true [SSpawn 1 false [(0, VNat 1)]; SMap 0 1 9]; StDeliver 0 true 0 All; StCFrame 0 []].

Example C03F_witness_map_unsent :
  script_okg w_map_unsent = true /\ run_maps_okb (sys_init fx_all 1) w_map_unsent = false /\
  run_maps_okb (sys_init fx_all 1) (firstn 3 w_map_unsent) = true /\ c03_check fx_all 1 w_map_unsent 0 = false /\
  fx_view w_map_unsent (run (sys_init fx_all 1) w_map_unsent)
    = Some ([(0, MLive, Connected, 1, [(1, [])], 0%nat, 0%nat, 0%nat)], [(0, [])], 1).
Proof. vm_compute. repeat split; reflexivity. Qed.

(* M2. the same pre-spawned entity is named for a second server entity (the mapping is in the changes array, but
       [maps_ok] fails when the client applies it): both server entities are mapped to one client entity *)
Definition w_map_twice : list step :=
  [StStart; StConnect 0 1200; StCFrame 0 [CPrespawn 9];
   fsfr true [SSpawn 1 true [(0, VNat 1)]; SMap 0 1 9]; StDeliver 0 true 0 All; StCFrame 0 [];
   fsfr true [SSpawn 2 true [(1, VNat 1)]; SMap 0 2 9]; StDeliver 0 true 0 All; StCFrame 0 []].

Example C03F_witness_map_twice :
  script_okg w_map_twice = true /\ run_maps_okb (sys_init fx_all 1) w_map_twice = false /\
  run_maps_okb (sys_init fx_all 1) (firstn 8 w_map_twice) = true /\ c03_check fx_all 1 w_map_twice 0 = false /\
  fx_view w_map_twice (run (sys_init fx_all 1) w_map_twice)
    = Some ([(0, MLive, Connected, 2, [(1, [0; 1]); (2, [0; 1])], 0%nat, 0%nat, 0%nat)], [(0, [(1, [0]); (2, [1])])], 2) /\
  fx_ents (run (sys_init fx_all 1) w_map_twice) 0 = Some ([(0, Some 9, true, true, [0; 1])], [(1, 0); (2, 0)]).
Proof. vm_compute. repeat split; reflexivity. Qed.

(* M3. the client despawns the pre-spawned entity that server entity 1 is mapped to ([cops_safe] fails): the mapping
       stays, the next update message that mentions entity 1 is aborted at that entry and the entry for entity 2 behind it
       is lost although the update tick moves to 2: the client holds nothing, the server replicated {1, 2} at tick 2
       (the disjunct "empty" of C03F_every_moment holds trivially here; C03F_fifo is the statement that fails) *)
Definition w_map_despawn : list step :=
  [StStart; StConnect 0 1200; StCFrame 0 [CPrespawn 9];
   fsfr true [SSpawn 1 true [(0, VNat 1)]; SMap 0 1 9]; StDeliver 0 true 0 All; StCFrame 0 [CDespawn 9];
   fsfr true [SInsert 1 1 (VNat 2); SSpawn 2 true [(0, VNat 5)]]; StDeliver 0 true 0 All; StCFrame 0 []].

Example C03F_witness_map_despawn :
  script_okg w_map_despawn = true /\ run_maps_okb (sys_init fx_all 1) w_map_despawn = false /\
  run_maps_okb (sys_init fx_all 1) (firstn 5 w_map_despawn) = true /\
  fx_view w_map_despawn (run (sys_init fx_all 1) w_map_despawn)
    = Some ([(0, MLive, Connected, 2, [], 0%nat, 0%nat, 0%nat)], [(0, [(1, [0; 1]); (2, [0])])], 2).
Proof. vm_compute. repeat split; reflexivity. Qed.
