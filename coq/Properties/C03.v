(* C03 -- the client's replicated structure follows the server tick by tick (client side part).
   This file only pins statements; proofs live in Repl/Client*_proofs.v.

   Proved here: the two-way entity map invariant, the update tick is the tick of the last applied
   update message and never decreases within a frame, the update channel is FIFO, every entity
   touched by a completed update message is alive, marked and confirmed at the message tick.
   NOT proved here (needs the server model, other files): equality of the client structure with
   the structure the server had at that tick. *)
From RV Require Import Lib.Res Repl.ClientTicks Repl.World Repl.Server Repl.Client Repl.Sys
  Repl.Client_proofs Repl.ClientEnt_proofs Repl.ClientMut_proofs Repl.ClientSys_proofs
  Tick.RepliconTick Tick.ConfirmHistory Tick.MutateTicks.
Open Scope N_scope.

(* ---- the entity map is a bijection between allocated client entities and server entities ---- *)
Theorem C03_entity_map_two_way :
  (forall track, emap_wf (client_init track)) /\
  (forall c s cid, emap_wf c -> al_get s (cl_s2c c) = None -> al_get cid (cl_c2s c) = None -> cid < cl_next c ->
     emap_wf (emap_vacant_insert c s cid)) /\
  (forall c s, emap_wf c -> emap_wf (fst (emap_remove_server c s))) /\
  (forall c s cid, emap_wf c -> cid < cl_next c -> (forall s0, al_get cid (cl_c2s c) = Some s0 -> s0 = s) ->
     emap_wf (emap_insert c s cid)) /\
  (forall c s, emap_wf c -> emap_wf (apply_despawn c s)) /\
  (forall c tick s kinds r, emap_wf c -> apply_removals c tick s kinds = Ok r -> emap_wf (sr_client r)) /\
  (forall c tick s comps r, emap_wf c -> apply_changes c tick s comps = Ok r -> emap_wf (sr_client r)) /\
  (forall c v, emap_wf c -> emap_wf (fst (map_value c v))) /\
  (forall c cid comps, emap_wf c -> emap_wf (write_comps c cid comps)) /\
  (forall c tick s comps r, emap_wf c -> apply_mutations c tick s comps = Ok r -> emap_wf (sr_client r)) /\
  (forall c u c', emap_wf c -> u_maps u = [] -> apply_update_message c u = Ok c' -> emap_wf c') /\
  (forall c c' out, emap_wf c -> apply_mutate_messages c = Ok (c', out) -> emap_wf c') /\
  (forall c, emap_wf (client_reset c)) /\
  (forall c op, emap_wf c -> emap_wf (apply_cop c op)) /\
  (forall c s pc, emap_wf c -> ents_fresh c ->
     (forall cid x s0, In (cid, x) (cl_ents c) -> ce_pre x = Some pc -> al_get cid (cl_c2s c) = Some s0 -> s0 = s) ->
     emap_wf (apply_entity_mapping c s pc)) /\
  (forall c, emap_wf c -> cv_consistent (client_view c) = true).
Proof.
  split; [exact emap_wf_init|]. split; [exact emap_wf_vacant_insert|]. split; [exact emap_wf_remove_server|].
  split; [exact emap_wf_insert|]. split; [exact emap_wf_despawn|]. split; [exact emap_wf_removals|].
  split; [exact emap_wf_changes|]. split; [exact emap_wf_map_value|]. split; [exact emap_wf_write_comps|].
  split; [exact emap_wf_mutations|]. split; [exact emap_wf_update_nomaps|]. split; [exact emap_wf_mutate_messages|].
  split; [exact emap_wf_reset|]. split; [exact emap_wf_cop|]. split; [exact emap_wf_mapping|].
  exact client_view_consistent.
Qed.

(* API misuse: two server entities mapped to the same pre-spawned client entity in one message.
   `ServerEntityMap::insert` then leaves the two maps inconsistent; the view's flag reports it. *)
Definition ex_c0 : client := set_status (client_init false) Connected.
Definition ex_pre : client := apply_cop ex_c0 (CPrespawn 9).
Example C03_misuse_breaks_map :
  match apply_update_message ex_pre (mkUpd 1 [(0, 9); (1, 9)] [] [] []) with
  | Ok c => (cl_s2c c, cl_c2s c, cv_consistent (client_view c))
  | _ => ([], [], true)
  end = ([(0, 0); (1, 0)], [(0, 1)], false).
Proof. vm_compute. reflexivity. Qed.

(* ---- the update tick ---- *)
Theorem C03_update_tick_is_last_applied :
  (forall c u c', apply_update_message c u = Ok c' -> cl_upd_tick c' = u_tick u) /\
  (forall c c' out, apply_mutate_messages c = Ok (c', out) -> cl_upd_tick c' = cl_upd_tick c) /\
  (forall c op, cl_upd_tick (apply_cop c op) = cl_upd_tick c) /\
  (forall c c' out, apply_replication c = Ok (c', out) ->
     cl_upd_tick c' = last (map u_tick (cl_inbox_upd c)) (cl_upd_tick c)).
Proof.
  split; [exact update_tick_follows_messages|]. split; [exact mutate_messages_keep_tick|].
  split; [exact cop_keeps_tick|exact replication_tick_is_last].
Qed.

(* aborted half way: the tick is still the message's tick (entity 0 is mapped to a dead entity) *)
Example C03_tick_set_even_if_aborted :
  let c := apply_cop (match apply_update_message ex_pre (mkUpd 1 [(0, 9)] [] [] []) with Ok c => c | _ => ex_pre end) (CDespawn 9) in
  match run_array (fun c ch => apply_changes c 2 (fst ch) (snd ch)) [(0, [(0, VNat 1)]); (1, [])] c with
  | Ok (Abort _) => true | _ => false end = true /\
  match apply_update_message c (mkUpd 2 [] [] [] [(0, [(0, VNat 1)]); (1, [])]) with
  | Ok c' => (cl_upd_tick c', cl_s2c c') | _ => (0, []) end = (2, [(0, 0)]).
Proof. vm_compute. split; reflexivity. Qed.

(* ticks as unbounded counters: a strictly increasing inbox above the current tick never lowers the
   tick, at any point of the frame; within half the counter range this is the wrapping order *)
Theorem C03_update_tick_monotone : forall c t ts us1 us2 c1,
  cl_upd_tick c = wrap t -> map u_tick (us1 ++ us2) = map wrap ts -> increasing_from t ts ->
  fold_left (res_step apply_update_message) (us1 ++ us2) (Ok c) = Ok c1 ->
  exists cm t', fold_left (res_step apply_update_message) us1 (Ok c) = Ok cm /\
                cl_upd_tick cm = wrap t' /\ (t <= t')%Z /\
                ((t' - t < 2 ^ 31)%Z -> tick_geb (cl_upd_tick cm) (cl_upd_tick c) = true).
Proof. exact update_tick_monotone. Qed.

Example C03_increasing_satisfiable : increasing_from 4294967294 [4294967295; 4294967296; 4294967299]%Z /\
  map wrap [4294967295; 4294967296; 4294967299]%Z = [4294967295; 0; 3].
Proof. split; [cbn; lia|reflexivity]. Qed.

(* ---- the update channel ---- *)
Theorem C03_update_queue_fifo :
  (forall outs y slot, pending (enqueue_outputs y outs) slot = pending y slot ++ updates_for slot outs) /\
  (forall script y y' slot, forallb transport_step script = true -> legal script = true -> run y script = Ok y' ->
     connected y slot -> pending y' slot = pending y slot /\ connected y' slot) /\
  (forall y slot ops y' o, connected y slot -> sys_step y (StCFrame slot ops) = Ok (y', o) ->
     pending y' slot = l_upd (get_link y slot) /\ connected y' slot) /\
  (forall slot ch w, legal_step (StDeliver slot true 0 Last) = false /\ legal_step (StDrop slot true 0 w) = false /\
     legal_step (StDrop slot false ch w) = false).
Proof. exact update_queue_fifo. Qed.

Example C03_connected_satisfiable :
  match run (sys_init (mkCfg PAll AuthNone false 1000) 1) [StStart; StConnect 0 1200] with
  | Ok y => match al_get 0 (y_clients y) with
            | Some cl => match cl_status cl with Connected => true | Disconnected => false end
            | None => false end
  | _ => false end = true.
Proof. vm_compute. reflexivity. Qed.

(* ---- marker and confirm history ---- *)
Theorem C03_changed_entities_marked_and_confirmed :
  (forall c u c', ents_fresh c -> update_completes c u c' ->
     apply_update_message c u = Ok c' /\
     (forall e kinds, In (e, kinds) (u_removals u) -> confirmed_at (u_tick u) c' e) /\
     (forall e comps, In (e, comps) (u_changes u) -> confirmed_at (u_tick u) c' e)) /\
  (forall ds c e, In e ds ->
     al_get e (cl_s2c (fold_left apply_despawn ds c)) = None /\
     (forall cid, al_get e (cl_s2c c) = Some cid -> emap_wf c -> alive (fold_left apply_despawn ds c) cid = false)) /\
  (forall c s, ents_fresh c -> al_get s (cl_s2c c) = None ->
     exists c1, entry_entity c s = Some (c1, cl_next c) /\
                get_cent c1 (cl_next c) = Some (mkCEnt true None true None []) /\
                al_get s (cl_s2c c1) = Some (cl_next c) /\ cl_next c1 = cl_next c + 1) /\
  (forall c T e comps c2, ents_fresh c -> apply_changes c T e comps = Ok (Continue c2) -> confirmed_at T c2 e).
Proof.
  split.
  - intros c u c' Hf Hc. split; [exact (update_completes_ok _ _ _ Hc)|exact (update_changed_entities_confirmed c u c' Hf Hc)].
  - split; [exact despawns_unmapped_dead|]. split; [exact entry_vacant_marked|exact changes_record_confirmed].
Qed.

(* an entity first reserved by a reference (no marker) gets the marker from its own record *)
Example C03_reserved_entity_gets_marker :
  match apply_update_message ex_c0 (mkUpd 1 [] [] [] [(0, [(0, VNat 5); (3, VRef 1)])]) with
  | Ok c1 =>
    (map (fun kv => (fst kv, ce_marker (snd kv))) (cl_ents c1),
     match apply_update_message c1 (mkUpd 2 [] [] [] [(1, [(1, VNat 7)])]) with
     | Ok c2 => (cl_s2c c2, map (fun kv => (fst kv, ce_marker (snd kv), match ce_hist (snd kv) with Some h => h_last h | None => 99 end)) (cl_ents c2))
     | _ => ([], [])
     end)
  | _ => ([], ([], []))
  end = ([(0, true); (1, false)], ([(0, 0); (1, 1)], [(0, true, 1); (1, true, 2)])).
Proof. vm_compute. reflexivity. Qed.

(* ---- order of the entries of the changes array (partial) ----
   Full statement (NOT proved): for an update message whose referenced entities are all mapped,
   applying the entries of `u_changes` in any permuted order yields the same client up to the
   numbering of the client entities spawned by the message.
   Proved: two adjacent entries, anywhere in the array, whose entities are already mapped to two
   different alive client entities and whose references are all mapped, can be swapped; the results
   are EQUAL (no renaming), including panics.  Missing: entries that spawn (vacant entry / unmapped
   reference) - they need the renaming relation on client entity numbers, see the example below -
   and the closure from adjacent swaps to arbitrary permutations. *)
Theorem C03_changes_order_irrelevant_partial : forall T l1 e1 comps1 e2 comps2 rest c,
  (forall c1, run_array (fun c ch => apply_changes c T (fst ch) (snd ch)) l1 c = Ok (Continue c1) ->
     exists cid1 cid2 x1 x2,
       al_get e1 (cl_s2c c1) = Some cid1 /\ al_get e2 (cl_s2c c1) = Some cid2 /\ cid1 <> cid2 /\
       get_cent c1 cid1 = Some x1 /\ ce_alive x1 = true /\ get_cent c1 cid2 = Some x2 /\ ce_alive x2 = true /\
       refs_mapped c1 comps1 /\ refs_mapped c1 comps2) ->
  run_array (fun c ch => apply_changes c T (fst ch) (snd ch)) (l1 ++ (e1, comps1) :: (e2, comps2) :: rest) c =
  run_array (fun c ch => apply_changes c T (fst ch) (snd ch)) (l1 ++ (e2, comps2) :: (e1, comps1) :: rest) c.
Proof. exact changes_order_irrelevant_partial. Qed.

Definition ex_two : client :=
  match apply_update_message ex_c0 (mkUpd 1 [] [] [] [(0, [(0, VNat 1)]); (1, [(0, VNat 2)])]) with Ok c => c | _ => ex_c0 end.
Example C03_swap_concrete :
  run_array (fun c ch => apply_changes c 2 (fst ch) (snd ch)) [(0, [(3, VRef 1)]); (1, [(3, VRef 0)])] ex_two =
  run_array (fun c ch => apply_changes c 2 (fst ch) (snd ch)) [(1, [(3, VRef 0)]); (0, [(3, VRef 1)])] ex_two /\
  match run_array (fun c ch => apply_changes c 2 (fst ch) (snd ch)) [(0, [(3, VRef 1)]); (1, [(3, VRef 0)])] ex_two with
  | Ok (Continue c) => map (fun kv => (fst kv, ce_comps (snd kv))) (cl_ents c) | _ => [] end =
  [(0, [(0, CNat 1); (3, CRef 1)]); (1, [(0, CNat 2); (3, CRef 0)])].
Proof. vm_compute. split; reflexivity. Qed.
(* with spawning entries the two orders differ by the numbering of the new client entities only *)
Example C03_swap_spawning_renames :
  match run_array (fun c ch => apply_changes c 1 (fst ch) (snd ch)) [(0, []); (1, [])] ex_c0,
        run_array (fun c ch => apply_changes c 1 (fst ch) (snd ch)) [(1, []); (0, [])] ex_c0 with
  | Ok (Continue a), Ok (Continue b) => (cl_s2c a, cl_s2c b)
  | _, _ => ([], [])
  end = ([(0, 0); (1, 1)], [(1, 0); (0, 1)]).
Proof. vm_compute. reflexivity. Qed.

Check C03_entity_map_two_way.
Check C03_update_tick_is_last_applied.
Check C03_update_tick_monotone.
Check C03_update_queue_fifo.
Check C03_changed_entities_marked_and_confirmed.
Check C03_changes_order_irrelevant_partial.
Print Assumptions C03_entity_map_two_way.
Print Assumptions C03_update_tick_is_last_applied.
Print Assumptions C03_update_tick_monotone.
Print Assumptions C03_update_queue_fifo.
Print Assumptions C03_changed_entities_marked_and_confirmed.
Print Assumptions C03_changes_order_irrelevant_partial.
