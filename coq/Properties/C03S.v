(* C03, server half -- the UPDATE MESSAGES the server sends to a client are exactly the structural
   DIFFS of the server world between consecutive ticks, for every history of operations and frames
   (visibility policy PAll: no client carries a ClientVisibility, `no_vis`).

   Model: Repl/Server.v (`apply_sop`, `buffer_despawn`, `buffer_removals`, `send_for_client`,
   `send_replication`, `server_frame`, connection handling).  Vocabulary: Repl/StructSpec.v
     structure / struct_equiv   entity -> set of component kinds, compared extensionally
     struct_of s                what the server replicates now (alive entities carrying the marker)
     abs_apply st u             structural effect of an update message on a client holding st, in the
                                client's order: despawns, removals (entity created empty when unknown),
                                changes (entity created when unknown, kinds added)
     pending_ok s t st          invariant between two ticks: the structure st sent so far, the world and
                                the despawn / removal buffers / pending removal events explain each other
     srv_base / rb_repl / srv_ok  server-wide side conditions (unique keys, stamps, a removed and
                                re-inserted kind has a fresh `added` stamp, removal buffer only about
                                replicated entities)
     gstate / gstep / grun      a server run carrying, per authorized slot, the structure obtained by
                                applying every update message sent so far (new client: [])
   Proofs: Repl/Struct_proofs.v (a tick), Repl/StructOps_proofs.v (operations, buffer_removals,
   acknowledgements), Repl/StructRun_proofs.v (frames, runs).

   Scope: multi-frame tick windows, several operations on one entity inside a window, marker toggles,
   despawns, removals followed by re-insertions, late joiners, stop / reset / restart, pre-spawn
   mappings (ignored: they do not change the structure).  Out of scope: ClientVisibility (PBlack,
   PWhite), the client's side (Properties/C03.v), values (C01/C02). *)
From RV Require Import Lib.Res Repl.ClientTicks Repl.World Vis.Visibility Repl.Server Repl.ServerSpec
  Repl.StructSpec Repl.Struct_proofs Repl.StructOps_proofs Repl.StructRun_proofs.
From RV Require Repl.Client Repl.Sys.          (* only for the end-to-end example at the end *)
Open Scope N_scope.

(* ---- 1. every game operation preserves the invariant of every client (running server) ---- *)
Theorem C03S_apply_sop_preserves_pending : forall s op t st,
  srv_base s -> sv_running s = true -> pending_ok s t st -> pending_ok (apply_sop s op) t st.
Proof. exact apply_sop_preserves_pending. Qed.

Theorem C03S_apply_sop_preserves_srv_ok : forall s op,
  srv_ok s -> sv_running s = true -> srv_ok (apply_sop s op).
Proof. exact apply_sop_preserves_srv_ok. Qed.

(* while the server is stopped `buffer_despawns` does nothing: only the base facts survive; the
   clients are dropped by `reset` before the server can tick again *)
Theorem C03S_apply_sop_preserves_base : forall s op, srv_base s -> srv_base (apply_sop s op).
Proof. exact apply_sop_preserves_base. Qed.

(* ---- 2. buffer_removals, age_events / reset, acknowledgements ---- *)
Theorem C03S_buffer_removals : forall s, srv_base s ->
  srv_base (buffer_removals s) /\ (rb_repl s -> rb_repl (buffer_removals s)) /\
  (forall t st, pending_ok s t st -> pending_ok (buffer_removals s) t st) /\
  sv_removed_events (buffer_removals s) = [].
Proof. exact buffer_removals_ok. Qed.

Theorem C03S_age_events_reset :
  (forall s, srv_base s -> srv_base (age_events s)) /\ (forall s, srv_base s -> srv_ok (reset s)).
Proof. split; [exact age_events_base|exact reset_ok]. Qed.

(* the invariant reads the bookkeeping only through "has a mutation tick"; acknowledgements and
   the cleanup keep that *)
Theorem C03S_acks :
  (forall s t t' st, (forall e, mutation_tick t' e <> None <-> mutation_tick t e <> None) ->
     pending_ok s t st -> pending_ok s t' st) /\
  (forall s, Forall2 cl_same (sv_clients s) (sv_clients (receive_acks s))) /\
  (forall c s, Forall2 cl_same (sv_clients s) (sv_clients (cleanup_acks c s))).
Proof. split; [exact pending_ok_ticks|]. split; [exact receive_acks_same|exact cleanup_acks_same]. Qed.

(* ---- 3. a tick sends the diff and re-establishes the invariant with the new structure ---- *)
Theorem C03S_tick_sends_diff : forall c s run cl p cl' out st cls,
  srv_ok s -> sv_removed_events s = [] -> sc_vis cl = None ->
  pending_ok s (sc_ticks cl) st ->
  send_for_client c s run cl p = Ok (cl', out) ->
  struct_equiv (abs_send st (co_update out)) (struct_of s) /\
  pending_ok (set_after_send s cls run) (sc_ticks cl') (struct_of s) /\
  sc_vis cl' = None /\ sc_slot cl' = sc_slot cl /\ sc_authorized cl' = true /\ co_slot out = sc_slot cl.
Proof. exact tick_sends_diff. Qed.

(* ---- 4. whole frames, whole runs ---- *)
Theorem C03S_frame : forall c g tick dt (cleanup : bool) ops parts s' fo,
  ginv g -> server_frame c (g_srv g) tick dt cleanup ops parts = Ok (s', fo) ->
  ginv (mkG s' (sync_sent s' (g_sent g) (fo_clients fo))) /\
  (fo_ran fo = true -> forall cl, In cl (sv_clients s') -> sc_authorized cl = true ->
     struct_equiv (abs_send (sent_of (sc_slot cl) (g_sent g)) (upd_for (sc_slot cl) (fo_clients fo))) (struct_of s')) /\
  (fo_ran fo = false -> fo_clients fo = []).
Proof. exact gframe_ok. Qed.

Theorem C03S_run_invariant : forall c steps g,
  cfg_policy c = PAll -> grun c ginit steps = Ok g -> ginv g.
Proof. intros c steps g Hpol H. exact (grun_inv c steps ginit g Hpol ginit_inv H). Qed.

Theorem C03S_run_sends_diffs : forall c steps g tick dt (cleanup : bool) ops parts g',
  cfg_policy c = PAll -> grun c ginit steps = Ok g ->
  gstep c g (GFrame tick dt cleanup ops parts) = Ok g' ->
  exists fo, server_frame c (g_srv g) tick dt cleanup ops parts = Ok (g_srv g', fo) /\
    forall cl, In cl (sv_clients (g_srv g')) -> sc_authorized cl = true ->
      al_get (sc_slot cl) (g_sent g')
        = Some (abs_send (sent_of (sc_slot cl) (g_sent g)) (upd_for (sc_slot cl) (fo_clients fo))) /\
      (fo_ran fo = true -> struct_equiv (sent_of (sc_slot cl) (g_sent g')) (struct_of (g_srv g'))) /\
      (fo_ran fo = false -> upd_for (sc_slot cl) (fo_clients fo) = None /\
                            sent_of (sc_slot cl) (g_sent g') = sent_of (sc_slot cl) (g_sent g)).
Proof. exact run_sends_diffs. Qed.

Theorem C03S_first_update_is_full_structure : forall c steps g tick dt (cleanup : bool) ops parts g' fo cl,
  cfg_policy c = PAll -> grun c ginit steps = Ok g ->
  gstep c g (GFrame tick dt cleanup ops parts) = Ok g' ->
  server_frame c (g_srv g) tick dt cleanup ops parts = Ok (g_srv g', fo) -> fo_ran fo = true ->
  In cl (sv_clients (g_srv g')) -> sc_authorized cl = true ->
  sent_of (sc_slot cl) (g_sent g) = [] ->
  struct_equiv (abs_send [] (upd_for (sc_slot cl) (fo_clients fo))) (struct_of (g_srv g')).
Proof. exact first_update_is_full_structure. Qed.

Theorem C03S_authorized_starts_empty : forall c steps g slot cl g',
  cfg_policy c = PAll -> grun c ginit steps = Ok g ->
  find_client (g_srv g) slot = Some cl -> sc_authorized cl = false ->
  gstep c g (GAuthorize slot) = Ok g' -> sent_of slot (g_sent g') = [].
Proof. exact authorized_starts_empty. Qed.

Print Assumptions C03S_apply_sop_preserves_pending.
Print Assumptions C03S_apply_sop_preserves_srv_ok.
Print Assumptions C03S_apply_sop_preserves_base.
Print Assumptions C03S_buffer_removals.
Print Assumptions C03S_age_events_reset.
Print Assumptions C03S_acks.
Print Assumptions C03S_tick_sends_diff.
Print Assumptions C03S_frame.
Print Assumptions C03S_run_invariant.
Print Assumptions C03S_run_sends_diffs.
Print Assumptions C03S_first_update_is_full_structure.
Print Assumptions C03S_authorized_starts_empty.

(* ---- 5. the statements are not vacuous: concrete runs ---- *)

Definition ex_cfg : cfg := mkCfg PAll AuthNone false 1000.
Definition ex_cfg_auth : cfg := mkCfg PAll AuthCustom true 1000.
Definition fr (tick : bool) (ops : list sop) : gop := GFrame tick 10 false ops [].

Definition ex_view (r : res gstate) :=
  match r with
  | Ok g => Some (g_sent g, struct_of (g_srv g), all_synced g, sv_despawn_buf (g_srv g), sv_removal_buf (g_srv g))
  | _ => None
  end.

(* the update message of the last frame of a run, for a slot *)
Definition ex_last_update (c : cfg) (l : list gop) (last : gop) (slot : N) : option update_msg :=
  match grun c ginit l, last with
  | Ok g, GFrame tick dt cleanup ops parts =>
    match server_frame c (g_srv g) tick dt cleanup ops parts with
    | Ok (_, fo) => upd_for slot (fo_clients fo)
    | _ => None
    end
  | _, _ => None
  end.

(* (a) one entity, one tick window spread over five frames: insert, remove, re-insert, unmark, mark,
       a removal after the re-marking.  Before the closing tick the client still has the old
       structure {0,1}; the buffers hold the despawn and the removal. *)
Definition ex_window : list gop :=
  [GStart; GConnect 0 1200;
   fr true [SSpawn 1 true [(0, VNat 1); (1, VNat 2)]];
   fr false [SInsert 1 2 (VNat 3)];
   fr false [SRemove 1 2; SRemove 1 0];
   fr false [SInsert 1 0 (VNat 7); SUnmark 1];
   fr false [SMark 1; SRemove 1 1]].

Example C03S_ex_window_before_tick :
  ex_view (grun ex_cfg ginit ex_window) = Some ([(0, [(1, [0; 1])])], [(1, [0])], false, [1], [(1, [1])]).
Proof. vm_compute. reflexivity. Qed.

Example C03S_ex_window_tick_message :
  ex_last_update ex_cfg ex_window (fr true []) 0 = Some (mkUpd 2 [] [1] [(1, [1])] [(1, [(0, VNat 7)])]).
Proof. vm_compute. reflexivity. Qed.

Example C03S_ex_window_after_tick :
  ex_view (grun ex_cfg ginit (ex_window ++ [fr true []])) = Some ([(0, [(1, [0])])], [(1, [0])], true, [], []).
Proof. vm_compute. reflexivity. Qed.

(* the invariant holds in the middle of the window (instance of C03S_run_invariant) with a
   structure that differs from the current one *)
Example C03S_ex_window_invariant :
  exists g, grun ex_cfg ginit ex_window = Ok g /\ ginv g /\ all_synced g = false.
Proof.
  destruct (grun ex_cfg ginit ex_window) as [g| |] eqn:E; [|vm_compute in E; discriminate|vm_compute in E; discriminate].
  exists g. split; [reflexivity|]. split; [exact (C03S_run_invariant ex_cfg ex_window g eq_refl E)|].
  vm_compute in E. injection E as <-. vm_compute. reflexivity.
Qed.

(* (b) remove then re-insert the same kind inside one window without any marker change: the
       message carries the removal AND the re-inserted component; the structure is unchanged *)
Definition ex_reinsert : list gop :=
  [GStart; GConnect 0 1200;
   fr true [SSpawn 1 true [(0, VNat 1); (2, VNat 5)]];
   fr false [SRemove 1 2];
   fr false [SInsert 1 2 (VNat 6)]].

Example C03S_ex_reinsert_message :
  ex_last_update ex_cfg ex_reinsert (fr true []) 0 = Some (mkUpd 2 [] [] [(1, [2])] [(1, [(2, VNat 6)])]) /\
  ex_view (grun ex_cfg ginit (ex_reinsert ++ [fr true []])) = Some ([(0, [(1, [0; 2])])], [(1, [0; 2])], true, [], []).
Proof. vm_compute. split; reflexivity. Qed.

(* (c) a despawn after a removal: `buffer_despawn` deletes the removal entry, only the despawn is sent;
       a late joiner (slot 1) and an entity spawned in the same window *)
Definition ex_despawn_join : list gop :=
  [GStart; GConnect 0 1200;
   fr true [SSpawn 1 true [(0, VNat 1); (1, VNat 2)]; SSpawn 3 true [(4, VNat 0)]];
   fr false [SRemove 1 0];
   fr false [SDespawn 1];
   GConnect 1 1200].

Example C03S_ex_despawn_join :
  ex_last_update ex_cfg ex_despawn_join (fr true [SSpawn 2 true []]) 0
    = Some (mkUpd 2 [] [1] [] [(2, [])]) /\
  ex_last_update ex_cfg ex_despawn_join (fr true [SSpawn 2 true []]) 1
    = Some (mkUpd 2 [] [1] [] [(2, []); (3, [(4, VNat 0)])]) /\
  ex_view (grun ex_cfg ginit (ex_despawn_join ++ [fr true [SSpawn 2 true []]]))
    = Some ([(0, [(3, [4]); (2, [])]); (1, [(2, []); (3, [4])])], [(2, []); (3, [4])], true, [], []).
Proof. vm_compute. repeat split; reflexivity. Qed.

(* (d) explicit authorization, a pre-spawn mapping (no structural effect), stop / reset / restart:
       after the restart the reconnected client starts from the empty structure again (the removal
       made while the server was stopped is still buffered by the first running frame: harmless) *)
Definition ex_session : list gop :=
  [GStart; GConnect 0 1200; fr true [SSpawn 1 true [(0, VNat 1)]];
   GAuthorize 0; GPublish 0 [7]; fr true [SSpawn 2 true [(1, VNat 4)]; SMap 0 2 7];
   fr true [SUnmark 1];
   GStop; fr true [SMark 1; SRemove 2 1]; GStart; GConnect 0 1200; GAuthorize 0;
   fr false [SInsert 2 3 (VRef 1)]].

Example C03S_ex_session :
  ex_view (grun ex_cfg_auth ginit (firstn 7 ex_session)) = Some ([(0, [(2, [1])])], [(2, [1])], true, [], []) /\
  ex_view (grun ex_cfg_auth ginit ex_session) = Some ([(0, [])], [(1, [0]); (2, [3])], false, [], [(2, [1])]) /\
  ex_view (grun ex_cfg_auth ginit (ex_session ++ [fr true []]))
    = Some ([(0, [(2, [3]); (1, [0])])], [(1, [0]); (2, [3])], true, [], []).
Proof. vm_compute. repeat split; reflexivity. Qed.

(* the boolean `all_synced` of the examples means struct_equiv *)
Theorem C03S_all_synced_sound : forall g, all_synced g = true ->
  forall cl, In cl (sv_clients (g_srv g)) -> sc_authorized cl = true ->
    struct_equiv (sent_of (sc_slot cl) (g_sent g)) (struct_of (g_srv g)).
Proof. exact all_synced_sound. Qed.
Print Assumptions C03S_all_synced_sound.

(* (e) end to end with the client model (Repl/Client.v through Repl/Sys.v): the window of (a), every
       update message delivered and applied by the real client model.  The structure of the client
       (mapped entities that are alive and marked) is what `abs_apply` predicts, i.e. the server's
       structure at the tick of the client's last update message. *)
Module EndToEnd.
Import Repl.Client Repl.Sys.

Definition client_struct (c : client) : structure :=
  flat_map (fun sc => match get_cent c (snd sc) with
                      | Some x => if ce_alive x && ce_marker x then [(fst sc, map fst (ce_comps x))] else []
                      | None => []
                      end) (cl_s2c c).

Definition sfr (tick : bool) (ops : list sop) : step := StSFrame tick 10 false ops [].
Definition sync0 : list step := [StDeliver 0 true 0 All; StCFrame 0 []].
Definition sys_window : list step :=
  [StStart; StConnect 0 1200;
   sfr true [SSpawn 1 true [(0, VNat 1); (1, VNat 2)]]] ++ sync0 ++
  [sfr false [SInsert 1 2 (VNat 3)];
   sfr false [SRemove 1 2; SRemove 1 0];
   sfr false [SInsert 1 0 (VNat 7); SUnmark 1];
   sfr false [SMark 1; SRemove 1 1]] ++ sync0.

(* client update tick, client structure, server structure, server tick *)
Definition sys_view (r : res sys) :=
  match r with
  | Ok y => Some (match al_get 0 (y_clients y) with Some c => (cl_upd_tick c, client_struct c) | None => (0, []) end,
                  struct_of (y_server y), sv_tick (y_server y))
  | _ => None
  end.

Example C03S_ex_end_to_end :
  sys_view (run (sys_init ex_cfg 1) sys_window) = Some (1, [(1, [0; 1])], [(1, [0])], 1) /\
  sys_view (run (sys_init ex_cfg 1) (sys_window ++ [sfr true []] ++ sync0)) = Some (2, [(1, [0])], [(1, [0])], 2) /\
  (* the ghost of the server-only run predicts the same client structures *)
  match grun ex_cfg ginit ex_window with Ok g => sent_of 0 (g_sent g) | _ => [] end = [(1, [0; 1])] /\
  match grun ex_cfg ginit (ex_window ++ [fr true []]) with Ok g => sent_of 0 (g_sent g) | _ => [] end = [(1, [0])].
Proof. vm_compute. repeat split; reflexivity. Qed.
End EndToEnd.
