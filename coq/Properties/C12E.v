(* C12 end to end -- "The per-entity history of confirmed ticks and the global record of fully received mutation
   ticks answer 'was this tick confirmed' and 'was any tick in this range confirmed' exactly as a plain set of
   confirmed ticks would for every tick within the window they track, across the 2^32 wrap of the tick counter, and
   the notification that all mutation messages of a tick have been received fires exactly once per tick, and only
   when every message of that tick has been applied."

   Properties/C12.v proves this for the two data structures alone (Layer 0: `hist_R`, `mt_R`).  This file lifts it
   to every reachable state of `Sys.run (sys_init cfg n) script` (Layer 1: Repl/Client.v, Repl/Server.v, Repl/Sys.v).
   It only pins statements; proofs and vocabulary:
     Repl/HistRunSpec.v       H1 ghost: per slot and CLIENT entity the ticks that confirmed it (`hrun`, `hg_frame`, ...)
     Repl/HistRunCli_proofs.v H1, one client (`HInv` under every client operation)
     Repl/HistRun_proofs.v    H1 over runs
     Repl/MtRunSrv_proofs.v   H2 (a): `send_for_client` / one server frame
     Repl/MtRunSpec.v         H2 ghost: per slot the mutate messages sent / lost / applied and the events (`mrun`)
     Repl/MtRunCli_proofs.v   H2 (b): one client frame
     Repl/MtRun_proofs.v      H2: the invariant of a run (`m_inv`)
     Repl/MtRunThm_proofs.v   H2 (b, c): consequences through Layer 0

   Premises.  H1 needs only `tick_frames script < 2^31` (the ticks have not wrapped): no legality, no session
   discipline, `SMap` operations allowed, any kinds / values.  H2 needs in addition `sessions_ok script` (Properties/C03F.v:
   a client notices the end of its session before it is connected again) and `parts_small script` (every proposed
   partition has fewer than 2^64 parts: `m_count` is a usize; the model's count is an unbounded number and
   `TickMessages::confirm` panics when `received` overflows).  H2 (b) is stated for slots in a session (mode MLive,
   client connected); for the other modes see C12E_mt_replay / C12E_mt_clean.

   One statement of the brief is false as written and is proved with the minimal extra condition: the event of tick T
   fires when the last of its `m_count` messages is applied ONLY IF T is still inside the 64-tick window ending at the
   largest tick applied so far (`lmax .. < T + 64`); `ServerMutateTicks::confirm` returns false for older ticks.  Since
   `apply_mutate_messages` applies the buffer newest first, this even happens inside ONE frame: C12E_ex_window. *)
From RV Require Import Lib.Res Repl.ClientTicks Repl.World Vis.Visibility Repl.Server Repl.Client Repl.Sys
  Tick.RepliconTick Tick.ConfirmHistory Tick.MutateTicks Tick.MutateTicks_proofs Tick.TickSpec
  Repl.Client_proofs Repl.ClientStructSpec Repl.StructE2EMut_proofs Repl.StructE2ESess_proofs
  Repl.MtRunSrv_proofs Repl.HistRunSpec Repl.HistRunCli_proofs Repl.HistRun_proofs
  Repl.MtRunSpec Repl.MtRunCli_proofs Repl.MtRun_proofs Repl.MtRunThm_proofs.
From Coq Require Import Permutation.
Open Scope N_scope.

(* ================================================================== *)
(* H1. the per-entity history along runs                              *)
(* ================================================================== *)

(* the run with its ghost is the run *)
Theorem C12E_hrun_is_run :
  (forall script y G y' G', hrun y G script = Ok (y', G') -> run y script = Ok y') /\
  (forall script y G y', run y script = Ok y' -> exists G', hrun y G script = Ok (y', G')).
Proof. split; [exact hrun_run|exact run_hrun]. Qed.

(* at every moment, every alive client entity with a history: the last tick is the maximum of the ghost set, has not
   wrapped, and the history refines the ghost set *)
Theorem C12E_history_refines : forall cfg0 n script y G slot c cid x h,
  tick_frames script < 2 ^ 31 -> hrun (sys_init cfg0 n) hgs_empty script = Ok (y, G) ->
  al_get slot (y_clients y) = Some c -> get_cent c cid = Some x -> ce_alive x = true -> ce_hist x = Some h ->
  small_tick (h_last h) /\ In (h_last h) (G slot cid) /\ (forall t, In t (G slot cid) -> t <= h_last h) /\
  hist_R h (Z.of_N (h_last h)) (zticks (G slot cid)).
Proof. exact h1_entity. Qed.

(* ... in the words of the brief: it refines the ghost set restricted to the 64-tick window ending at its maximum *)
Theorem C12E_history_windowed : forall cfg0 n script y G slot c cid x h,
  tick_frames script < 2 ^ 31 -> hrun (sys_init cfg0 n) hgs_empty script = Ok (y, G) ->
  al_get slot (y_clients y) = Some c -> get_cent c cid = Some x -> ce_alive x = true -> ce_hist x = Some h ->
  hist_R h (Z.of_N (h_last h)) (zticks (windowed (h_last h) (G slot cid))) /\
  In (h_last h) (G slot cid) /\ (forall t, In t (G slot cid) -> t <= h_last h).
Proof. exact h1_windowed. Qed.

(* an alive entity without a history (pre-spawned, or only reserved by an entity reference) was never confirmed *)
Theorem C12E_history_none : forall cfg0 n script y G slot c cid x,
  tick_frames script < 2 ^ 31 -> hrun (sys_init cfg0 n) hgs_empty script = Ok (y, G) ->
  al_get slot (y_clients y) = Some c -> get_cent c cid = Some x -> ce_alive x = true -> ce_hist x = None ->
  G slot cid = [].
Proof. exact h1_no_history. Qed.

(* the queries, for a history [h] and its ghost set [S] (instantiate with C12E_history_refines) *)
Theorem C12E_history_contains : forall h S, hgood h S -> forall t, small_tick t ->
  hist_contains h t = spec_contains (Z.of_N (h_last h)) (zticks S) (Z.of_N t).
Proof. exact hq_contains. Qed.

Theorem C12E_history_contains_windowed : forall h S, hgood h S -> forall t, small_tick t ->
  hist_contains h t = spec_contains (Z.of_N (h_last h)) (zticks (windowed (h_last h) S)) (Z.of_N t).
Proof. exact hq_contains_windowed. Qed.

Theorem C12E_history_contains_any : forall h S, hgood h S -> forall a b, small_tick a -> small_tick b -> a <= b ->
  hist_contains_any h a b = Ok (existsb_range (Z.of_N a) (Z.of_N b) (spec_contains (Z.of_N (h_last h)) (zticks S))).
Proof. exact hq_contains_any. Qed.

(* never forgets a confirmed tick; never reports, inside the window, a tick that was not confirmed *)
Theorem C12E_history_never_forgets : forall h S, hgood h S -> forall t, In t S -> hist_contains h t = true.
Proof. exact hq_never_forgets. Qed.

Theorem C12E_history_never_invents : forall h S, hgood h S -> forall t, small_tick t ->
  hist_contains h t = true -> h_last h < t + 64 -> In t S.
Proof. exact hq_never_invents. Qed.

(* what the test harness checks frame by frame: a tick reported confirmed is still reported after any later steps,
   as long as the client entity is alive (a despawned client entity never comes back; a re-spawn is a new one) *)
Theorem C12E_history_persists : forall cfg0 n pre post y1 G1 y2 G2 slot c1 c2 cid x1 x2 h1 h2 t,
  tick_frames (pre ++ post) < 2 ^ 31 ->
  hrun (sys_init cfg0 n) hgs_empty pre = Ok (y1, G1) -> hrun y1 G1 post = Ok (y2, G2) ->
  al_get slot (y_clients y1) = Some c1 -> get_cent c1 cid = Some x1 -> ce_alive x1 = true -> ce_hist x1 = Some h1 ->
  al_get slot (y_clients y2) = Some c2 -> get_cent c2 cid = Some x2 -> ce_alive x2 = true -> ce_hist x2 = Some h2 ->
  small_tick t -> hist_contains h1 t = true -> hist_contains h2 t = true.
Proof. exact h1_persist. Qed.

Theorem C12E_ghost_grows : forall post y1 G1 y2 G2 slot cid,
  hrun y1 G1 post = Ok (y2, G2) -> exists l, G2 slot cid = l ++ G1 slot cid.
Proof. exact h1_ghost_grows. Qed.

(* the client half: one frame, any client state satisfying the invariant *)
Theorem C12E_client_frame : forall B c g ops c' out,
  B < 2 ^ 31 -> HInv c g -> cl_ticks_le B c -> client_frame c ops = Ok (c', out) ->
  HInv c' (hg_frame c g) /\ cl_ticks_le B c'.
Proof. exact hinv_frame. Qed.

(* ================================================================== *)
(* H2 (a). the counts the server announces                            *)
(* ================================================================== *)

(* one client, one frame, EVERY proposed partition (a rejected one is replaced by the fallback partition) *)
Theorem C12E_counts_one_client : forall c s this_run cl p cl' out,
  send_for_client c s this_run cl p = Ok (cl', out) ->
  co_slot out = sc_slot cl /\
  forall m, In m (co_mutates out) ->
    m_tick m = sv_tick s /\ m_count m <> 0 /\
    m_count m = (if cfg_track c then N.of_nat (length (co_mutates out)) else 1) /\
    (N.of_nat (length p) < 2 ^ 64 -> m_count m < 2 ^ 64).
Proof. exact sfc_counts. Qed.

Theorem C12E_tracking_always_sends : forall c s this_run cl p cl' out,
  cfg_track c = true -> send_for_client c s this_run cl p = Ok (cl', out) -> co_mutates out <> [].
Proof. exact sfc_tracking_sends. Qed.

(* one server frame of a run: all mutate messages for one slot carry the tick of the frame and their number *)
Theorem C12E_counts_frame : forall cfg0 nclients script y G tick dt cleanup ops parts y' o,
  sessions_ok script = true -> parts_small script = true -> tick_frames script < 2 ^ 31 ->
  mrun (sys_init cfg0 nclients) mgs_empty script = Ok (y, G) ->
  sys_step y (StSFrame tick dt cleanup ops parts) = Ok (y', o) ->
  exists fo vs, o = OSFrame fo vs /\
    forall slot m, In m (mutates_for slot (fo_clients fo)) ->
      m_tick m = fo_tick fo /\ m_count m <> 0 /\
      m_count m = (if cfg_track cfg0 then N.of_nat (length (mutates_for slot (fo_clients fo))) else 1).
Proof. exact h2a_frame. Qed.

(* a whole session: every message sent to a slot carries the number of messages sent to it for that tick *)
Theorem C12E_counts_session : forall cfg0 nclients script y G,
  sessions_ok script = true -> parts_small script = true -> tick_frames script < 2 ^ 31 ->
  mrun (sys_init cfg0 nclients) mgs_empty script = Ok (y, G) ->
  forall slot m, In m (mg_sent (G slot)) ->
    m_count m <> 0 /\ m_count m < 2 ^ 64 /\
    m_count m = (if cfg_track cfg0 then N.of_nat (count_tick (m_tick m) (mg_sent (G slot))) else 1).
Proof. exact h2a_session. Qed.

(* ================================================================== *)
(* H2 (b, c). the tracker and the events along runs                   *)
(* ================================================================== *)

Theorem C12E_mrun_is_run :
  (forall script y G y' G', mrun y G script = Ok (y', G') -> run y script = Ok y') /\
  (forall script y G y', run y script = Ok y' -> exists G', mrun y G script = Ok (y', G')).
Proof. split; [exact mrun_run|exact run_mrun]. Qed.

(* every slot, every mode: the tracker is the replay from `default()` of one `confirm` call per applied message, and
   the events emitted since the last reset are the calls that returned true *)
Theorem C12E_mt_replay : forall cfg0 nclients script y G,
  sessions_ok script = true -> parts_small script = true -> tick_frames script < 2 ^ 31 ->
  mrun (sys_init cfg0 nclients) mgs_empty script = Ok (y, G) ->
  forall slot c, al_get slot (y_clients y) = Some c ->
  match cl_mticks c with
  | Some m => cfg_track cfg0 = true /\
              exists bs, mt_confirm_all mt_default (ncalls (mg_appl (G slot))) = Ok (m, bs) /\ mg_evs (G slot) = fired (mg_appl (G slot)) bs
  | None => cfg_track cfg0 = false /\ mg_evs (G slot) = []
  end.
Proof. exact h2b_replay. Qed.

(* (c) after `client_reset` (and before the first session): a pristine tracker, nothing buffered, nothing applied *)
Theorem C12E_mt_clean : forall cfg0 nclients script y G,
  sessions_ok script = true -> parts_small script = true -> tick_frames script < 2 ^ 31 ->
  mrun (sys_init cfg0 nclients) mgs_empty script = Ok (y, G) ->
  forall slot c, al_get slot (y_clients y) = Some c ->
  mode_of script slot = MClean \/ (mode_of script slot = MLive /\ cl_status c = Disconnected) ->
  cl_mticks c = (if cfg_track cfg0 then Some mt_default else None) /\ cl_buffered c = [] /\
  mg_appl (G slot) = [] /\ mg_evs (G slot) = [] /\ mg_sent (G slot) = [] /\ mg_lost (G slot) = [].
Proof. exact h2c_clean. Qed.

(* in a session: everything sent is applied, buffered, in the inbox, in flight or dropped - exactly once *)
Theorem C12E_mt_accounting : forall cfg0 nclients script y G,
  sessions_ok script = true -> parts_small script = true -> tick_frames script < 2 ^ 31 ->
  mrun (sys_init cfg0 nclients) mgs_empty script = Ok (y, G) ->
  forall slot c, al_get slot (y_clients y) = Some c -> mode_of script slot = MLive -> cl_status c = Connected ->
  Permutation (mg_sent (G slot))
    (mg_appl (G slot) ++ cl_buffered c ++ cl_inbox_mut c ++ l_mut (get_link y slot) ++ mg_lost (G slot)).
Proof. exact h2b_accounting. Qed.

(* the `confirm` calls of the client follow the sender's protocol of Layer 0 (Properties/C12.v) *)
Theorem C12E_mt_protocol : forall cfg0 nclients script y G,
  sessions_ok script = true -> parts_small script = true -> tick_frames script < 2 ^ 31 ->
  mrun (sys_init cfg0 nclients) mgs_empty script = Ok (y, G) ->
  forall slot c, al_get slot (y_clients y) = Some c -> mode_of script slot = MLive -> cl_status c = Connected ->
  cfg_track cfg0 = true ->
  sender_protocol (zcalls (mg_appl (G slot))) /\ mcalls_ok 0 mlog_empty (zcalls (mg_appl (G slot))).
Proof. exact h2b_protocol_calls. Qed.

(* the tracker refines the log "tick -> number of mutate messages of that tick applied in this session", its last
   tick being the largest tick applied; the events are those of [ev_spec] *)
Theorem C12E_mt_refines : forall cfg0 nclients script y G,
  sessions_ok script = true -> parts_small script = true -> tick_frames script < 2 ^ 31 ->
  mrun (sys_init cfg0 nclients) mgs_empty script = Ok (y, G) ->
  forall slot c, al_get slot (y_clients y) = Some c -> mode_of script slot = MLive -> cl_status c = Connected ->
  cfg_track cfg0 = true ->
  exists m, cl_mticks c = Some m /\
    mt_R m (Z.of_N (lmax 0 (mg_appl (G slot)))) (snd (fst (mspec_confirm_all 0 mlog_empty (zcalls (mg_appl (G slot)))))) /\
    log_of (zcalls (mg_appl (G slot))) (snd (fst (mspec_confirm_all 0 mlog_empty (zcalls (mg_appl (G slot)))))) /\
    mg_evs (G slot) = ev_spec 0 [] (mg_appl (G slot)).
Proof. exact h2b_refines. Qed.

Theorem C12E_mt_log : forall cfg0 nclients script y G,
  sessions_ok script = true -> parts_small script = true -> tick_frames script < 2 ^ 31 ->
  mrun (sys_init cfg0 nclients) mgs_empty script = Ok (y, G) ->
  forall slot c, al_get slot (y_clients y) = Some c -> mode_of script slot = MLive -> cl_status c = Connected ->
  cfg_track cfg0 = true ->
  forall T, tm_received (snd (fst (mspec_confirm_all 0 mlog_empty (zcalls (mg_appl (G slot))))) (Z.of_N T))
            = N.of_nat (count_tick T (mg_appl (G slot))).
Proof. exact h2b_log. Qed.

(* the event of tick T has fired in this session exactly when a message completed the tick - it was the
   `m_count`-th applied message of tick T - while T was inside the window *)
Theorem C12E_event_iff : forall cfg0 nclients script y G,
  sessions_ok script = true -> parts_small script = true -> tick_frames script < 2 ^ 31 ->
  mrun (sys_init cfg0 nclients) mgs_empty script = Ok (y, G) ->
  forall slot c, al_get slot (y_clients y) = Some c -> mode_of script slot = MLive -> cl_status c = Connected ->
  cfg_track cfg0 = true ->
  forall T, In T (mg_evs (G slot)) <->
    exists a1 m a2, mg_appl (G slot) = a1 ++ m :: a2 /\ m_tick m = T /\
                    N.of_nat (count_tick T a1) + 1 = m_count m /\ lmax 0 a1 < T + 64.
Proof. exact h2b_event_iff. Qed.

(* at most once per tick and session *)
Theorem C12E_event_once : forall cfg0 nclients script y G,
  sessions_ok script = true -> parts_small script = true -> tick_frames script < 2 ^ 31 ->
  mrun (sys_init cfg0 nclients) mgs_empty script = Ok (y, G) ->
  forall slot c, al_get slot (y_clients y) = Some c -> mode_of script slot = MLive -> cl_status c = Connected ->
  cfg_track cfg0 = true -> NoDup (mg_evs (G slot)).
Proof. exact h2b_event_once. Qed.

(* when it has fired, exactly the messages the server sent to this client for the tick in this session have been
   applied: none lost, none pending *)
Theorem C12E_event_complete : forall cfg0 nclients script y G,
  sessions_ok script = true -> parts_small script = true -> tick_frames script < 2 ^ 31 ->
  mrun (sys_init cfg0 nclients) mgs_empty script = Ok (y, G) ->
  forall slot c, al_get slot (y_clients y) = Some c -> mode_of script slot = MLive -> cl_status c = Connected ->
  cfg_track cfg0 = true ->
  forall T, In T (mg_evs (G slot)) ->
    Permutation (filter (of_tick T) (mg_sent (G slot))) (filter (of_tick T) (mg_appl (G slot))) /\
    count_tick T (mg_appl (G slot)) = count_tick T (mg_sent (G slot)) /\ (1 <= count_tick T (mg_sent (G slot)))%nat /\
    forall m, In m (cl_buffered c ++ cl_inbox_mut c ++ l_mut (get_link y slot) ++ mg_lost (G slot)) -> m_tick m <> T.
Proof. exact h2b_event_complete. Qed.

(* a lost mutate message: the event of its tick has not fired - at this and (the statement holds at every reachable
   state, [mg_lost] only grows during a session) at every later moment of the session *)
Theorem C12E_lost_never_fires : forall cfg0 nclients script y G,
  sessions_ok script = true -> parts_small script = true -> tick_frames script < 2 ^ 31 ->
  mrun (sys_init cfg0 nclients) mgs_empty script = Ok (y, G) ->
  forall slot c, al_get slot (y_clients y) = Some c -> mode_of script slot = MLive -> cl_status c = Connected ->
  cfg_track cfg0 = true ->
  forall m, In m (mg_lost (G slot)) -> ~ In (m_tick m) (mg_evs (G slot)).
Proof. exact h2b_lost_never. Qed.

Theorem C12E_pending_not_yet : forall cfg0 nclients script y G,
  sessions_ok script = true -> parts_small script = true -> tick_frames script < 2 ^ 31 ->
  mrun (sys_init cfg0 nclients) mgs_empty script = Ok (y, G) ->
  forall slot c, al_get slot (y_clients y) = Some c -> mode_of script slot = MLive -> cl_status c = Connected ->
  cfg_track cfg0 = true ->
  forall m, In m (cl_buffered c ++ cl_inbox_mut c ++ l_mut (get_link y slot)) -> ~ In (m_tick m) (mg_evs (G slot)).
Proof. exact h2b_pending_not_yet. Qed.

(* the events in the output of ONE client frame: tick T is among them exactly when the frame applies the message that
   completes tick T (counting what earlier frames of the session applied) while T is inside the window *)
Theorem C12E_frame_events : forall cfg0 nclients script y G slot c ops y' o,
  sessions_ok script = true -> parts_small script = true -> tick_frames script < 2 ^ 31 ->
  mrun (sys_init cfg0 nclients) mgs_empty script = Ok (y, G) ->
  al_get slot (y_clients y) = Some c -> mode_of script slot = MLive -> cl_status c = Connected -> cfg_track cfg0 = true ->
  sys_step y (StCFrame slot ops) = Ok (y', o) ->
  exists c' cfo, client_frame c ops = Ok (c', cfo) /\ o = OCFrame slot cfo (client_view c') /\
    mg_appl (mstep y G (StCFrame slot ops) slot) = mg_appl (G slot) ++ frame_applied c /\
    mg_evs (mstep y G (StCFrame slot ops) slot) = mg_evs (G slot) ++ cfo_tick_events cfo /\
    cfo_tick_events cfo = ev_spec (lmax 0 (mg_appl (G slot))) (mg_appl (G slot)) (frame_applied c) /\
    forall T, In T (cfo_tick_events cfo) <->
      exists a1 m a2, frame_applied c = a1 ++ m :: a2 /\ m_tick m = T /\
        N.of_nat (count_tick T (mg_appl (G slot) ++ a1)) + 1 = m_count m /\ lmax 0 (mg_appl (G slot) ++ a1) < T + 64.
Proof. exact h2b_frame_events. Qed.

(* one client frame, any client: the tracker makes one `confirm` call per applied message, the buffer and the mutate
   inbox are split into the applied messages and the ones kept *)
Theorem C12E_client_frame_mt : forall c ops c' out,
  cl_status c = Connected -> client_frame c ops = Ok (c', out) ->
  match cl_mticks c with
  | Some m0 => exists m2 bs, mt_confirm_all m0 (ncalls (frame_applied c)) = Ok (m2, bs) /\ cl_mticks c' = Some m2 /\
                             cfo_tick_events out = fired (frame_applied c) bs
  | None => cl_mticks c' = None /\ cfo_tick_events out = []
  end /\
  cl_status c' = Connected /\ cl_last_not_disconnected c' = true /\ cl_inbox_mut c' = [] /\
  Permutation (cl_buffered c ++ cl_inbox_mut c) (frame_applied c ++ cl_buffered c').
Proof. exact frame_connected_mt. Qed.

(* the invariant itself *)
Theorem C12E_run_invariant : forall cfg0 nclients script y G,
  sessions_ok script = true -> parts_small script = true -> tick_frames script < 2 ^ 31 ->
  mrun (sys_init cfg0 nclients) mgs_empty script = Ok (y, G) -> m_inv cfg0 script y G.
Proof. exact m_inv_run. Qed.

Print Assumptions C12E_hrun_is_run.
Print Assumptions C12E_history_refines.
Print Assumptions C12E_history_windowed.
Print Assumptions C12E_history_none.
Print Assumptions C12E_history_contains.
Print Assumptions C12E_history_contains_windowed.
Print Assumptions C12E_history_contains_any.
Print Assumptions C12E_history_never_forgets.
Print Assumptions C12E_history_never_invents.
Print Assumptions C12E_history_persists.
Print Assumptions C12E_ghost_grows.
Print Assumptions C12E_client_frame.
Print Assumptions C12E_counts_one_client.
Print Assumptions C12E_tracking_always_sends.
Print Assumptions C12E_counts_frame.
Print Assumptions C12E_counts_session.
Print Assumptions C12E_mrun_is_run.
Print Assumptions C12E_mt_replay.
Print Assumptions C12E_mt_clean.
Print Assumptions C12E_mt_accounting.
Print Assumptions C12E_mt_protocol.
Print Assumptions C12E_mt_refines.
Print Assumptions C12E_mt_log.
Print Assumptions C12E_event_iff.
Print Assumptions C12E_event_once.
Print Assumptions C12E_event_complete.
Print Assumptions C12E_lost_never_fires.
Print Assumptions C12E_pending_not_yet.
Print Assumptions C12E_frame_events.
Print Assumptions C12E_client_frame_mt.
Print Assumptions C12E_run_invariant.

(* ================================================================== *)
(* the statements are not vacuous                                     *)
(* ================================================================== *)

(* tracking on; the partitions put every mutated entity into a mutate message of its own (what a maximum message size
   of 1 does).  Entities 1, 2, 3 are spawned at tick 1.
     tick 2: 1 and 2 mutate -> two messages; only the first is delivered: no event for tick 2 yet
     tick 3: a component is INSERTED on 1 (update message), 2 and 3 mutate -> two messages; the one for 3 is DROPPED;
             the late message of tick 2 and the rest arrive together: the event of tick 2 fires in this later frame
             (the message is applied after the one of tick 3 and is outdated for entity 2: it does not confirm it)
     tick 4: everything still unacknowledged is sent again, one entity per message: entity 1 is confirmed a fourth time
     then the client is disconnected, runs a frame (reset) and reconnects: new client entities, a pristine tracker *)
Definition xcfg : cfg := mkCfg PAll AuthNone true 1000.
Definition xfr (ops : list sop) (p : partition) : step := StSFrame true 10 false ops [(0, p)].

Definition xs : list step :=
  [StStart; StConnect 0 1;
   xfr [SSpawn 1 true [(0, VNat 1)]; SSpawn 2 true [(0, VNat 5)]; SSpawn 3 true [(0, VNat 7)]] [[]];
   StDeliver 0 true 0 All; StDeliver 0 true 1 All; StCFrame 0 [];
   xfr [SMutate 1 0 (VNat 2); SMutate 2 0 (VNat 6)] [[1]; [2]];
   StDeliver 0 true 1 First; StCFrame 0 [];
   xfr [SInsert 1 1 (VNat 9); SMutate 2 0 (VNat 8); SMutate 3 0 (VNat 1)] [[2]; [3]];
   StDrop 0 true 1 Last; StDeliver 0 true 0 All; StDeliver 0 true 1 All; StCFrame 0 [];
   xfr [SMutate 1 0 (VNat 3)] [[1]; [2]; [3]];
   StDeliver 0 true 1 All; StCFrame 0 [];
   StDisconnect 0; StCFrame 0 []; StConnect 0 1;
   xfr [] [[]]; StDeliver 0 true 0 All; StDeliver 0 true 1 All; StCFrame 0 []].

Example C12E_ex_script :
  sessions_ok xs = true /\ parts_small xs = true /\ tick_frames xs = 5 /\ legal xs = true /\
  mode_of (firstn 17 xs) 0 = MLive /\ mode_of (firstn 18 xs) 0 = MLeft /\ mode_of (firstn 19 xs) 0 = MClean /\ mode_of xs 0 = MLive.
Proof. vm_compute. repeat split; reflexivity. Qed.

(* the outputs of a run *)
Fixpoint run_outs (y : sys) (script : list step) : list out :=
  match script with
  | [] => []
  | st :: r => match sys_step y st with Ok (y', o) => o :: run_outs y' r | _ => [OPanic] end
  end.
Definition cf_events (o : out) : option (list N) :=
  match o with OCFrame _ cfo _ => Some (cfo_tick_events cfo) | _ => None end.
(* per mutate message of a server frame: tick, count, update tick, entities; was a proposed partition rejected *)
Definition sf_muts (o : out) :=
  match o with
  | OSFrame fo _ => Some (map (fun co => (map (fun m => (m_tick m, m_count m, m_upd_tick m, map fst (m_body m))) (co_mutates co), co_bad_partition co)) (fo_clients fo))
  | _ => None
  end.
Fixpoint somes {A} (l : list (option A)) : list A :=
  match l with [] => [] | Some a :: r => a :: somes r | None :: r => somes r end.

(* what the server sent, frame by frame, and the events of the client frames: tick 2 fires in the THIRD client frame,
   tick 3 never, nothing in the frame that resets the client *)
Example C12E_ex_outputs :
  somes (map sf_muts (run_outs (sys_init xcfg 1) xs))
    = [[([(1, 1, 1, [])], false)];
       [([(2, 2, 1, [1]); (2, 2, 1, [2])], false)];
       [([(3, 2, 3, [2]); (3, 2, 3, [3])], false)];
       [([(4, 3, 3, [1]); (4, 3, 3, [2]); (4, 3, 3, [3])], false)];
       [([(5, 1, 5, [])], false)]] /\
  somes (map cf_events (run_outs (sys_init xcfg 1) xs)) = [[1]; []; [2]; [4]; []; [5]].
Proof. vm_compute. split; reflexivity. Qed.

(* H1: client entities with their history (last tick, mask) and their ghost sets; the entity map *)
Definition hist_view (r : res (sys * hghosts)) (slot : N) :=
  match r with
  | Ok (y, G) =>
    match al_get slot (y_clients y) with
    | Some c => Some (map (fun kv => (fst kv, ce_alive (snd kv),
                                      match ce_hist (snd kv) with Some h => Some (h_last h, h_mask h) | None => None end,
                                      G slot (fst kv))) (cl_ents c), cl_s2c c)
    | None => None
    end
  | _ => None
  end.

(* after the fourth client frame: entity 1 (client entity 0) was confirmed by the spawn (1), a mutate message (2), the
   insertion (3) and a mutate message (4): mask 1111; entity 2 was NOT confirmed by the late message of tick 2: mask 1011.
   In the second session the server entities land on new client entities 3, 4, 5; the old ones keep their histories *)
Example C12E_ex_histories :
  hist_view (hrun (sys_init xcfg 1) hgs_empty (firstn 17 xs)) 0
    = Some ([(0, true, Some (4, 15), [4; 3; 2; 1]); (1, true, Some (4, 11), [4; 3; 1]); (2, true, Some (4, 9), [4; 1])],
            [(1, 0); (2, 1); (3, 2)]) /\
  hist_view (hrun (sys_init xcfg 1) hgs_empty xs) 0
    = Some ([(0, true, Some (4, 15), [4; 3; 2; 1]); (1, true, Some (4, 11), [4; 3; 1]); (2, true, Some (4, 9), [4; 1]);
             (3, true, Some (5, 1), [5]); (4, true, Some (5, 1), [5]); (5, true, Some (5, 1), [5])],
            [(1, 3); (2, 4); (3, 5)]).
Proof. vm_compute. split; reflexivity. Qed.

(* C12E_history_refines and the queries instantiated on the run: every alive entity with a history, at the end *)
Example C12E_ex_history_instance :
  exists y G, hrun (sys_init xcfg 1) hgs_empty xs = Ok (y, G) /\
    forall slot c cid x h, al_get slot (y_clients y) = Some c -> get_cent c cid = Some x -> ce_alive x = true -> ce_hist x = Some h ->
      hist_R h (Z.of_N (h_last h)) (zticks (G slot cid)) /\
      (forall t, In t (G slot cid) -> hist_contains h t = true) /\
      (forall t, small_tick t -> hist_contains h t = true -> h_last h < t + 64 -> In t (G slot cid)).
Proof.
  destruct (hrun (sys_init xcfg 1) hgs_empty xs) as [[y G]| |] eqn:E; [|vm_compute in E; discriminate..].
  exists y, G. split; [reflexivity|]. intros slot c cid x h Hc Hx Ha Hh.
  assert (HB : tick_frames xs < 2 ^ 31) by (vm_compute; reflexivity).
  pose proof (C12E_history_refines xcfg 1 xs y G slot c cid x h HB E Hc Hx Ha Hh) as Hg.
  split; [exact (proj2 (proj2 (proj2 Hg)))|]. split.
  - exact (C12E_history_never_forgets h _ Hg).
  - exact (C12E_history_never_invents h _ Hg).
Qed.

(* H2: the tracker (last tick, mask of the fully received ticks) and the ghost: (tick, count) of the messages sent /
   applied / lost, the events *)
Definition mt_view (r : res (sys * mghosts)) (slot : N) :=
  match r with
  | Ok (y, G) =>
    match al_get slot (y_clients y) with
    | Some c => Some (match cl_mticks c with Some m => Some (mt_last m, match mt_mask m with Ok k => k | _ => 0 end) | None => None end,
                      ncalls (mg_sent (G slot)), ncalls (mg_appl (G slot)), ncalls (mg_lost (G slot)), mg_evs (G slot))
    | None => None
    end
  | _ => None
  end.

(* end of the first session: ticks 4, 2, 1 fully received (mask 1101 at last tick 4), the message of tick 2 applied
   after the one of tick 3, one message of tick 3 lost and its event missing; after `StDisconnect` + one client frame:
   the tracker of `default()`; in the second session only what was sent in it *)
Example C12E_ex_trackers :
  mt_view (mrun (sys_init xcfg 1) mgs_empty (firstn 17 xs)) 0
    = Some (Some (4, 13), [(1, 1); (2, 2); (2, 2); (3, 2); (3, 2); (4, 3); (4, 3); (4, 3)],
            [(1, 1); (2, 2); (3, 2); (2, 2); (4, 3); (4, 3); (4, 3)], [(3, 2)], [1; 2; 4]) /\
  mt_view (mrun (sys_init xcfg 1) mgs_empty (firstn 19 xs)) 0 = Some (Some (0, 0), [], [], [], []) /\
  mt_view (mrun (sys_init xcfg 1) mgs_empty xs) 0 = Some (Some (5, 1), [(5, 1)], [(5, 1)], [], [5]).
Proof. vm_compute. repeat split; reflexivity. Qed.

(* C12E_mt_refines / C12E_event_once / C12E_lost_never_fires / C12E_mt_accounting instantiated at the end of the first
   session, C12E_mt_clean after the reset *)
Example C12E_ex_mt_instance :
  (exists y G, mrun (sys_init xcfg 1) mgs_empty (firstn 17 xs) = Ok (y, G) /\
     forall c, al_get 0 (y_clients y) = Some c -> cl_status c = Connected ->
       (exists m, cl_mticks c = Some m /\
          mt_R m (Z.of_N (lmax 0 (mg_appl (G 0)))) (snd (fst (mspec_confirm_all 0 mlog_empty (zcalls (mg_appl (G 0))))))) /\
       NoDup (mg_evs (G 0)) /\ (forall m, In m (mg_lost (G 0)) -> ~ In (m_tick m) (mg_evs (G 0))) /\
       Permutation (mg_sent (G 0)) (mg_appl (G 0) ++ cl_buffered c ++ cl_inbox_mut c ++ l_mut (get_link y 0) ++ mg_lost (G 0))) /\
  (exists y G, mrun (sys_init xcfg 1) mgs_empty (firstn 19 xs) = Ok (y, G) /\
     forall c, al_get 0 (y_clients y) = Some c -> cl_mticks c = Some mt_default).
Proof.
  split.
  - destruct (mrun (sys_init xcfg 1) mgs_empty (firstn 17 xs)) as [[y G]| |] eqn:E; [|vm_compute in E; discriminate..].
    exists y, G. split; [reflexivity|]. intros c Hc Hst.
    assert (H1 : sessions_ok (firstn 17 xs) = true) by (vm_compute; reflexivity).
    assert (H2 : parts_small (firstn 17 xs) = true) by (vm_compute; reflexivity).
    assert (H3 : tick_frames (firstn 17 xs) < 2 ^ 31) by (vm_compute; reflexivity).
    assert (H4 : mode_of (firstn 17 xs) 0 = MLive) by (vm_compute; reflexivity).
    split; [|split; [|split]].
    + destruct (C12E_mt_refines xcfg 1 _ y G H1 H2 H3 E 0 c Hc H4 Hst eq_refl) as (m & A & B & _). exists m. auto.
    + exact (C12E_event_once xcfg 1 _ y G H1 H2 H3 E 0 c Hc H4 Hst eq_refl).
    + exact (C12E_lost_never_fires xcfg 1 _ y G H1 H2 H3 E 0 c Hc H4 Hst eq_refl).
    + exact (C12E_mt_accounting xcfg 1 _ y G H1 H2 H3 E 0 c Hc H4 Hst).
  - destruct (mrun (sys_init xcfg 1) mgs_empty (firstn 19 xs)) as [[y G]| |] eqn:E; [|vm_compute in E; discriminate..].
    exists y, G. split; [reflexivity|]. intros c Hc.
    assert (H1 : sessions_ok (firstn 19 xs) = true) by (vm_compute; reflexivity).
    assert (H2 : parts_small (firstn 19 xs) = true) by (vm_compute; reflexivity).
    assert (H3 : tick_frames (firstn 19 xs) < 2 ^ 31) by (vm_compute; reflexivity).
    assert (H4 : mode_of (firstn 19 xs) 0 = MClean) by (vm_compute; reflexivity).
    exact (proj1 (C12E_mt_clean xcfg 1 _ y G H1 H2 H3 E 0 c Hc (or_introl H4))).
Qed.

(* ---- why the window condition is in C12E_event_iff / C12E_frame_events ----
   Tick 2 has two messages; the second is held back while [k] further ticks pass (each with one message re-sending the
   unacknowledged mutation of entity 2), then EVERYTHING is delivered and applied in ONE frame.  `apply_mutate_messages`
   walks the buffer newest first, so the tracker's last tick is 2 + k when the second message of tick 2 is confirmed.
   With k = 63 the event of tick 2 fires; with k = 64 all `m_count` messages of tick 2 have been applied (the ghost
   shows both) and the event of tick 2 is NOT emitted, in that frame or ever. *)
Definition ws (k : nat) : list step :=
  [StStart; StConnect 0 1;
   xfr [SSpawn 1 true [(0, VNat 1)]; SSpawn 2 true [(0, VNat 5)]] [[]];
   StDeliver 0 true 0 All; StDeliver 0 true 1 All; StCFrame 0 []; StDeliver 0 false 0 All;
   xfr [SMutate 1 0 (VNat 2); SMutate 2 0 (VNat 6)] [[1]; [2]];
   StDeliver 0 true 1 First; StCFrame 0 []; StDeliver 0 false 0 All]
  ++ repeat (xfr [] [[2]]) k ++ [StDeliver 0 true 1 All; StCFrame 0 []].

Definition ws_view (k : nat) :=
  (sessions_ok (ws k) && parts_small (ws k) && legal (ws k),
   match mrun (sys_init xcfg 1) mgs_empty (ws k) with
   | Ok (y, G) => Some (count_tick 2 (mg_sent (G 0)), count_tick 2 (mg_appl (G 0)), existsb (N.eqb 2) (mg_evs (G 0)),
                        length (mg_evs (G 0)), ncalls (mg_lost (G 0)),
                        match al_get 0 (y_clients y) with Some c => length (cl_buffered c ++ cl_inbox_mut c ++ l_mut (get_link y 0)) | None => 0%nat end)
   | _ => None
   end,
   last (somes (map cf_events (run_outs (sys_init xcfg 1) (ws k)))) []).

Example C12E_ex_window :
  fst (ws_view 63) = (true, Some (2%nat, 2%nat, true, 65%nat, [], 0%nat)) /\ existsb (N.eqb 2) (snd (ws_view 63)) = true /\
  fst (ws_view 64) = (true, Some (2%nat, 2%nat, false, 65%nat, [], 0%nat)) /\ existsb (N.eqb 2) (snd (ws_view 64)) = false /\
  length (snd (ws_view 64)) = 64%nat.
Proof. vm_compute. repeat split; reflexivity. Qed.
