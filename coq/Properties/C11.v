(* C11 -- "A mutation keeps being re-sent every tick until the client acknowledges a message
   containing it and stops being re-sent afterwards; lost or late acknowledgements, and
   acknowledgements naming unknown messages, never cause data to be skipped.  When nothing
   replicated changes and everything has been acknowledged the server sends no replication
   messages at all, unless per-tick mutate-message tracking was requested, and it resumes with
   the next change."

   Statements about the Layer 1 model (Repl.Server on Repl.ClientTicks); proofs are in
   Repl/Ack_proofs.v.  All statements hold for ALL model states (no reachability invariant is
   assumed beyond the hypotheses written out). *)
From RV Require Import Lib.Res Repl.ClientTicks Repl.ClientTicks_proofs Wire.AckCodec Wire.AckCodec_proofs.
From RV Require Import Repl.World Repl.Server Repl.Client Repl.Sys Vis.Visibility Repl.Ack_proofs.
Open Scope N_scope.

(* ---- re-sending -------------------------------------------------------------------------- *)

(* per entity: a component that is sent every tick and whose change stamp is newer than the
   stamp the client acknowledged for the entity is in this tick's mutate data or in the entity's
   entry of the update message *)
Theorem C11_resend_until_acked : forall last_run tick rb ticks st e x madd ec k comp t,
  collect_entity last_run tick rb ticks st e x madd = Ok ec ->
  st <> VHidden ->
  In (k, comp) (se_comps x) -> rate_of k = EveryTick ->
  mutation_tick ticks e = Some t -> t < c_changed comp ->
  In (k, c_val comp) (ec_muts ec) \/
  exists entry, ec_entry ec = Some entry /\ In (k, c_val comp) entry.
Proof. exact resend_until_acked. Qed.

(* per client: ... and therefore in the client's update message or in the body of one of its
   mutate messages, whatever partition was proposed (the model falls back to one message when
   the proposal is not a partition) *)
Theorem C11_resend_until_acked_client : forall c s run cl p cl' out e x madd k comp t,
  send_for_client c s run cl p = Ok (cl', out) ->
  NoDup (al_keys (sv_ents s)) ->
  In (e, x, madd) (replicated_ents s) ->
  (let '(_, ticks1, vis1) := collect_despawns (sv_despawn_buf s) (sc_ticks cl) (sc_vis cl) in
   vis_state_of vis1 e <> VHidden /\ mutation_tick ticks1 e = Some t) ->
  In (k, comp) (se_comps x) -> rate_of k = EveryTick -> t < c_changed comp ->
  sent_in_update out e k (c_val comp) \/ sent_in_mutate out e k (c_val comp).
Proof. exact resend_until_acked_client. Qed.

(* "exactly one": when the proposed partition was accepted no entity occurs in two mutate
   messages of the tick (nor twice in one) *)
Theorem C11_mutate_bodies_disjoint : forall c s run cl p cl' out,
  send_for_client c s run cl p = Ok (cl', out) -> co_bad_partition out = false ->
  NoDup (map fst (concat (map m_body (co_mutates out)))).
Proof. exact mutate_bodies_disjoint. Qed.

(* the "stop" half: an entity whose every component is not newer than the acknowledged stamp
   (and that has nothing new: marker, components, removals) contributes nothing, and its stamp
   is left alone *)
Theorem C11_acked_not_resent : forall last_run tick rb ticks e x madd t,
  mutation_tick ticks e = Some t ->
  (last_run <? madd) = false ->
  al_get e rb = None ->
  (forall k comp, In (k, comp) (se_comps x) -> c_changed comp <= t /\ c_added comp <= last_run) ->
  collect_entity last_run tick rb ticks VVisible e x madd = Ok (mkEC None [] false).
Proof. exact acked_not_resent. Qed.

(* ---- acknowledgements -------------------------------------------------------------------- *)

(* acknowledgements naming no in-flight message of their sender, or coming from a slot that is
   not an authorized client, change no client record; `receive_acks` never touches the world *)
Theorem C11_junk_acks_harmless : forall s,
  (forall cl m, In cl (sv_clients s) -> In m (sv_inbox_acks s) -> junk_for cl m) ->
  sv_clients (receive_acks s) = sv_clients s /\
  sv_ents (receive_acks s) = sv_ents s /\ sv_despawn_buf (receive_acks s) = sv_despawn_buf s /\
  sv_removal_buf (receive_acks s) = sv_removal_buf s /\ sv_tick (receive_acks s) = sv_tick s.
Proof. intros s H. split; [exact (junk_acks_harmless s H)|repeat split]. Qed.

(* isolation: `receive_acks` maps every record through [ack_client], which reads only the
   indices sent under the record's own slot and can change only `sc_ticks` *)
Theorem C11_acks_isolated : forall s,
  sv_clients (receive_acks s) = map (ack_client (sv_now s) (sv_inbox_acks s)) (sv_clients s) /\
  (forall now inbox inbox' cl, acks_for (sc_slot cl) inbox = acks_for (sc_slot cl) inbox' ->
                               ack_client now inbox cl = ack_client now inbox' cl) /\
  (forall now inbox cl, (forall m, In m inbox -> fst m <> sc_slot cl) -> ack_client now inbox cl = cl) /\
  (forall now inbox cl, sc_authorized cl = false -> ack_client now inbox cl = cl) /\
  (forall now inbox cl, sc_slot (ack_client now inbox cl) = sc_slot cl /\
                        sc_authorized (ack_client now inbox cl) = sc_authorized cl /\
                        sc_max_size (ack_client now inbox cl) = sc_max_size cl /\
                        sc_vis (ack_client now inbox cl) = sc_vis cl /\
                        sc_pending_map (ack_client now inbox cl) = sc_pending_map cl).
Proof.
  intros s. split; [apply receive_acks_clients|]. split; [exact ack_client_own_slot|].
  split; [exact ack_client_silent|]. split; [exact ack_client_unauthorized|exact ack_client_frame].
Qed.

(* an acknowledgement that arrives after `cleanup_acks` dropped its entry is an unknown index *)
Theorem C11_late_ack_after_cleanup_is_junk : forall ct min_ts run idx info,
  ct_wf ct -> al_get idx (ct_mutations ct) = Some info -> mi_timestamp info < min_ts ->
  ack_mutate_message (cleanup_older_mutations ct min_ts) run idx = cleanup_older_mutations ct min_ts.
Proof. exact late_ack_after_cleanup_is_junk. Qed.

(* an acknowledgement leaves a stamp alone or sets it to the tick of the acknowledged message,
   and only for entities listed in that message *)
Theorem C11_ack_bounded_by_message_tick : forall ct run idx e,
  mutation_tick (ack_mutate_message ct run idx) e = mutation_tick ct e \/
  exists info old, al_get idx (ct_mutations ct) = Some info /\ In e (mi_entities info) /\
                   mutation_tick ct e = Some old /\
                   mutation_tick (ack_mutate_message ct run idx) e = Some (mi_tick info).
Proof. exact ack_bounded_by_message_tick. Qed.

(* so a change newer than the old stamp and newer than the acknowledged messages that list the
   entity stays newer than the stamp (and [C11_resend_until_acked] keeps applying to it) *)
Theorem C11_ack_never_skips_data : forall ct run idxs e old ch,
  mutation_tick ct e = Some old -> old < ch ->
  (forall idx info, In idx idxs -> al_get idx (ct_mutations ct) = Some info -> In e (mi_entities info) -> mi_tick info < ch) ->
  exists t', mutation_tick (ack_all ct run idxs) e = Some t' /\ t' < ch.
Proof. exact ack_all_never_skips_data. Qed.

(* ---- silence ----------------------------------------------------------------------------- *)

(* a client for which nothing is pending gets no update message and no mutate data: no mutate
   message at all without tracking, exactly one header-only message (count 1) with tracking;
   its record changes only by the registration of that message *)
Theorem C11_idle_server_silent : forall c s run cl p,
  quiescent_for s cl ->
  send_for_client c s run cl p =
  Ok (silent_client c s run cl,
      mkCO (sc_slot cl) None (silent_msgs c s (sc_ticks cl)) (negb (partition_ok (cfg_track c) [] p))).
Proof. exact idle_server_silent. Qed.

Theorem C11_silent_shapes : forall c s cl b,
  silent_out c (mkCO (sc_slot cl) None (silent_msgs c s (sc_ticks cl)) b) /\
  (cfg_track c = false -> silent_msgs c s (sc_ticks cl) = [] /\ forall run, silent_client c s run cl = mkSC (sc_slot cl) true (sc_max_size cl) (sc_ticks cl) (sc_vis cl) []) /\
  (cfg_track c = true -> silent_msgs c s (sc_ticks cl) = [mkMut (ct_update_tick (sc_ticks cl)) (sv_tick s) 1 (ct_mutate_index (sc_ticks cl)) []]).
Proof.
  intros c s cl b. split; [apply silent_msgs_silent|]. unfold silent_msgs, silent_client, silent_ticks.
  split; intros ->; auto.
Qed.

(* silence is stable: a running quiescent server that executes a frame without operations and
   with an empty inbox sends only silent outputs and is quiescent again *)
Theorem C11_silence_stable : forall c s tick dt cleanup parts,
  sv_running s = true -> quiescent s ->
  exists s' fo, server_frame c s tick dt cleanup [] parts = Ok (s', fo) /\
                quiescent s' /\ sv_running s' = true /\ Forall (silent_out c) (fo_clients fo).
Proof. exact silence_stable. Qed.

(* ... and it resumes with the next change: after a mutation of an every-tick component of a
   visible entity the new value is in the client's next messages *)
Theorem C11_resume_after_change : forall c s run cl p e x madd k old v t cl' out,
  quiescent_for s cl -> NoDup (al_keys (sv_ents s)) ->
  get_ent s e = Some x -> se_alive x = true -> se_marker x = Some madd ->
  al_get k (se_comps x) = Some old -> val_ok s v = true -> rate_of k = EveryTick ->
  vis_state_of (sc_vis cl) e = VVisible ->
  mutation_tick (sc_ticks cl) e = Some t -> t < sv_now s ->
  send_for_client c (apply_sop s (SMutate e k v)) run cl p = Ok (cl', out) ->
  sent_in_update out e k v \/ sent_in_mutate out e k v.
Proof. exact resume_after_change. Qed.

Print Assumptions C11_resend_until_acked.
Print Assumptions C11_resend_until_acked_client.
Print Assumptions C11_mutate_bodies_disjoint.
Print Assumptions C11_acked_not_resent.
Print Assumptions C11_junk_acks_harmless.
Print Assumptions C11_acks_isolated.
Print Assumptions C11_late_ack_after_cleanup_is_junk.
Print Assumptions C11_ack_bounded_by_message_tick.
Print Assumptions C11_ack_never_skips_data.
Print Assumptions C11_idle_server_silent.
Print Assumptions C11_silent_shapes.
Print Assumptions C11_silence_stable.
Print Assumptions C11_resume_after_change.

(* ---- non-vacuity: a concrete run ----------------------------------------------------------- *)

Definition c11_cfg (track : bool) : cfg := mkCfg PAll AuthNone track 1000.
Definition c11_frame (ops : list sop) : step := StSFrame true 16 false ops [].

(* the replication messages of every server frame of a script, oldest first *)
Fixpoint c11_outs (y : sys) (script : list step) : list (list client_out) :=
  match script with
  | [] => []
  | st :: r =>
    match sys_step y st with
    | Ok (y', OSFrame fo _) => fo_clients fo :: c11_outs y' r
    | Ok (y', _) => c11_outs y' r
    | _ => []
    end
  end.

Definition c11_script : list step :=
  [StStart; StConnect 0 1200; c11_frame [SSpawn 1 true [(0, VNat 5)]];
   StDeliver 0 true 0 All; StCFrame 0 [];
   c11_frame [SMutate 1 0 (VNat 6)];       (* sent, index 0 *)
   c11_frame [];                           (* not acknowledged: sent again, index 1 *)
   StDeliver 0 true 1 All; StCFrame 0 []; StDeliver 0 false 0 All;
   c11_frame [];                           (* acknowledged: silence *)
   c11_frame [];                           (* still silent *)
   c11_frame [SMutate 1 0 (VNat 7)]].      (* resumes *)

Example C11_run_resend_stop_resume :
  c11_outs (sys_init (c11_cfg false) 1) c11_script =
  [ [mkCO 0 (Some (mkUpd 1 [] [] [] [(1, [(0, VNat 5)])])) [] false];
    [mkCO 0 None [mkMut 1 2 1 0 [(1, [(0, VNat 6)])]] true];
    [mkCO 0 None [mkMut 1 3 1 1 [(1, [(0, VNat 6)])]] true];
    [mkCO 0 None [] false];
    [mkCO 0 None [] false];
    [mkCO 0 None [mkMut 1 6 1 2 [(1, [(0, VNat 7)])]] true] ].
Proof. vm_compute. reflexivity. Qed.

(* with tracking the silent ticks carry one header-only mutate message *)
Example C11_run_tracking :
  c11_outs (sys_init (c11_cfg true) 1)
           [StStart; StConnect 0 1200; c11_frame [SSpawn 1 true [(0, VNat 5)]]; c11_frame []; c11_frame []] =
  [ [mkCO 0 (Some (mkUpd 1 [] [] [] [(1, [(0, VNat 5)])])) [mkMut 1 1 1 0 []] true];
    [mkCO 0 None [mkMut 1 2 1 1 []] true];
    [mkCO 0 None [mkMut 1 3 1 2 []] true] ].
Proof. vm_compute. reflexivity. Qed.

(* the server state after the second silent frame of [c11_script] *)
Definition c11_idle : server :=
  Eval vm_compute in
    match run (sys_init (c11_cfg false) 1) (firstn 12 c11_script) with Ok y => y_server y | _ => server_init end.

(* the hypotheses of C11_idle_server_silent / C11_silence_stable are satisfiable by a reachable state *)
Example C11_quiescent_reachable : sv_running c11_idle = true /\ sv_clients c11_idle <> [] /\ quiescent c11_idle.
Proof.
  split; [reflexivity|]. split; [discriminate|].
  split; [reflexivity|]. split; [reflexivity|]. split; [vm_compute; discriminate|].
  intros cl [<-|[]] _. split; [reflexivity|]. split; [reflexivity|]. split; [reflexivity|]. split; [exact I|].
  intros e x madd Hin. vm_compute in Hin. destruct Hin as [Hin|[]]. inversion Hin; subst. right.
  split; [reflexivity|]. exists 3. split; [reflexivity|]. split; [reflexivity|].
  intros k comp [Hk|[]]. inversion Hk; subst. cbn. split; discriminate.
Qed.

(* the hypotheses of C11_resend_until_acked: state before the re-send frame of [c11_script] *)
Example C11_unacked_instance :
  match run (sys_init (c11_cfg false) 1) (firstn 6 c11_script) with
  | Ok y =>
    match sv_clients (y_server y), get_ent (y_server y) 1 with
    | [cl], Some x =>
      mutation_tick (sc_ticks cl) 1 = Some 1 /\ al_get 0 (se_comps x) = Some (mkComp (VNat 6) 1 2) /\ rate_of 0 = EveryTick
    | _, _ => False
    end
  | _ => False
  end.
Proof. vm_compute. repeat split. Qed.

(* junk: indices 7 and 9 were never handed out, slot 3 is no client; nothing changes *)
Example C11_junk_instance :
  let s := deliver_acks (deliver_acks c11_idle 0 [7; 9]) 0 [9] in
  sv_inbox_acks s = [(0, [7; 9]); (0, [9])] /\ sv_clients (receive_acks s) = sv_clients c11_idle.
Proof. vm_compute. split; reflexivity. Qed.

(* a late acknowledgement: index 0 was in flight at timestamp 32 and is dropped by a cleanup with
   minimum 40; acknowledging it afterwards leaves the stamp where it was (data stays unacknowledged) *)
Example C11_late_ack_instance :
  let ct := mkCT [(1, 1)] 1 [(0, mkMI 2 32 [1])] 1 in
  mutation_tick (ack_mutate_message ct 5 0) 1 = Some 2 /\
  mutation_tick (ack_mutate_message (cleanup_older_mutations ct 40) 5 0) 1 = Some 1.
Proof. vm_compute. split; reflexivity. Qed.
