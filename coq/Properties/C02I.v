(* C02 / C01 end to end, at the value level, WITH THE `Once` SEND RATE (component kind 2 of the harness pool): the theorems of
   Properties/C02G.v - T `C02G_truthful`, K `C02G_ack_sound`, Q `C02G_converged` - for scripts whose components are of any
   kind but 4 (`Periodic`).

   Scope ([script_scopeo], Repl/ValOnceE2E_proofs.v), for runs `Sys.run (sys_init cfg n) script = Ok y`, any policy:
     script_okf      legal && sessions_ok, no `SMap` (as C02G; the mappings of Properties/C02H.v are NOT combined with `Once` here)
     script_valso    every `SSpawn` / `SInsert` / `SMutate` uses a kind other than 4; any value (instead of `script_valsr`)
     no_tick0, tick_frames < 2^31, regs_of < 2^16, refs_kept      as C02G
   Every script in the scope of C02G is in this scope (`C02I_scope_of_C02G`).

   What the model does with kind 2 (`World.rate_of 2 = Once`, `ServerSpec.sm 2 _ = false`): the component travels with its
   insertion, or when its entity is sent whole (new to the client, visibility regained, re-replicated); its later `SMutate`s
   are never sent.  Note (Bevy semantics, modelled in `Server.apply_sop`): `SInsert` on a component the entity already has
   keeps its `c_added` stamp, so it is a change, not an insertion - a RE-insertion is `SRemove` followed by `SInsert`.

   T for kind 2 (`C02I_truthful`, last conjunct): the client value stands for the value that the SAME INSTANCE of the
   component (same `c_added` stamp as in the snapshot of the confirmed tick: never removed and inserted again in between)
   had in a prefix state of the current session, with tick <= the confirmed tick, in which the entity was visible to the
   client.  For the other kinds T is as in C02G (value of the snapshot of the confirmed tick).  The statement does not say
   WHICH such prefix state ("the last one at which the server sent the component"): that refinement is open.
   Q (`C02I_converged`) speaks about the kinds with `kind_et` only, under a premise ([quiescent_for_o]) that does not ask a
   `Once` component to be unchanged since the acknowledged stamp ([Ack_proofs.quiescent_for] does, and implies it:
   `C02I_quiescent_weaken`).  K is unchanged.

   Proof architecture: port of the C02G stack (Repl/ValRef*.v) to Repl/ValOnce*.v; new ingredients: the history keeps
   INSTANCES ([keeps_added]), entries leave out a kind-2 component only if it was ADDED at or before the acknowledged stamp
   ([entry_sinceo]), which needs a new server-side invariant per client record ([once_known], kept by acknowledgements,
   cleanup, game operations and `send_for_client`: `sendo_known`).
   Files: Repl/ValOnceSpec.v, ValOnceHist_proofs.v, ValOnceCli_proofs.v, ValOnceSrv_proofs.v, ValOnceFrame_proofs.v,
   ValOnceE2E_proofs.v. *)
From RV Require Import Lib.Res Repl.ClientTicks Repl.World Vis.Visibility Repl.Server Repl.ServerSpec
  Repl.StructSpec Repl.StructVisSpec Repl.Client Repl.Sys Repl.Ack_proofs Repl.Converge Repl.Witness
  Repl.ClientStructSpec Repl.ClientStruct_proofs Repl.StructE2E_proofs Repl.StructE2EMut_proofs Repl.StructE2ESess_proofs
  Repl.ValSpec Repl.ValSnap_proofs Repl.ValHist_proofs Repl.ValE2E_proofs
  Repl.ValVisSpec Repl.ValVisHist_proofs Repl.ValVisE2E_proofs
  Repl.ValRefSpec Repl.ValRefHist_proofs Repl.ValRefCheck_proofs Repl.ValRefE2E_proofs
  Repl.ValOnceSpec Repl.ValOnceHist_proofs Repl.ValOnceCli_proofs Repl.ValOnceSrv_proofs Repl.ValOnceE2E_proofs Tick.ConfirmHistory.
From Coq Require Import Lia.
Open Scope N_scope.

(* ================================================================== *)
(* the scope                                                          *)
(* ================================================================== *)

Theorem C02I_scope : forall cfg0 nclients script,
  script_scopeo cfg0 nclients script <->
  (script_okf script = true /\ script_valso script = true /\ no_tick0 script = true /\ tick_frames script < 2 ^ 31 /\
   (forall slot, regs_of (sys_init cfg0 nclients) script slot < 2 ^ 16) /\
   forall slot, In slot (client_slots nclients) -> refs_kept cfg0 nclients script slot).
Proof. exact (fun cfg0 nclients script => conj (fun H => H) (fun H => H)). Qed.
Print Assumptions C02I_scope.

Theorem C02I_kinds : forall k, kind_ok k = negb (k =? 4).
Proof. exact (fun k => eq_refl). Qed.
Print Assumptions C02I_kinds.

(* decidable sufficient conditions *)
Theorem C02I_scope_by_bound : forall cfg0 nclients script,
  script_okf script = true -> script_valso script = true -> no_tick0 script = true -> tick_frames script < 2 ^ 31 ->
  regs_all (sys_init cfg0 nclients) script < 2 ^ 16 -> refs_keptb_all cfg0 nclients script = true ->
  script_scopeo cfg0 nclients script.
Proof. exact scopeo_by_bound. Qed.
Print Assumptions C02I_scope_by_bound.

Theorem C02I_scope_of_C02G : forall cfg0 nclients script,
  script_scoper cfg0 nclients script -> script_scopeo cfg0 nclients script.
Proof. exact scoper_scopeo. Qed.
Print Assumptions C02I_scope_of_C02G.

(* ================================================================== *)
(* the history keeps the instances of the components                  *)
(* ================================================================== *)

Theorem C02I_history : forall cfg0 nclients script y,
  script_valso script = true -> tick_frames script < 2 ^ 31 ->
  run (sys_init cfg0 nclients) script = Ok y -> srv_histo cfg0 nclients script (y_server y).
Proof. exact histo_run. Qed.
Print Assumptions C02I_history.

(* the invariant of every run in scope *)
Theorem C02I_invariant : forall cfg0 nclients script y,
  script_scopeo cfg0 nclients script -> run (sys_init cfg0 nclients) script = Ok y -> w_invo cfg0 nclients script y.
Proof. exact wo_run. Qed.
Print Assumptions C02I_invariant.

(* ================================================================== *)
(* T                                                                  *)
(* ================================================================== *)

Theorem C02I_truthful : forall cfg0 nclients script y slot c e cid x h,
  script_scopeo cfg0 nclients script -> run (sys_init cfg0 nclients) script = Ok y ->
  al_get slot (y_clients y) = Some c -> mode_of script slot = MLive -> cl_status c = Connected ->
  al_get e (cl_s2c c) = Some cid -> get_cent c cid = Some x -> ce_alive x = true -> ce_marker x = true -> ce_hist x = Some h ->
  exists pre post y1 cl1 x1, script = pre ++ post /\ run (sys_init cfg0 nclients) pre = Ok y1 /\
    forallb (fun st => negb (ends_session slot st)) post = true /\
    sv_tick (y_server y1) = h_last h /\
    find_client (y_server y1) slot = Some cl1 /\ vis_visible (sc_vis cl1) e = true /\
    al_get e (struct_vis (y_server y1) cl1) = Some (map fst (se_comps x1)) /\
    repl_get (y_server y1) e = Some x1 /\
    kinds_equiv (map fst (ce_comps x)) (map fst (se_comps x1)) /\
    (forall k cv c0, k <> 2 -> al_get k (ce_comps x) = Some cv -> al_get k (se_comps x1) = Some c0 -> vrel c (c_val c0) cv) /\
    (forall cv c0, al_get 2 (ce_comps x) = Some cv -> al_get 2 (se_comps x1) = Some c0 ->
       exists pre0 post0 y0 x0 c00, script = pre0 ++ post0 /\ run (sys_init cfg0 nclients) pre0 = Ok y0 /\
         forallb (fun st => negb (ends_session slot st)) post0 = true /\
         sv_tick (y_server y0) <= h_last h /\ sv_last_run (y_server y0) <= sv_last_run (y_server y1) /\
         vrepl slot (y_server y0) e = Some x0 /\ al_get 2 (se_comps x0) = Some c00 /\
         c_added c00 = c_added c0 /\ vrel c (c_val c00) cv).
Proof. exact e2eo_truthful. Qed.
Print Assumptions C02I_truthful.

Theorem C02I_truthful_exact : forall cfg0 nclients script y slot c e cid x h,
  script_scopeo cfg0 nclients script -> run (sys_init cfg0 nclients) script = Ok y ->
  al_get slot (y_clients y) = Some c -> mode_of script slot = MLive -> cl_status c = Connected ->
  al_get e (cl_s2c c) = Some cid -> get_cent c cid = Some x -> ce_alive x = true -> ce_marker x = true -> ce_hist x = Some h ->
  exists pre post y1, script = pre ++ post /\ run (sys_init cfg0 nclients) pre = Ok y1 /\
    forallb (fun st => negb (ends_session slot st)) post = true /\ sv_tick (y_server y1) = h_last h /\
    vrepl slot (y_server y1) e <> None /\
    (forall k, k <> 2 -> opt_vrel c (sviewv slot (y_server y1) e k) (al_get k (ce_comps x))) /\
    (al_get 2 (ce_comps x) <> None <-> sviewv slot (y_server y1) e 2 <> None).
Proof. exact e2eo_truthful_exact. Qed.
Print Assumptions C02I_truthful_exact.

Theorem C02I_truthful_ref : forall cfg0 nclients script y slot c e cid x h,
  script_scopeo cfg0 nclients script -> run (sys_init cfg0 nclients) script = Ok y ->
  al_get slot (y_clients y) = Some c -> mode_of script slot = MLive -> cl_status c = Connected ->
  al_get e (cl_s2c c) = Some cid -> get_cent c cid = Some x -> ce_alive x = true -> ce_marker x = true -> ce_hist x = Some h ->
  exists pre post y1, script = pre ++ post /\ run (sys_init cfg0 nclients) pre = Ok y1 /\
    forallb (fun st => negb (ends_session slot st)) post = true /\ sv_tick (y_server y1) = h_last h /\
    (forall k rcid, k <> 2 -> al_get k (ce_comps x) = Some (CRef rcid) ->
       exists t xt, sviewv slot (y_server y1) e k = Some (VRef t) /\ al_get rcid (cl_c2s c) = Some t /\
                    al_get t (cl_s2c c) = Some rcid /\ get_cent c rcid = Some xt /\ ce_alive xt = true) /\
    (forall k t, k <> 2 -> sviewv slot (y_server y1) e k = Some (VRef t) ->
       exists rcid, al_get k (ce_comps x) = Some (CRef rcid) /\ al_get rcid (cl_c2s c) = Some t).
Proof. exact e2eo_truthful_ref. Qed.
Print Assumptions C02I_truthful_ref.

(* ================================================================== *)
(* K                                                                  *)
(* ================================================================== *)

Theorem C02I_ack_sound : forall cfg0 nclients script y slot c cl e a,
  script_scopeo cfg0 nclients script -> run (sys_init cfg0 nclients) script = Ok y ->
  al_get slot (y_clients y) = Some c -> mode_of script slot = MLive -> cl_status c = Connected ->
  In cl (sv_clients (y_server y)) -> sc_slot cl = slot -> mutation_tick (sc_ticks cl) e = Some a ->
  exists pre post y1, script = pre ++ post /\ run (sys_init cfg0 nclients) pre = Ok y1 /\
    forallb (fun st => negb (ends_session slot st)) post = true /\ sv_last_run (y_server y1) = a /\
    ((exists u, In u (cl_inbox_upd c ++ l_upd (get_link y slot)) /\ mentions u e /\ sv_tick (y_server y1) <= u_tick u) \/
     (exists x h, has c e x h /\ sv_tick (y_server y1) <= h_last h)).
Proof. exact e2eo_ack_sound. Qed.
Print Assumptions C02I_ack_sound.

(* what the server knows about the instances a client holds: a component that existed at the last run of replication
   was added at or before the stamp the client has acknowledged for its entity *)
Theorem C02I_once_known : forall cfg0 nclients script y slot c cl,
  script_scopeo cfg0 nclients script -> run (sys_init cfg0 nclients) script = Ok y ->
  al_get slot (y_clients y) = Some c -> mode_of script slot = MLive -> cl_status c = Connected ->
  In cl (sv_clients (y_server y)) -> sc_slot cl = slot ->
  forall e a x k cc, mutation_tick (sc_ticks cl) e = Some a -> get_ent (y_server y) e = Some x -> al_get k (se_comps x) = Some cc ->
    c_added cc <= sv_last_run (y_server y) -> c_added cc <= a.
Proof. exact e2eo_once_known. Qed.
Print Assumptions C02I_once_known.

(* ================================================================== *)
(* Q                                                                  *)
(* ================================================================== *)

Theorem C02I_quiescent_weaken : forall s cl, quiescent_for s cl -> quiescent_for_o s cl.
Proof. exact quiescent_for_weaken. Qed.
Print Assumptions C02I_quiescent_weaken.

Theorem C02I_converged : forall cfg0 nclients script y slot c cl,
  script_scopeo cfg0 nclients script -> run (sys_init cfg0 nclients) script = Ok y ->
  al_get slot (y_clients y) = Some c -> mode_of script slot = MLive -> cl_status c = Connected ->
  In cl (sv_clients (y_server y)) -> sc_slot cl = slot -> sc_authorized cl = true ->
  l_upd (get_link y slot) = [] -> cl_inbox_upd c = [] ->
  quiescent_for_o (y_server y) cl -> sv_removed_events (y_server y) = [] ->
  struct_equiv (client_struct c) (struct_vis (y_server y) cl) /\
  forall e k, kind_et k = true -> view_agrees c slot (y_server y) e k.
Proof. exact e2eo_converged. Qed.
Print Assumptions C02I_converged.

(* ================================================================== *)
(* non-vacuity                                                        *)
(* ================================================================== *)

Definition ox_cfg : cfg := mkCfg PAll AuthNone true 1000.
Definition ofr (tick : bool) (ops : list sop) : step := StSFrame tick 10 false ops [].
Definition oall (slot : N) : list step :=
  [StDeliver slot true 0 All; StDeliver slot true 1 All; StCFrame slot []; StDeliver slot false 0 All].

(* Two clients, everything visible.
   Tick 1: entity 1 is spawned with A = 5 (kind 0) and the `Once` component C = 7 (kind 2); client 0 gets both.
   Tick 2: A is mutated to 6: a mutate message, acknowledged by client 0.
   Tick 3: C is mutated to 8: NOTHING is sent; client 0 keeps C = 7 (and the stamp the server holds for the entity stays
           below the changed stamp of C for good).
   Client 1 connects; tick 4 sends it the entity whole: it gets the CURRENT value C = 8, client 0 still holds 7.
   Tick 5: C is removed and inserted again with 9 (a new instance): both clients get 9. *)
Definition ox_script : list step :=
  [StStart; ofr false []; StConnect 0 1200;
   ofr true [SSpawn 1 true [(0, VNat 5); (2, VNat 7)]]] ++ oall 0 ++
  [ofr true [SMutate 1 0 (VNat 6)]] ++ oall 0 ++
  [ofr true [SMutate 1 2 (VNat 8)]] ++ oall 0 ++
  [StConnect 1 1200; ofr true []] ++ oall 0 ++ oall 1 ++
  [ofr true [SRemove 1 2; SInsert 1 2 (VNat 9)]] ++ oall 0 ++ oall 1.

Example C02I_ex_scope : script_scopeo ox_cfg 2 ox_script.
Proof. apply scopeo_by_bound; vm_compute; reflexivity. Qed.

Example C02I_ex_script : script_okf ox_script = true /\ script_valso ox_script = true /\ script_valsr ox_script = false /\
  tick_frames ox_script = 5 /\ mode_of ox_script 0 = MLive /\ mode_of ox_script 1 = MLive.
Proof. vm_compute. repeat split; reflexivity. Qed.

(* per client: update tick; id, confirmed tick, alive, marked, components of every client entity; the update messages on
   their way (tick, removals, changes) and the mutate messages; the server tick; the server entities with (kind, value,
   added stamp, changed stamp) of every component *)
Definition ox_view (r : res sys) :=
  match r with
  | Ok y => Some (map (fun sc => (cl_upd_tick (snd sc),
                                  map (fun kv => (fst kv, match ce_hist (snd kv) with Some h => Some (h_last h) | None => None end,
                                                  ce_alive (snd kv), ce_marker (snd kv), ce_comps (snd kv))) (cl_ents (snd sc)),
                                  map (fun u => (u_tick u, u_removals u, u_changes u)) (l_upd (get_link y (fst sc))),
                                  map (fun m => (m_upd_tick m, m_tick m, m_body m)) (l_mut (get_link y (fst sc))))) (y_clients y),
                  sv_tick (y_server y),
                  map (fun ex => (fst ex, map (fun kc => (fst kc, c_val (snd kc), c_added (snd kc), c_changed (snd kc))) (se_comps (snd ex)))) (sv_ents (y_server y)))
  | _ => None
  end.

Example C02I_ex_run :
  (* tick 1 applied by client 0: A = 5, C = 7 *)
  ox_view (run (sys_init ox_cfg 2) (firstn 8 ox_script))
    = Some ([(1, [(0, Some 1, true, true, [(0, CNat 5); (2, CNat 7)])], [], []); (0, [], [], [])], 1,
            [(1, [(0, VNat 5, 2, 2); (2, VNat 7, 2, 2)])]) /\
  (* tick 2 (A := 6, a mutate message) applied *)
  ox_view (run (sys_init ox_cfg 2) (firstn 13 ox_script))
    = Some ([(1, [(0, Some 2, true, true, [(0, CNat 6); (2, CNat 7)])], [], []); (0, [], [], [])], 2,
            [(1, [(0, VNat 6, 2, 3); (2, VNat 7, 2, 2)])]) /\
  (* tick 3 (C := 8 on the server): the mutate message of tick 3 is EMPTY; after the client frame the client still holds 7,
     confirmed at tick 2 *)
  ox_view (run (sys_init ox_cfg 2) (firstn 14 ox_script))
    = Some ([(1, [(0, Some 2, true, true, [(0, CNat 6); (2, CNat 7)])], [], [(1, 3, [])]); (0, [], [], [])], 3,
            [(1, [(0, VNat 6, 2, 3); (2, VNat 8, 2, 4)])]) /\
  ox_view (run (sys_init ox_cfg 2) (firstn 18 ox_script))
    = Some ([(1, [(0, Some 2, true, true, [(0, CNat 6); (2, CNat 7)])], [], []); (0, [], [], [])], 3,
            [(1, [(0, VNat 6, 2, 3); (2, VNat 8, 2, 4)])]) /\
  (* client 1 connected and got the entity whole at tick 4, with the current C = 8; client 0: still 7 *)
  ox_view (run (sys_init ox_cfg 2) (firstn 28 ox_script))
    = Some ([(1, [(0, Some 2, true, true, [(0, CNat 6); (2, CNat 7)])], [], []);
             (4, [(0, Some 4, true, true, [(0, CNat 6); (2, CNat 8)])], [], [])], 4,
            [(1, [(0, VNat 6, 2, 3); (2, VNat 8, 2, 4)])]) /\
  (* tick 5: C removed and inserted again (added stamp 6): both clients hold 9 *)
  ox_view (run (sys_init ox_cfg 2) ox_script)
    = Some ([(5, [(0, Some 5, true, true, [(0, CNat 6); (2, CNat 9)])], [], []);
             (5, [(0, Some 5, true, true, [(0, CNat 6); (2, CNat 9)])], [], [])], 5,
            [(1, [(0, VNat 6, 2, 3); (2, VNat 9, 6, 6)])]).
Proof. vm_compute. repeat split; reflexivity. Qed.

(* C02I_truthful instantiated after tick 4, client 0: its replica of entity 1 is confirmed at tick 2, holds A = 6 (the value
   of tick 2) and C = 7 while the server has C = 8; the theorem yields the prefix state in which the same instance of C had
   the value the client holds *)
Example C02I_ex_truthful_instance :
  exists y c x h, run (sys_init ox_cfg 2) (firstn 28 ox_script) = Ok y /\ al_get 0 (y_clients y) = Some c /\
    get_cent c 0 = Some x /\ ce_hist x = Some h /\ h_last h = 2 /\ ce_comps x = [(0, CNat 6); (2, CNat 7)] /\
    sviewv 0 (y_server y) 1 2 = Some (VNat 8) /\
    exists pre post y1 cl1 x1, firstn 28 ox_script = pre ++ post /\ run (sys_init ox_cfg 2) pre = Ok y1 /\
      forallb (fun st => negb (ends_session 0 st)) post = true /\ sv_tick (y_server y1) = 2 /\
      find_client (y_server y1) 0 = Some cl1 /\ repl_get (y_server y1) 1 = Some x1 /\
      (forall c0, al_get 0 (se_comps x1) = Some c0 -> c_val c0 = VNat 6) /\
      (forall c0, al_get 2 (se_comps x1) = Some c0 ->
         exists pre0 post0 y0 x0 c00, firstn 28 ox_script = pre0 ++ post0 /\ run (sys_init ox_cfg 2) pre0 = Ok y0 /\
           sv_tick (y_server y0) <= 2 /\ vrepl 0 (y_server y0) 1 = Some x0 /\ al_get 2 (se_comps x0) = Some c00 /\
           c_added c00 = c_added c0 /\ c_val c00 = VNat 7).
Proof.
  assert (Hsc : script_scopeo ox_cfg 2 (firstn 28 ox_script)) by (apply scopeo_by_bound; vm_compute; reflexivity).
  destruct (run (sys_init ox_cfg 2) (firstn 28 ox_script)) as [y| |] eqn:E; [|vm_compute in E; discriminate|vm_compute in E; discriminate].
  destruct (al_get 0 (y_clients y)) as [c|] eqn:Ec; [|vm_compute in E; inversion E; subst y; vm_compute in Ec; discriminate].
  destruct (get_cent c 0) as [x|] eqn:Ex; [|vm_compute in E; inversion E; subst y; vm_compute in Ec; inversion Ec; subst c; vm_compute in Ex; discriminate].
  destruct (ce_hist x) as [h|] eqn:Eh;
    [|vm_compute in E; inversion E; subst y; vm_compute in Ec; inversion Ec; subst c; vm_compute in Ex; inversion Ex; subst x; vm_compute in Eh; discriminate].
  exists y, c, x, h. split; [reflexivity|]. split; [exact Ec|]. split; [exact Ex|]. split; [exact Eh|].
  assert (Hfacts : h_last h = 2 /\ ce_comps x = [(0, CNat 6); (2, CNat 7)] /\ sviewv 0 (y_server y) 1 2 = Some (VNat 8) /\
                   cl_status c = Connected /\ al_get 1 (cl_s2c c) = Some 0 /\ ce_alive x = true /\ ce_marker x = true).
  { vm_compute in E; inversion E; subst y; vm_compute in Ec; inversion Ec; subst c; vm_compute in Ex; inversion Ex; subst x;
      vm_compute in Eh; inversion Eh; subst h; vm_compute; repeat split; reflexivity. }
  destruct Hfacts as (F2 & F3 & F4 & F5 & F6 & F7 & F8). split; [exact F2|]. split; [exact F3|]. split; [exact F4|].
  assert (Hm : mode_of (firstn 28 ox_script) 0 = MLive) by (vm_compute; reflexivity).
  destruct (C02I_truthful ox_cfg 2 _ y 0 c 1 0 x h Hsc E Ec Hm F5 F6 Ex F7 F8 Eh)
    as (pre & post & y1 & cl1 & x1 & T1 & T2 & T3 & T4 & T5 & _ & _ & T8 & _ & T10 & T11).
  exists pre, post, y1, cl1, x1. split; [exact T1|]. split; [exact T2|]. split; [exact T3|]. split; [rewrite T4; exact F2|].
  split; [exact T5|]. split; [exact T8|]. rewrite F3 in T10, T11. split.
  - intros c0 Hc0. pose proof (T10 0 (CNat 6) c0 (fun H => match N.eqb_neq 0 2 with conj f _ => f eq_refl H end) eq_refl Hc0) as Hv.
    destruct (c_val c0) as [n|t]; cbn [vrel] in Hv; [rewrite Hv; reflexivity|destruct Hv].
  - intros c0 Hc0. destruct (T11 (CNat 7) c0 eq_refl Hc0) as (pre0 & post0 & y0 & x0 & c00 & U1 & U2 & _ & U4 & _ & U6 & U7 & U8 & U9).
    exists pre0, post0, y0, x0, c00. split; [exact U1|]. split; [exact U2|]. split; [rewrite F2 in U4; exact U4|]. split; [exact U6|].
    split; [exact U7|]. split; [exact U8|]. destruct (c_val c00) as [n|t]; cbn [vrel] in U9; [rewrite U9; reflexivity|destruct U9].
Qed.

(* C02I_converged instantiated after tick 3 (C := 8, nothing sent), client 0: the server has nothing pending for the client
   in the sense of [quiescent_for_o] - but NOT in the sense of `Ack_proofs.quiescent_for` (the changed stamp 4 of C is above
   the acknowledged stamp 3 for good) -, the every-tick kinds agree, and kind 2 does not: 7 on the client, 8 on the server *)
Example C02I_ex_converged_instance :
  exists y c cl, run (sys_init ox_cfg 2) (firstn 18 ox_script) = Ok y /\ al_get 0 (y_clients y) = Some c /\
    In cl (sv_clients (y_server y)) /\ sc_slot cl = 0 /\
    quiescent_for_o (y_server y) cl /\ ~ quiescent_for (y_server y) cl /\
    (forall e k, kind_et k = true -> view_agrees c 0 (y_server y) e k) /\
    cview c 1 0 = Some (CNat 6) /\ cview c 1 2 = Some (CNat 7) /\ sviewv 0 (y_server y) 1 2 = Some (VNat 8) /\
    ~ view_agrees c 0 (y_server y) 1 2.
Proof.
  assert (Hsc : script_scopeo ox_cfg 2 (firstn 18 ox_script)) by (apply scopeo_by_bound; vm_compute; reflexivity).
  destruct (run (sys_init ox_cfg 2) (firstn 18 ox_script)) as [y| |] eqn:E; [|vm_compute in E; discriminate|vm_compute in E; discriminate].
  destruct (al_get 0 (y_clients y)) as [c|] eqn:Ec; [|vm_compute in E; inversion E; subst y; vm_compute in Ec; discriminate].
  destruct (find_client (y_server y) 0) as [cl|] eqn:Ecl; [|vm_compute in E; inversion E; subst y; vm_compute in Ecl; discriminate].
  exists y, c, cl. split; [reflexivity|]. split; [exact Ec|].
  assert (Hfacts : In cl (sv_clients (y_server y)) /\ sc_slot cl = 0 /\ sc_authorized cl = true /\ cl_status c = Connected /\
                   l_upd (get_link y 0) = [] /\ cl_inbox_upd c = [] /\ sv_removed_events (y_server y) = [] /\
                   cview c 1 0 = Some (CNat 6) /\ cview c 1 2 = Some (CNat 7) /\ sviewv 0 (y_server y) 1 2 = Some (VNat 8) /\
                   sc_pending_map cl = [] /\ sv_despawn_buf (y_server y) = [] /\ sv_removal_buf (y_server y) = [] /\ vis_settled (sc_vis cl) /\
                   replicated_ents (y_server y) = [(1, mkSEnt true (Some 2) [(0, mkComp (VNat 6) 2 3); (2, mkComp (VNat 8) 2 4)], 2)] /\
                   vis_state_of (sc_vis cl) 1 = VVisible /\ mutation_tick (sc_ticks cl) 1 = Some 3 /\ sv_last_run (y_server y) = 4).
  { vm_compute in E; inversion E; subst y; vm_compute in Ec; inversion Ec; subst c; vm_compute in Ecl; inversion Ecl; subst cl.
    vm_compute. repeat split; try reflexivity. left. reflexivity. }
  destruct Hfacts as (F1 & F2 & F3 & F4 & F5 & F6 & F7 & F8 & F9 & F10 & F11 & F12 & F13 & F14 & F15 & F16 & F17 & F18).
  split; [exact F1|]. split; [exact F2|].
  assert (Hq : quiescent_for_o (y_server y) cl).
  { split; [exact F11|]. split; [exact F12|]. split; [exact F13|]. split; [exact F14|].
    intros e x madd Hin. rewrite F15 in Hin. destruct Hin as [Eq|[]]. inversion Eq; subst e x madd. right. split; [exact F16|].
    exists 3. split; [exact F17|]. rewrite F18. split; [reflexivity|].
    intros k comp [Eq1|[Eq2|[]]]; [inversion Eq1; subst k comp|inversion Eq2; subst k comp]; cbn [c_changed c_added]; split; try lia.
    intros Het. vm_compute in Het. discriminate. }
  split; [exact Hq|]. split.
  { intros (_ & _ & _ & _ & Hall).
    assert (Hin1 : In (1, mkSEnt true (Some 2) [(0, mkComp (VNat 6) 2 3); (2, mkComp (VNat 8) 2 4)], 2) (replicated_ents (y_server y))) by (rewrite F15; left; reflexivity).
    destruct (Hall 1 _ 2 Hin1) as [Hh|[_ (t & T1 & _ & T3)]].
    - rewrite F16 in Hh. discriminate.
    - rewrite F17 in T1. inversion T1; subst t. destruct (T3 2 (mkComp (VNat 8) 2 4) (or_intror (or_introl eq_refl))) as [T4 _]. cbn in T4. lia. }
  assert (Hm : mode_of (firstn 18 ox_script) 0 = MLive) by (vm_compute; reflexivity).
  split; [exact (proj2 (C02I_converged ox_cfg 2 _ y 0 c cl Hsc E Ec Hm F4 F1 F2 F3 F5 F6 Hq F7))|].
  split; [exact F8|]. split; [exact F9|]. split; [exact F10|].
  unfold view_agrees. rewrite F9, F10. cbn. intros H. discriminate H.
Qed.
