(* C03, server half, for EVERY visibility policy (PAll / PBlack / PWhite) -- the UPDATE MESSAGES the
   server sends to a client are exactly the structural DIFFS of the part of the server world that is
   VISIBLE to that client, between consecutive ticks, for every history of operations (including
   `SVis slot e visible` at arbitrary points, several per tick window, cancelling each other), frames,
   acknowledgements, connects, authorizations, late joiners, stop / reset / restart.
   There is NO hypothesis on the policy: a client without ClientVisibility (PAll, or not yet
   authorized) sees everything, and `struct_vis` is then `struct_of` (C03V_struct_vis_no_visibility,
   C03V_pall_is_C03S); Properties/C03S.v is the special case.

   Model: Repl/Server.v, Vis/Visibility.v.  Vocabulary: Repl/StructSpec.v (structure, struct_equiv,
   struct_of, abs_apply, pending_ok, rb_repl, the ghost run gstate / gstep / grun) and
   Repl/StructVisSpec.v:
     struct_vis s cl       `struct_of s` filtered by `vis_visible (sc_vis cl)`.  [cl] is the client record
                           AFTER the tick (its ClientVisibility went through `update`); settings made since
                           the last tick are pending in the record and do not count before the next tick
                           (C03V_ex_pending_setting_does_not_count)
     vis_legal v           representation invariant of a ClientVisibility (Vis/Visibility_proofs.v view/conc)
     v_prev v e            what the ClientVisibility remembers of the last tick: e was visible then
     vis_ok vo st          visibility part of the invariant between two ticks: legal, and every entity of the
                           structure st sent so far was visible at the last tick
     pending_ok_v s cl st  = pending_ok s (sc_ticks cl) st /\ vis_ok (sc_vis cl) st
     srv_base_v / srv_ok_v the server-wide side conditions of C03S without `no_vis`
     cl_keep               a client record changed only in ways the invariants do not read
     ginv_v                invariant of a ghost run
   Proofs: Repl/StructVis_proofs.v (a tick), Repl/StructVisOps_proofs.v (operations),
   Repl/StructVisRun_proofs.v (frames, runs), Repl/StructVisIndep_proofs.v (independence of the clients).

   The statements are about the MODEL's visibility state.  Whether that state is the most recent setting
   is C08's business (Layer 0); the known open defect D22 (settings made between a marker removal and
   the next tick are forgotten) is visible here as C03V_ex_D22 and is neither hidden nor repaired. *)
From RV Require Import Lib.Res Repl.ClientTicks Repl.World Vis.Visibility Vis.Visibility_proofs Repl.Server Repl.ServerSpec
  Repl.StructSpec Repl.Struct_proofs Repl.StructOps_proofs Repl.StructRun_proofs
  Repl.StructVisSpec Repl.StructVis_proofs Repl.StructVisOps_proofs Repl.StructVisRun_proofs
  Repl.StructVisIndep_proofs.
Open Scope N_scope.

(* ---- 0. the vocabulary, unfolded ---- *)
Theorem C03V_struct_vis : forall s cl e,
  al_get e (struct_vis s cl) = if vis_visible (sc_vis cl) e then al_get e (struct_of s) else None.
Proof. intros s cl e. apply al_get_vis_filter. Qed.

Theorem C03V_struct_vis_no_visibility : forall s cl, sc_vis cl = None -> struct_vis s cl = struct_of s.
Proof. intros s cl H. unfold struct_vis. rewrite H. apply vis_filter_none. Qed.

(* a legal ClientVisibility determines, per entity, two booleans: visible now / visible at the last tick *)
Theorem C03V_vis_legal_reads : forall v e cur prev, view v e = conc (is_whitelist v) cur prev ->
  v_prev v e = prev /\ is_visible v e = cur /\ state v e = VisSpec.classify cur prev.
Proof. exact view_reads. Qed.

Theorem C03V_new_visibility_legal : vis_legal blacklist /\ vis_legal whitelist /\ forall c, vis_ok (new_vis c) [].
Proof. split; [exact vis_legal_blacklist|]. split; [exact vis_legal_whitelist|exact new_vis_ok]. Qed.

(* `set_visibility` changes what is visible now, never what the last tick was told; `update` (end of a
   tick) makes the present the last tick *)
Theorem C03V_set_visibility : forall v e b, vis_legal v ->
  vis_legal (set_visibility v e b) /\ forall e', v_prev (set_visibility v e b) e' = v_prev v e'.
Proof. exact set_visibility_legal. Qed.

Theorem C03V_update : forall v, vis_legal v ->
  vis_legal (update v) /\ forall e, v_prev (update v) e = is_visible v e /\ is_visible (update v) e = is_visible v e.
Proof. exact update_legal. Qed.

(* ---- 1. every game operation, `SVis` included, preserves the invariant of every client ---- *)
Theorem C03V_apply_sop_preserves_pending : forall s op t st,
  srv_base_v s -> sv_running s = true -> pending_ok s t st -> pending_ok (apply_sop s op) t st.
Proof. exact apply_sop_preserves_pending_v. Qed.

Theorem C03V_apply_sop_preserves_srv_ok : forall s op,
  srv_ok_v s -> sv_running s = true -> srv_ok_v (apply_sop s op).
Proof. exact apply_sop_preserves_srv_ok_v. Qed.

Theorem C03V_apply_sop_preserves_base : forall s op, srv_base_v s -> srv_base_v (apply_sop s op).
Proof. exact apply_sop_preserves_base_v. Qed.

(* the client records: slot, authorization, known entities and the visibility part of the invariant are kept *)
Theorem C03V_apply_sop_keeps_clients : forall s op, NoDup (map sc_slot (sv_clients s)) ->
  Forall2 cl_keep (sv_clients s) (sv_clients (apply_sop s op)).
Proof. exact apply_sop_keep. Qed.

Theorem C03V_cl_keep : forall s cl cl' st, cl_keep cl cl' -> pending_ok_v s cl st -> pending_ok_v s cl' st.
Proof. exact pending_ok_v_keep. Qed.

Theorem C03V_set_visibility_keeps_vis_ok : forall v e b st,
  vis_ok (Some v) st -> vis_ok (Some (set_visibility v e b)) st.
Proof. exact vis_ok_set_visibility. Qed.

(* ---- 2. buffer_removals, age_events / reset, acknowledgements ---- *)
Theorem C03V_buffer_removals : forall s, srv_base_v s ->
  srv_base_v (buffer_removals s) /\ (rb_repl s -> rb_repl (buffer_removals s)) /\
  (forall t st, pending_ok s t st -> pending_ok (buffer_removals s) t st) /\
  sv_removed_events (buffer_removals s) = [].
Proof. exact buffer_removals_ok_v. Qed.

Theorem C03V_age_events_reset :
  (forall s, srv_base_v s -> srv_base_v (age_events s)) /\ (forall s, srv_base_v s -> srv_ok_v (reset s)).
Proof. split; [exact age_events_base_v|exact reset_ok_v]. Qed.

Theorem C03V_acks :
  (forall s, Forall2 cl_keep (sv_clients s) (sv_clients (receive_acks s))) /\
  (forall c s, Forall2 cl_keep (sv_clients s) (sv_clients (cleanup_acks c s))).
Proof. split; [exact receive_acks_keep|exact cleanup_acks_keep]. Qed.

(* ---- 3. a tick sends the diff of the visible structure and re-establishes the invariant ---- *)
(* any client, with or without a ClientVisibility *)
Theorem C03V_tick_sends_diff : forall c s run cl p cl' out st cls,
  srv_ok_v s -> sv_removed_events s = [] ->
  pending_ok_v s cl st ->
  send_for_client c s run cl p = Ok (cl', out) ->
  struct_equiv (abs_send st (co_update out)) (struct_vis s cl') /\
  pending_ok_v (set_after_send s cls run) cl' (struct_vis s cl') /\
  sc_slot cl' = sc_slot cl /\ sc_authorized cl' = true /\ co_slot out = sc_slot cl.
Proof. exact tick_sends_diff_any. Qed.

(* ... with a ClientVisibility: the visibility of the new record is `update` of the one read by
   collect_removals / collect_changes ([mid_vis]: after drain_lost and the despawn-buffer loop) *)
Theorem C03V_tick_sends_diff_vis : forall c s run cl p cl' out st cls v,
  srv_ok_v s -> sv_removed_events s = [] -> sc_vis cl = Some v ->
  pending_ok_v s cl st ->
  send_for_client c s run cl p = Ok (cl', out) ->
  struct_equiv (abs_send st (co_update out)) (struct_vis s cl') /\
  pending_ok_v (set_after_send s cls run) cl' (struct_vis s cl') /\
  sc_vis cl' = Some (update (mid_vis s v)) /\
  sc_slot cl' = sc_slot cl /\ sc_authorized cl' = true /\ co_slot out = sc_slot cl.
Proof. exact tick_sends_diff_v. Qed.

(* ---- 4. consequences for single entities (one tick, one client) ---- *)
(* (1) an entity the client holds and that is hidden from it after the tick gets a despawn record in this
       tick's update message (which is therefore sent) ... *)
Theorem C03V_known_hidden_is_despawned : forall c s run cl p cl' out st e,
  pending_ok_v s cl st -> send_for_client c s run cl p = Ok (cl', out) ->
  al_get e st <> None -> vis_visible (sc_vis cl') e = false ->
  exists u, co_update out = Some u /\ In e (u_despawns u).
Proof. exact known_hidden_is_despawned. Qed.

(* ... in the terms of the record before the tick: hidden now (and it was visible at the last tick) *)
Theorem C03V_lost_visibility_is_despawned : forall c s run cl p cl' out st v e,
  sc_vis cl = Some v -> pending_ok_v s cl st -> send_for_client c s run cl p = Ok (cl', out) ->
  al_get e st <> None -> is_visible v e = false ->
  exists u, co_update out = Some u /\ In e (u_despawns u) /\ v_prev v e = true.
Proof. exact lost_visibility_is_despawned. Qed.

(* ... and nothing else of that entity is in the message *)
Theorem C03V_hidden_entity_not_in_message : forall c s run cl p cl' out u e,
  match sc_vis cl with Some v => vis_legal v | None => True end ->
  send_for_client c s run cl p = Ok (cl', out) -> co_update out = Some u ->
  vis_visible (sc_vis cl') e = false ->
  ~ In e (map fst (u_changes u)) /\ ~ In e (map fst (u_removals u)).
Proof. exact hidden_entity_not_in_message. Qed.

(* ... and a despawn record has one of two causes: a buffered despawn (`Replicated` removed), or THIS
   client's visibility: told at the last tick, hidden now.  (Not: "the client holds the entity"; for a
   blacklist that is false, see C03V_ex_despawn_of_unknown_entity.) *)
Theorem C03V_despawn_records_explained : forall c s run cl p cl' out u e,
  match sc_vis cl with Some v => vis_legal v | None => True end ->
  send_for_client c s run cl p = Ok (cl', out) -> co_update out = Some u -> In e (u_despawns u) ->
  In e (sv_despawn_buf s) \/
  exists v, sc_vis cl = Some v /\ v_prev v e = true /\ is_visible v e = false.
Proof. exact despawn_records_explained. Qed.

(* (2) a replicated entity the client does not hold and that is visible to it after the tick (visibility
       gained, new entity, late joiner) is sent as a whole new entity *)
Theorem C03V_unknown_visible_is_sent_whole : forall c s run cl p cl' out st e x,
  ents_wf s -> pending_ok_v s cl st -> send_for_client c s run cl p = Ok (cl', out) ->
  repl_get s e = Some x -> al_get e st = None -> vis_visible (sc_vis cl') e = true ->
  exists u, co_update out = Some u /\ In (e, all_comps x) (u_changes u).
Proof. exact unknown_visible_is_sent_whole. Qed.

(* ---- 5. whole frames, whole runs: no hypothesis on the policy ---- *)
Theorem C03V_frame : forall c g tick dt (cleanup : bool) ops parts s' fo,
  ginv_v g -> server_frame c (g_srv g) tick dt cleanup ops parts = Ok (s', fo) ->
  ginv_v (mkG s' (sync_sent s' (g_sent g) (fo_clients fo))) /\
  (fo_ran fo = true -> forall cl, In cl (sv_clients s') -> sc_authorized cl = true ->
     struct_equiv (abs_send (sent_of (sc_slot cl) (g_sent g)) (upd_for (sc_slot cl) (fo_clients fo))) (struct_vis s' cl)) /\
  (fo_ran fo = false -> fo_clients fo = []).
Proof. exact gframe_ok_v. Qed.

Theorem C03V_run_invariant : forall c steps g, grun c ginit steps = Ok g -> ginv_v g.
Proof. intros c steps g H. exact (grun_inv_v c steps ginit g ginit_inv_v H). Qed.

Theorem C03V_run_sends_diffs : forall c steps g tick dt (cleanup : bool) ops parts g',
  grun c ginit steps = Ok g ->
  gstep c g (GFrame tick dt cleanup ops parts) = Ok g' ->
  exists fo, server_frame c (g_srv g) tick dt cleanup ops parts = Ok (g_srv g', fo) /\
    forall cl, In cl (sv_clients (g_srv g')) -> sc_authorized cl = true ->
      al_get (sc_slot cl) (g_sent g')
        = Some (abs_send (sent_of (sc_slot cl) (g_sent g)) (upd_for (sc_slot cl) (fo_clients fo))) /\
      (fo_ran fo = true -> struct_equiv (sent_of (sc_slot cl) (g_sent g')) (struct_vis (g_srv g') cl)) /\
      (fo_ran fo = false -> upd_for (sc_slot cl) (fo_clients fo) = None /\
                            sent_of (sc_slot cl) (g_sent g') = sent_of (sc_slot cl) (g_sent g)).
Proof. exact run_sends_diffs_v. Qed.

(* (4) the first update message of a new client is the full visible structure *)
Theorem C03V_first_update_is_full_visible_structure : forall c steps g tick dt (cleanup : bool) ops parts g' fo cl,
  grun c ginit steps = Ok g ->
  gstep c g (GFrame tick dt cleanup ops parts) = Ok g' ->
  server_frame c (g_srv g) tick dt cleanup ops parts = Ok (g_srv g', fo) -> fo_ran fo = true ->
  In cl (sv_clients (g_srv g')) -> sc_authorized cl = true ->
  sent_of (sc_slot cl) (g_sent g) = [] ->
  struct_equiv (abs_send [] (upd_for (sc_slot cl) (fo_clients fo))) (struct_vis (g_srv g') cl).
Proof. exact first_update_is_full_visible_structure. Qed.

Theorem C03V_authorized_starts_empty : forall c steps g slot cl g',
  grun c ginit steps = Ok g ->
  find_client (g_srv g) slot = Some cl -> sc_authorized cl = false ->
  gstep c g (GAuthorize slot) = Ok g' -> sent_of slot (g_sent g') = [].
Proof. exact authorized_starts_empty_v. Qed.

(* between two ticks: whatever a client holds was visible to it at the last tick, and its bookkeeping,
   the world and the buffers explain each other (instance of the run invariant) *)
Theorem C03V_between_ticks : forall c steps g cl e,
  grun c ginit steps = Ok g -> In cl (sv_clients (g_srv g)) -> sc_authorized cl = true ->
  pending_ok (g_srv g) (sc_ticks cl) (sent_of (sc_slot cl) (g_sent g)) /\
  (al_get e (sent_of (sc_slot cl) (g_sent g)) <> None ->
   forall v, sc_vis cl = Some v -> vis_legal v /\ v_prev v e = true).
Proof.
  intros c steps g cl e H Hin Ha. pose proof (C03V_run_invariant c steps g H) as Hg.
  destruct (gv_clients g Hg cl Hin Ha) as [[Hp Hv] _]. split; [exact Hp|].
  intros Hk v Hvis. rewrite Hvis in Hv. destruct Hv as [Hl Hpr]. split; [exact Hl|apply Hpr; exact Hk].
Qed.

(* PAll: no client carries a ClientVisibility, the visible structure is the whole structure: C03S *)
Theorem C03V_pall_is_C03S : forall c steps g cl,
  cfg_policy c = PAll -> grun c ginit steps = Ok g -> In cl (sv_clients (g_srv g)) ->
  struct_vis (g_srv g) cl = struct_of (g_srv g).
Proof.
  intros c steps g cl Hpol H Hin. apply C03V_struct_vis_no_visibility.
  exact (so_novis _ (proj1 (gi_srv g (grun_inv c steps ginit g Hpol ginit_inv H))) cl Hin).
Qed.

(* the policy decides the kind of ClientVisibility every authorized client carries, so for PBlack / PWhite
   the statements above are about blacklists / whitelists *)
Theorem C03V_policy_decides_visibility_kind : forall c steps g cl,
  grun c ginit steps = Ok g -> In cl (sv_clients (g_srv g)) -> sc_authorized cl = true ->
  match cfg_policy c with
  | PAll => sc_vis cl = None
  | PBlack => exists v, sc_vis cl = Some v /\ is_whitelist v = false
  | PWhite => exists v, sc_vis cl = Some v /\ is_whitelist v = true
  end.
Proof.
  intros c steps g cl H Hin Ha.
  assert (Hk : clients_kind c (g_srv g)) by (apply (run_clients_kind c steps ginit g); [intros x []|exact H]).
  specialize (Hk cl Hin Ha). unfold vis_kind in Hk.
  destruct (cfg_policy c), (sc_vis cl) as [v|]; try contradiction; eauto.
Qed.

(* ---- 6. (3) independence: what one client loses or gains never appears in another client's messages.
        Two runs that differ only in the `SVis` operations addressed to one slot produce, frame by frame,
        the same messages (update and mutate) for every other slot, and the same structures sent. ---- *)
Theorem C03V_frame_independent : forall c slot s1 s2 tick dt (cleanup : bool) ops1 ops2 parts s1' fo1 s2' fo2,
  same_but slot s1 s2 ->
  filter (not_vis_of slot) ops1 = filter (not_vis_of slot) ops2 ->
  server_frame c s1 tick dt cleanup ops1 parts = Ok (s1', fo1) ->
  server_frame c s2 tick dt cleanup ops2 parts = Ok (s2', fo2) ->
  same_but slot s1' s2' /\ fo_tick fo1 = fo_tick fo2 /\ fo_ran fo1 = fo_ran fo2 /\
  forall sl, sl <> slot -> out_for sl (fo_clients fo1) = out_for sl (fo_clients fo2).
Proof. exact frame_independent. Qed.

Theorem C03V_run_independent : forall c slot l1 l2 g1 g2,
  Forall2 (gop_sim slot) l1 l2 ->
  grun c ginit l1 = Ok g1 -> grun c ginit l2 = Ok g2 ->
  same_but slot (g_srv g1) (g_srv g2) /\
  forall sl, sl <> slot -> sent_of sl (g_sent g1) = sent_of sl (g_sent g2).
Proof. exact run_independent. Qed.

(* one `SVis` addressed to a slot leaves every other client record and the world untouched *)
Theorem C03V_svis_touches_one_client : forall s slot e b,
  same_but slot (apply_sop s (SVis slot e b)) s.
Proof. exact svis_same_but. Qed.

Theorem C03V_same_but : forall slot s1 s2, same_but slot s1 s2 <->
  strip s1 = strip s2 /\
  Forall2 (fun c1 c2 => sc_slot c1 = sc_slot c2 /\ (sc_slot c1 <> slot -> c1 = c2)) (sv_clients s1) (sv_clients s2).
Proof. intros. reflexivity. Qed.

Print Assumptions C03V_struct_vis.
Print Assumptions C03V_struct_vis_no_visibility.
Print Assumptions C03V_vis_legal_reads.
Print Assumptions C03V_new_visibility_legal.
Print Assumptions C03V_set_visibility.
Print Assumptions C03V_update.
Print Assumptions C03V_apply_sop_preserves_pending.
Print Assumptions C03V_apply_sop_preserves_srv_ok.
Print Assumptions C03V_apply_sop_preserves_base.
Print Assumptions C03V_apply_sop_keeps_clients.
Print Assumptions C03V_cl_keep.
Print Assumptions C03V_set_visibility_keeps_vis_ok.
Print Assumptions C03V_buffer_removals.
Print Assumptions C03V_age_events_reset.
Print Assumptions C03V_acks.
Print Assumptions C03V_tick_sends_diff.
Print Assumptions C03V_tick_sends_diff_vis.
Print Assumptions C03V_known_hidden_is_despawned.
Print Assumptions C03V_lost_visibility_is_despawned.
Print Assumptions C03V_hidden_entity_not_in_message.
Print Assumptions C03V_despawn_records_explained.
Print Assumptions C03V_unknown_visible_is_sent_whole.
Print Assumptions C03V_frame.
Print Assumptions C03V_run_invariant.
Print Assumptions C03V_run_sends_diffs.
Print Assumptions C03V_first_update_is_full_visible_structure.
Print Assumptions C03V_authorized_starts_empty.
Print Assumptions C03V_between_ticks.
Print Assumptions C03V_pall_is_C03S.
Print Assumptions C03V_policy_decides_visibility_kind.
Print Assumptions C03V_frame_independent.
Print Assumptions C03V_run_independent.
Print Assumptions C03V_svis_touches_one_client.
Print Assumptions C03V_same_but.

(* ---- 7. the statements are not vacuous: concrete runs (vm_compute) ---- *)

(* the boolean `all_synced_v` of the examples means struct_equiv with the visible structure *)
Theorem C03V_all_synced_sound : forall g, all_synced_v g = true ->
  forall cl, In cl (sv_clients (g_srv g)) -> sc_authorized cl = true ->
    struct_equiv (sent_of (sc_slot cl) (g_sent g)) (struct_vis (g_srv g) cl).
Proof.
  unfold all_synced_v. intros g H cl Hin Ha. rewrite forallb_forall in H. specialize (H cl Hin).
  rewrite Ha in H. cbn [negb orb] in H. apply struct_eqb_sound. exact H.
Qed.
Print Assumptions C03V_all_synced_sound.

Definition ex_bl : cfg := mkCfg PBlack AuthNone false 1000.
Definition ex_wl : cfg := mkCfg PWhite AuthNone false 1000.
Definition ex_bl_auth : cfg := mkCfg PBlack AuthCustom true 1000.
Definition ex_wl_auth : cfg := mkCfg PWhite AuthCustom true 1000.
Definition fr (tick : bool) (ops : list sop) : gop := GFrame tick 10 false ops [].

(* structures sent so far; visible structure per client record; synced?; despawn buffer *)
Definition ex_view (r : res gstate) :=
  match r with
  | Ok g => Some (g_sent g, map (fun cl => (sc_slot cl, struct_vis (g_srv g) cl)) (sv_clients (g_srv g)),
                  all_synced_v g, sv_despawn_buf (g_srv g))
  | _ => None
  end.

(* the update message of the last frame of a run, for a slot *)
Definition ex_last_update (c : cfg) (l : list gop) (last : gop) (slot : N) : option update_msg :=
  match grun c ginit l, last with
  | Ok g, GFrame tick dt cleanup ops parts =>
    match server_frame c (g_srv g) tick dt cleanup ops parts with
    | Ok (_, fo) => upd_for slot (fo_clients fo)
    | _ => None
    end
  | _, _ => None
  end.

(* (a) two clients seeing different subsets.  Entities 1 {0,1}, 2 {0}, 3 {4}; client 0 sees 1 and 2,
       client 1 sees 2 and 3.  The settings are made in the frame of the first tick.
       Blacklist: every setting `false` made before the first tick produces a despawn record for an
       entity the client never held (see (h)); whitelist: none. *)
Definition ex_two : list gop :=
  [GStart; GConnect 0 1200; GConnect 1 1200;
   fr true [SSpawn 1 true [(0, VNat 1); (1, VNat 2)]; SSpawn 2 true [(0, VNat 5)]; SSpawn 3 true [(4, VNat 0)];
            SVis 0 3 false; SVis 1 1 false; SVis 0 1 true; SVis 0 2 true; SVis 1 2 true; SVis 1 3 true]].

Example C03V_ex_two_clients :
  ex_view (grun ex_bl ginit ex_two)
    = Some ([(0, [(1, [0; 1]); (2, [0])]); (1, [(2, [0]); (3, [4])])],
            [(0, [(1, [0; 1]); (2, [0])]); (1, [(2, [0]); (3, [4])])], true, []) /\
  ex_view (grun ex_wl ginit ex_two)
    = Some ([(0, [(1, [0; 1]); (2, [0])]); (1, [(2, [0]); (3, [4])])],
            [(0, [(1, [0; 1]); (2, [0])]); (1, [(2, [0]); (3, [4])])], true, []).
Proof. vm_compute. split; reflexivity. Qed.

Example C03V_ex_two_clients_first_messages :
  ex_last_update ex_bl (firstn 3 ex_two) (nth 3 ex_two GStart) 0
    = Some (mkUpd 1 [] [3] [] [(1, [(0, VNat 1); (1, VNat 2)]); (2, [(0, VNat 5)])]) /\
  ex_last_update ex_bl (firstn 3 ex_two) (nth 3 ex_two GStart) 1
    = Some (mkUpd 1 [] [1] [] [(2, [(0, VNat 5)]); (3, [(4, VNat 0)])]) /\
  ex_last_update ex_wl (firstn 3 ex_two) (nth 3 ex_two GStart) 0
    = Some (mkUpd 1 [] [] [] [(1, [(0, VNat 1); (1, VNat 2)]); (2, [(0, VNat 5)])]) /\
  ex_last_update ex_wl (firstn 3 ex_two) (nth 3 ex_two GStart) 1
    = Some (mkUpd 1 [] [] [] [(2, [(0, VNat 5)]); (3, [(4, VNat 0)])]).
Proof. vm_compute. repeat split; reflexivity. Qed.

(* (b) hide / show / hide of entity 1 for client 0 inside one tick window (three frames, a mutation in
       between; D21 was the whitelist version of this).  Before the closing tick the client still holds
       the entity, and the record's pending setting already says "hidden": `struct_vis` of a record
       between two ticks is NOT what the client holds.  The closing tick sends exactly one despawn to
       client 0 and nothing to client 1. *)
Definition ex_hsh : list gop :=
  ex_two ++ [fr false [SVis 0 1 false]; fr false [SVis 0 1 true; SMutate 1 0 (VNat 9)]; fr false [SVis 0 1 false]].

Example C03V_ex_pending_setting_does_not_count :
  ex_view (grun ex_bl ginit ex_hsh)
    = Some ([(0, [(1, [0; 1]); (2, [0])]); (1, [(2, [0]); (3, [4])])],
            [(0, [(2, [0])]); (1, [(2, [0]); (3, [4])])], false, []) /\
  ex_view (grun ex_wl ginit ex_hsh)
    = Some ([(0, [(1, [0; 1]); (2, [0])]); (1, [(2, [0]); (3, [4])])],
            [(0, [(2, [0])]); (1, [(2, [0]); (3, [4])])], false, []).
Proof. vm_compute. split; reflexivity. Qed.

Example C03V_ex_hide_show_hide :
  ex_last_update ex_bl ex_hsh (fr true []) 0 = Some (mkUpd 2 [] [1] [] []) /\
  ex_last_update ex_bl ex_hsh (fr true []) 1 = None /\
  ex_last_update ex_wl ex_hsh (fr true []) 0 = Some (mkUpd 2 [] [1] [] []) /\
  ex_last_update ex_wl ex_hsh (fr true []) 1 = None /\
  ex_view (grun ex_bl ginit (ex_hsh ++ [fr true []]))
    = Some ([(0, [(2, [0])]); (1, [(2, [0]); (3, [4])])], [(0, [(2, [0])]); (1, [(2, [0]); (3, [4])])], true, []) /\
  ex_view (grun ex_wl ginit (ex_hsh ++ [fr true []]))
    = Some ([(0, [(2, [0])]); (1, [(2, [0]); (3, [4])])], [(0, [(2, [0])]); (1, [(2, [0]); (3, [4])])], true, []).
Proof. vm_compute. repeat split; reflexivity. Qed.

(* the invariant holds in the middle of the window (instance of C03V_run_invariant) *)
Example C03V_ex_window_invariant :
  exists g, grun ex_wl ginit ex_hsh = Ok g /\ ginv_v g /\ all_synced_v g = false.
Proof.
  destruct (grun ex_wl ginit ex_hsh) as [g| |] eqn:E; [|vm_compute in E; discriminate|vm_compute in E; discriminate].
  exists g. split; [reflexivity|]. split; [exact (C03V_run_invariant ex_wl ex_hsh g E)|].
  vm_compute in E. injection E as <-. vm_compute. reflexivity.
Qed.

(* hide then show inside one window: settings cancel, no message at all *)
Definition ex_hs : list gop := ex_two ++ [fr false [SVis 0 1 false]; fr false [SVis 0 1 true]].
Example C03V_ex_hide_show_cancel :
  ex_last_update ex_bl ex_hs (fr true []) 0 = None /\ ex_last_update ex_wl ex_hs (fr true []) 0 = None.
Proof. vm_compute. split; reflexivity. Qed.

(* (c) hide + despawn in one tick (D03 was the blacklist version): exactly one despawn record for the
       client that held the entity, none for the client from which it was hidden all along *)
Definition ex_hd : list gop := ex_two ++ [fr false [SVis 0 1 false; SDespawn 1]].
Example C03V_ex_hide_and_despawn :
  ex_last_update ex_bl ex_hd (fr true []) 0 = Some (mkUpd 2 [] [1] [] []) /\
  ex_last_update ex_bl ex_hd (fr true []) 1 = None /\
  ex_last_update ex_wl ex_hd (fr true []) 0 = Some (mkUpd 2 [] [1] [] []) /\
  ex_last_update ex_wl ex_hd (fr true []) 1 = None /\
  ex_view (grun ex_bl ginit (ex_hd ++ [fr true []]))
    = Some ([(0, [(2, [0])]); (1, [(2, [0]); (3, [4])])], [(0, [(2, [0])]); (1, [(2, [0]); (3, [4])])], true, []) /\
  ex_view (grun ex_wl ginit (ex_hd ++ [fr true []]))
    = Some ([(0, [(2, [0])]); (1, [(2, [0]); (3, [4])])], [(0, [(2, [0])]); (1, [(2, [0]); (3, [4])])], true, []).
Proof. vm_compute. repeat split; reflexivity. Qed.

(* (d) visibility gained: entity 3 is shown to client 0 in a window in which it also gets a new component
       and loses one.  Client 0 receives the removal record (harmless: it creates the entity) and the
       WHOLE entity; client 1, which held it, receives the ordinary diff. *)
Definition ex_gain : list gop := ex_two ++ [fr false [SVis 0 3 true; SInsert 3 0 (VNat 4); SRemove 3 4]].
Example C03V_ex_gained :
  ex_last_update ex_bl ex_gain (fr true []) 0 = Some (mkUpd 2 [] [] [(3, [4])] [(3, [(0, VNat 4)])]) /\
  ex_last_update ex_bl ex_gain (fr true []) 1 = Some (mkUpd 2 [] [] [(3, [4])] [(3, [(0, VNat 4)])]) /\
  ex_last_update ex_wl ex_gain (fr true []) 0 = Some (mkUpd 2 [] [] [(3, [4])] [(3, [(0, VNat 4)])]) /\
  ex_view (grun ex_wl ginit (ex_gain ++ [fr true []]))
    = Some ([(0, [(1, [0; 1]); (2, [0]); (3, [0])]); (1, [(2, [0]); (3, [0])])],
            [(0, [(1, [0; 1]); (2, [0]); (3, [0])]); (1, [(2, [0]); (3, [0])])], true, []).
Proof. vm_compute. repeat split; reflexivity. Qed.

(* (e) a late joiner (slot 2) whose visibility is set before its first tick: its first update message is
       the full visible structure (blacklist: everything but 2; whitelist: only 1) *)
Definition ex_late : list gop := ex_two ++ [GConnect 2 1200; fr false [SVis 2 2 false; SVis 2 1 true]].
Example C03V_ex_late_joiner :
  ex_last_update ex_bl ex_late (fr true []) 2
    = Some (mkUpd 2 [] [2] [] [(1, [(0, VNat 1); (1, VNat 2)]); (3, [(4, VNat 0)])]) /\
  ex_last_update ex_wl ex_late (fr true []) 2 = Some (mkUpd 2 [] [] [] [(1, [(0, VNat 1); (1, VNat 2)])]) /\
  ex_view (grun ex_bl ginit (ex_late ++ [fr true []]))
    = Some ([(0, [(1, [0; 1]); (2, [0])]); (1, [(2, [0]); (3, [4])]); (2, [(1, [0; 1]); (3, [4])])],
            [(0, [(1, [0; 1]); (2, [0])]); (1, [(2, [0]); (3, [4])]); (2, [(1, [0; 1]); (3, [4])])], true, []) /\
  ex_view (grun ex_wl ginit (ex_late ++ [fr true []]))
    = Some ([(0, [(1, [0; 1]); (2, [0])]); (1, [(2, [0]); (3, [4])]); (2, [(1, [0; 1])])],
            [(0, [(1, [0; 1]); (2, [0])]); (1, [(2, [0]); (3, [4])]); (2, [(1, [0; 1])])], true, []).
Proof. vm_compute. repeat split; reflexivity. Qed.

(* (f) explicit authorization, stop / reset / restart: after the restart the re-authorized client starts
       from the empty structure and a fresh ClientVisibility; settings cancelling each other before the tick *)
Definition ex_sess : list gop :=
  [GStart; GConnect 0 1200; fr true [SSpawn 1 true [(0, VNat 1)]; SVis 0 1 true];
   GAuthorize 0; fr true [SSpawn 2 true [(1, VNat 4)]; SVis 0 1 true; SVis 0 2 false];
   fr true [SVis 0 1 false; SVis 0 2 true];
   GStop; fr true [SVis 0 1 true]; GStart; GConnect 0 1200; GAuthorize 0;
   fr false [SVis 0 2 true; SVis 0 2 false; SVis 0 1 true; SVis 0 1 false; SVis 0 1 true]].

Example C03V_ex_session :
  ex_view (grun ex_bl_auth ginit (firstn 5 ex_sess)) = Some ([(0, [(1, [0])])], [(0, [(1, [0])])], true, []) /\
  ex_view (grun ex_wl_auth ginit (firstn 5 ex_sess)) = Some ([(0, [(1, [0])])], [(0, [(1, [0])])], true, []) /\
  ex_view (grun ex_bl_auth ginit (firstn 6 ex_sess)) = Some ([(0, [(2, [1])])], [(0, [(2, [1])])], true, []) /\
  ex_view (grun ex_wl_auth ginit (firstn 6 ex_sess)) = Some ([(0, [(2, [1])])], [(0, [(2, [1])])], true, []) /\
  ex_view (grun ex_bl_auth ginit ex_sess) = Some ([(0, [])], [(0, [(1, [0])])], false, []) /\
  ex_view (grun ex_wl_auth ginit ex_sess) = Some ([(0, [])], [(0, [(1, [0])])], false, []) /\
  ex_view (grun ex_bl_auth ginit (ex_sess ++ [fr true []])) = Some ([(0, [(1, [0])])], [(0, [(1, [0])])], true, []) /\
  ex_view (grun ex_wl_auth ginit (ex_sess ++ [fr true []])) = Some ([(0, [(1, [0])])], [(0, [(1, [0])])], true, []).
Proof. vm_compute. repeat split; reflexivity. Qed.

(* (g) D22 at this level (known, open, NOT repaired here): a `Replicated` marker is removed and re-inserted
       inside one window, and client 1 is told to see entity 1 in between.  The tick processes the buffered
       despawn with `remove_despawned`, which forgets the setting.  Blacklist: the entity falls back to
       "visible" (sent whole to client 1, preceded by a despawn record for an entity it never held).
       Whitelist: the entity falls back to "hidden" for EVERY client: client 1 never receives it although
       the last setting says visible, and client 0, which held it and was never told to lose it, only gets
       the despawn.  The theorems above hold (they follow the model's state): `all_synced_v` is true. *)
Definition ex_d22 : list gop := ex_two ++ [fr false [SUnmark 1; SVis 1 1 true; SMark 1]].
Example C03V_ex_D22 :
  ex_last_update ex_bl ex_d22 (fr true []) 1 = Some (mkUpd 2 [] [1] [] [(1, [(0, VNat 1); (1, VNat 2)])]) /\
  ex_last_update ex_wl ex_d22 (fr true []) 1 = Some (mkUpd 2 [] [1] [] []) /\
  ex_last_update ex_wl ex_d22 (fr true []) 0 = Some (mkUpd 2 [] [1] [] []) /\
  ex_view (grun ex_wl ginit (ex_d22 ++ [fr true []; fr true []]))
    = Some ([(0, [(2, [0])]); (1, [(2, [0]); (3, [4])])], [(0, [(2, [0])]); (1, [(2, [0]); (3, [4])])], true, []).
Proof. vm_compute. repeat split; reflexivity. Qed.

(* (h) COUNTEREXAMPLE to "a despawn record is only sent for an entity the client holds or for a buffered
       despawn" (which is why C03V_despawn_records_explained says `v_prev`, not "holds"): blacklist, a new
       client, an entity hidden from it before it was ever sent.  `set_visibility(e, false)` on a blacklist
       without an entry for e puts e into `added`, `drain_lost` reports it, the update message carries a
       despawn record for an entity the client has never seen (the client ignores it; wasted bytes).  The
       whitelist does not do this. *)
Definition ex_unknown : list gop :=
  [GStart; GConnect 0 1200; fr true [SSpawn 1 true [(0, VNat 1)]; SSpawn 2 true []; SVis 0 1 false]].
Example C03V_ex_despawn_of_unknown_entity :
  ex_last_update ex_bl (firstn 2 ex_unknown) (nth 2 ex_unknown GStart) 0 = Some (mkUpd 1 [] [1] [] [(2, [])]) /\
  ex_last_update ex_wl (firstn 2 ex_unknown) (nth 2 ex_unknown GStart) 0 = None /\
  match grun ex_bl ginit (firstn 2 ex_unknown) with Ok g => Some (sent_of 0 (g_sent g), sv_despawn_buf (g_srv g)) | _ => None end
    = Some ([], []).
Proof. vm_compute. repeat split; reflexivity. Qed.

(* (i) independence (instance of C03V_run_independent): the run (b) and the same run without any setting
       for slot 0 after the first frame send the same structures to slot 1 *)
Definition ex_hsh_without : list gop :=
  ex_two ++ [fr false []; fr false [SMutate 1 0 (VNat 9)]; fr false []; fr true []].
Example C03V_ex_independent :
  Forall2 (gop_sim 0) (ex_hsh ++ [fr true []]) ex_hsh_without /\
  match grun ex_wl ginit (ex_hsh ++ [fr true []]), grun ex_wl ginit ex_hsh_without with
  | Ok g1, Ok g2 => sent_of 1 (g_sent g1) = sent_of 1 (g_sent g2) /\ sent_of 0 (g_sent g1) <> sent_of 0 (g_sent g2)
  | _, _ => False
  end.
Proof.
  split.
  - unfold ex_hsh, ex_hsh_without, ex_two. cbn [app].
    repeat (constructor; [first [apply gs_same | apply gs_frame; reflexivity]|]). constructor.
  - vm_compute. split; [reflexivity|discriminate].
Qed.
