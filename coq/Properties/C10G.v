(* C10 (relation-graph part) -- "entities connected through a relationship registered for
   synchronized replication are updated together or not at all": the graph maintained by
   src/server/related_entities.rs gives two entities the same graph index exactly when a chain
   of current edges (of any relation kinds) joins them, gives no index to an entity without an
   edge, and counts exactly the connected components.  Statements only; proofs are in
   Graph/Related_proofs.v.  The packing of one graph into one message is Properties/C10.v.

   Observables (the numbering of the graphs by Tarjan's algorithm is not modelled):
     has_index g e      = graph_index(e).is_some()
     same_graph g a b   = graph_index(a).is_some() && graph_index(a) == graph_index(b)
     graphs_count g     = graphs_count()
   each taken after `rebuild_graphs`, as the hook `verif::Graph::indices` does. *)
From RV Require Import Lib.Res Graph.Related Graph.Related_proofs.
Open Scope N_scope.

(* (a) same index <-> joined by a path of current edges; holds for every state *)
Theorem C10G_same_index_iff_connected : forall g a b,
  same_graph g a b = true <-> connected g a b.
Proof. exact same_graph_iff_connected. Qed.

(* (b) after any sequence of add / remove / clear: one node per entity, edges join registered
   entities, no registered entity without an edge ... *)
Theorem C10G_no_orphans : forall ops, wf (run_ops ops).
Proof. exact wf_run_ops. Qed.

Theorem C10G_invariant_steps : forall g k s t,
  wf g -> wf (add_relation g k s t) /\ wf (remove_relation g k s t) /\ wf (clear g).
Proof.
  intros g k s t H. split; [apply wf_add_relation; exact H|].
  split; [apply wf_remove_relation; exact H|apply wf_empty].
Qed.

(* ... so an entity has an index iff it is an endpoint of some current edge *)
Theorem C10G_has_index_iff_in_edge : forall g e, wf g ->
  (has_index g e = true <-> exists ed, In ed (g_edges g) /\ incident e ed = true).
Proof. exact has_index_iff_in_edge. Qed.

(* (c) the components are a partition of the registered entities into the classes of
   `connected`, and graphs_count is their number *)
Theorem C10G_components_partition : forall g, NoDup (g_nodes g) ->
  (forall n, In n (g_nodes g) <-> exists c, In c (components g) /\ In n c) /\
  (forall i j ci cj n, nth_error (components g) i = Some ci -> nth_error (components g) j = Some cj ->
                       In n ci -> In n cj -> i = j) /\
  (forall c, In c (components g) -> c <> [] /\ NoDup c) /\
  (forall c a b, In c (components g) -> In a c -> (In b c <-> connected g a b)) /\
  graphs_count g = N.of_nat (length (components g)).
Proof. exact components_partition. Qed.

(* graphs_count = number of equivalence classes, independently of `components`: the length of
   any list holding exactly one entity of each class; and such a list exists *)
Theorem C10G_graphs_count_classes : forall g reps, NoDup (g_nodes g) ->
  transversal g reps -> graphs_count g = N.of_nat (length reps).
Proof. exact graphs_count_classes. Qed.

Theorem C10G_transversal_exists : forall g, NoDup (g_nodes g) -> transversal g (representatives g).
Proof. exact representatives_transversal. Qed.

(* (d) add never separates, remove never merges *)
Theorem C10G_add_keeps_connected : forall g k s t a b,
  connected g a b -> connected (add_relation g k s t) a b.
Proof. exact add_keeps_connected. Qed.

Theorem C10G_add_connects : forall g k s t, connected (add_relation g k s t) s t.
Proof. exact add_connects. Qed.

Theorem C10G_remove_only_splits : forall g k s t a b,
  connected (remove_relation g k s t) a b -> connected g a b.
Proof. exact remove_only_splits. Qed.

(* one call removes ALL edges stored from source to target with this kind (parallel edges
   included), and nothing else -- in particular not an edge of this kind from target to source;
   with an unregistered entity it does nothing *)
Theorem C10G_remove_exact_edges : forall g k s t,
  registered g s = true -> registered g t = true ->
  g_edges (remove_relation g k s t) = filter (fun e => negb (to_remove k s t e)) (g_edges g).
Proof. exact remove_relation_edges. Qed.

Theorem C10G_to_remove_exact : forall k s t e, to_remove k s t e = true <-> e = (s, t, k).
Proof. exact to_remove_spec. Qed.

Theorem C10G_remove_unregistered : forall g k s t,
  registered g s = false \/ registered g t = false -> remove_relation g k s t = g.
Proof. exact remove_relation_unregistered. Qed.

Theorem C10G_remove_keeps_connected_by_other_edge : forall g k s t e,
  wf g -> In e (g_edges g) -> to_remove k s t e = false ->
  connected (remove_relation g k s t) (edge_source e) (edge_target e).
Proof. exact remove_keeps_connected_by_other_edge. Qed.

(* graph against world: the observers' calls follow the relationships of the world
   (OnInsert -> add, OnReplace -> remove).  The edges of the graph are exactly the relationships
   inserted and not replaced since the last clear, so every such relationship joins two
   entities of one graph.  No side condition (before commit 9283409 of /repo this needed "the
   world never holds two opposite relationships a -> b, b -> a of one kind"). *)
Theorem C10G_graph_edges_are_world : forall ops,
  g_edges (run_ops ops) = fold_left world_apply ops [].
Proof. exact run_ops_edges. Qed.

Theorem C10G_world_related_same_graph : forall ops s t k,
  In (s, t, k) (fold_left world_apply ops []) -> same_graph (run_ops ops) s t = true.
Proof. exact world_related_same_graph. Qed.

(* what the hook `Graph::indices` returns in terms of the observables *)
Theorem C10G_indices_spec : forall g es,
  length (fst (indices g es)) = length es /\
  snd (indices g es) = graphs_count g /\
  (forall i a, nth_error es i = Some a ->
     exists ra, nth_error (fst (indices g es)) i = Some ra /\
       (has_index g a = match ra with Some _ => true | None => false end) /\
       forall j b rb, nth_error es j = Some b -> nth_error (fst (indices g es)) j = Some rb ->
         same_graph g a b = match ra, rb with Some x, Some y => x =? y | _, _ => false end).
Proof. exact indices_spec. Qed.

(* ---------- unit tests of related_entities.rs `mod tests`, as add / remove calls ----------
   kind 0 = ChildOf, kind 1 = OwnedBy; entities are numbered in spawn order from 1.
   `x.add_child(c)` inserts ChildOf(x) on c: one `add_relation::<ChildOf>(c, x)`. *)
Definition ChildOf : N := 0.
Definition OwnedBy : N := 1.

(* child1 = 1, child2 = 2, root = 3 *)
Example C10G_test_single :
  let g := run_ops [OpAdd ChildOf 1 3; OpAdd ChildOf 2 3] in
  graphs_count g = 1 /\ same_graph g 3 1 = true /\ same_graph g 3 2 = true.
Proof. vm_compute. repeat split. Qed.

(* child1 = 1, root1 = 2, child2 = 3, root2 = 4 *)
Example C10G_test_disjoint :
  let g := run_ops [OpAdd ChildOf 1 2; OpAdd ChildOf 3 4] in
  graphs_count g = 2 /\ same_graph g 2 1 = true /\ same_graph g 4 3 = true /\
  same_graph g 2 4 = false.
Proof. vm_compute. repeat split. Qed.

(* grandchild = 1, child = 2, root = 3 *)
Example C10G_test_nested :
  let g := run_ops [OpAdd ChildOf 1 2; OpAdd ChildOf 2 3] in
  graphs_count g = 1 /\ same_graph g 3 2 = true /\ same_graph g 3 1 = true.
Proof. vm_compute. repeat split. Qed.

(* grandgrandchild = 1, grandchild = 2, child = 3, root = 4; grandchild loses ChildOf *)
Example C10G_test_split :
  let g := run_ops [OpAdd ChildOf 1 2; OpAdd ChildOf 2 3; OpAdd ChildOf 3 4; OpRemove ChildOf 2 3] in
  graphs_count g = 2 /\ same_graph g 4 3 = true /\ same_graph g 2 1 = true /\
  same_graph g 3 2 = false.
Proof. vm_compute. repeat split. Qed.

(* child1 = 1, root1 = 2, child2 = 3, root2 = 4; child1.add_child(root2) *)
Example C10G_test_join :
  let g := run_ops [OpAdd ChildOf 1 2; OpAdd ChildOf 3 4; OpAdd ChildOf 4 1] in
  graphs_count g = 1 /\ same_graph g 2 1 = true /\ same_graph g 2 4 = true /\ same_graph g 2 3 = true.
Proof. vm_compute. repeat split. Qed.

(* child1.insert(ChildOf(root2)): OnReplace removes child1 -> root1, OnInsert adds child1 -> root2 *)
Example C10G_test_reparent :
  let g := run_ops [OpAdd ChildOf 1 2; OpAdd ChildOf 3 4; OpRemove ChildOf 1 2; OpAdd ChildOf 1 4] in
  graphs_count g = 1 /\ has_index g 2 = false /\ same_graph g 1 4 = true /\ same_graph g 1 3 = true.
Proof. vm_compute. repeat split. Qed.

(* child = 1, root = 2 *)
Example C10G_test_orphan_after_split :
  let g := run_ops [OpAdd ChildOf 1 2; OpRemove ChildOf 1 2] in
  graphs_count g = 0 /\ has_index g 1 = false /\ has_index g 2 = false /\ g = rgraph_empty.
Proof. vm_compute. repeat split. Qed.

(* child1 = 1, child2 = 2, root = 3; despawning root despawns the children: each ChildOf is replaced *)
Example C10G_test_despawn :
  let g := run_ops [OpAdd ChildOf 1 3; OpAdd ChildOf 2 3; OpRemove ChildOf 1 3; OpRemove ChildOf 2 3] in
  graphs_count g = 0 /\ has_index g 1 = false /\ has_index g 2 = false /\ has_index g 3 = false.
Proof. vm_compute. repeat split. Qed.

(* child = 1, root1 = 2, root2 = 3 *)
Example C10G_test_intersection :
  let g := run_ops [OpAdd ChildOf 1 2; OpAdd OwnedBy 1 3] in
  graphs_count g = 1 /\ same_graph g 2 3 = true /\ same_graph g 2 1 = true.
Proof. vm_compute. repeat split. Qed.

(* child = 1, root = 2: two parallel edges of different kinds *)
Example C10G_test_overlap :
  let g := run_ops [OpAdd ChildOf 1 2; OpAdd OwnedBy 1 2] in
  graphs_count g = 1 /\ same_graph g 2 1 = true /\ length (g_edges g) = 2%nat.
Proof. vm_compute. repeat split. Qed.

(* removing one of two parallel edges of DIFFERENT kinds keeps the entities together *)
Example C10G_test_overlap_removal :
  let g := run_ops [OpAdd ChildOf 1 2; OpAdd OwnedBy 1 2; OpRemove ChildOf 1 2] in
  graphs_count g = 1 /\ same_graph g 2 1 = true /\ g_edges g = [(1, 2, OwnedBy)].
Proof. vm_compute. repeat split. Qed.

(* grandchild = 1, child = 2, root = 3 *)
Example C10G_test_connected :
  let g := run_ops [OpAdd ChildOf 1 2; OpAdd OwnedBy 2 3] in
  graphs_count g = 1 /\ same_graph g 3 2 = true /\ same_graph g 3 1 = true.
Proof. vm_compute. repeat split. Qed.

(* child loses Replicated: stop_replication::<ChildOf> and stop_replication::<OwnedBy> *)
Example C10G_test_replication_stop :
  let g := run_ops [OpAdd ChildOf 1 2; OpAdd OwnedBy 1 2; OpRemove ChildOf 1 2; OpRemove OwnedBy 1 2] in
  graphs_count g = 0 /\ has_index g 1 = false /\ has_index g 2 = false.
Proof. vm_compute. repeat split. Qed.

(* `spawn((Replicated, ChildOf(p)))` fires both `add_relation` and `start_replication`: two
   parallel edges of the SAME kind; one `remove_relation` removes both *)
Example C10G_same_kind_parallel_edges_removed_in_one_call :
  let g := run_ops [OpAdd ChildOf 1 2; OpAdd ChildOf 1 2] in
  length (g_edges g) = 2%nat /\ graphs_count g = 1 /\
  remove_relation g ChildOf 1 2 = rgraph_empty.
Proof. vm_compute. repeat split. Qed.

(* the stored direction matters for the removal: a reversed call removes nothing *)
Example C10G_reversed_remove_keeps_edge :
  remove_relation (run_ops [OpAdd ChildOf 1 2]) ChildOf 2 1 = run_ops [OpAdd ChildOf 1 2] /\
  same_graph (run_ops [OpAdd ChildOf 1 2; OpRemove ChildOf 2 1]) 1 2 = true.
Proof. vm_compute. repeat split. Qed.

(* self-loops (`source = target`): counted as an incident edge by `is_orphan`; removed by
   `remove_relation(e, e)`, where `remove_entity` runs twice for the same entity *)
Example C10G_self_loop :
  let g := run_ops [OpAdd ChildOf 5 5] in
  has_index g 5 = true /\ graphs_count g = 1 /\ same_graph g 5 5 = true /\
  remove_relation g ChildOf 5 5 = rgraph_empty /\
  (let g' := run_ops [OpAdd ChildOf 5 5; OpAdd ChildOf 5 6; OpRemove ChildOf 5 6] in
   has_index g' 5 = true /\ has_index g' 6 = false /\ graphs_count g' = 1).
Proof. vm_compute. repeat split. Qed.

(* the hook: per entity the representative of its graph, and the count *)
Example C10G_hook_split :
  graph_run [OpAdd 0 1 2; OpAdd 0 2 3; OpAdd 0 3 4; OpRemove 0 2 3] [4; 3; 2; 1; 9]
  = ([Some 3; Some 3; Some 1; Some 1; None], 2).
Proof. vm_compute. reflexivity. Qed.

(* Regression for the defect fixed by commit 9283409 of /repo.  1 gets Rel(2), 2 gets Rel(1)
   (same kind), then 1 loses its Rel: only the edge 1 -> 2 goes, the relationship 2 -> 1 that still
   exists keeps its edge and both entities stay in one graph.  (Before the fix the call removed the
   edges between 1 and 2 in both directions and both entities lost their index.) *)
Example C10G_opposite_relation_kept :
  let ops := [OpAdd 0 1 2; OpAdd 0 2 1; OpRemove 0 1 2] in
  fold_left world_apply ops [] = [(2, 1, 0)] /\
  g_edges (run_ops ops) = [(2, 1, 0)] /\
  same_graph (run_ops ops) 2 1 = true /\
  has_index (run_ops ops) 1 = true /\ has_index (run_ops ops) 2 = true /\
  graphs_count (run_ops ops) = 1 /\
  graph_run ops [1; 2] = ([Some 2; Some 2], 1).
Proof. vm_compute. repeat split. Qed.

(* the same with parallel edges: both 1 -> 2 edges go in one call, 2 -> 1 stays *)
Example C10G_opposite_relation_kept_parallel :
  g_edges (run_ops [OpAdd 0 1 2; OpAdd 0 2 1; OpAdd 0 1 2; OpRemove 0 1 2]) = [(2, 1, 0)].
Proof. vm_compute. reflexivity. Qed.

Check C10G_same_index_iff_connected : forall g a b, same_graph g a b = true <-> connected g a b.
Check C10G_no_orphans : forall ops, wf (run_ops ops).
Check C10G_add_keeps_connected : forall g k s t a b,
  connected g a b -> connected (add_relation g k s t) a b.
Check C10G_remove_only_splits : forall g k s t a b,
  connected (remove_relation g k s t) a b -> connected g a b.
Print Assumptions C10G_same_index_iff_connected.
Print Assumptions C10G_no_orphans.
Print Assumptions C10G_invariant_steps.
Print Assumptions C10G_has_index_iff_in_edge.
Print Assumptions C10G_components_partition.
Print Assumptions C10G_graphs_count_classes.
Print Assumptions C10G_transversal_exists.
Print Assumptions C10G_add_keeps_connected.
Print Assumptions C10G_add_connects.
Print Assumptions C10G_remove_only_splits.
Print Assumptions C10G_remove_exact_edges.
Print Assumptions C10G_remove_unregistered.
Print Assumptions C10G_remove_keeps_connected_by_other_edge.
Print Assumptions C10G_to_remove_exact.
Print Assumptions C10G_graph_edges_are_world.
Print Assumptions C10G_world_related_same_graph.
Print Assumptions C10G_indices_spec.
Print Assumptions C10G_opposite_relation_kept.
