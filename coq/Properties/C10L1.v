(* C10 (Layer 1) -- the mutations of an entity are never split over messages, and an entity is
   either in the update message or in a mutate message of a tick, never both.
   Model: Repl/Server.v (`send_for_client`; the distribution of a tick's mutated entities over
   mutate messages is the oracle input p, checked by `partition_ok`; Layer 0, Properties/C10.v,
   is about the real split loop).  Helper names: Repl/ServerSpec.v -- `mutated_set s run cl` is
   the `muts` list accumulated by the fold of `send_for_client` (C10L1_send_for_client_result).
   Proofs: Repl/Server_proofs.v.  Arbitrary states, configurations, oracles. *)
From RV Require Import Lib.Res Repl.ClientTicks Repl.World Vis.Visibility Repl.Server Repl.ServerSpec
  Repl.Server_proofs.
From Coq Require Import Permutation.
From RV Require Import Repl.ClientTicks_proofs.
Open Scope N_scope.

(* the helper definitions are what `send_for_client` computes *)
Theorem C10L1_send_for_client_result : forall c s this_run cl p cl' out,
  send_for_client c s this_run cl p = Ok (cl', out) ->
  cl' = mkSC (sc_slot cl) true (sc_max_size cl)
             (mut_ticks this_run (sv_elapsed s) (sfc_ticks3 s this_run cl) (sfc_parts c s this_run cl p))
             (match sfc_vis1 s cl with Some v => Some (update v) | None => None end) [] /\
  out = mkCO (sc_slot cl)
             (if sfc_has_upd s this_run cl then Some (sfc_upd s this_run cl) else None)
             (mut_msgs (cfg_track c) (sv_tick s) (ct_update_tick (sfc_ticks3 s this_run cl))
                       (N.of_nat (length (sfc_parts c s this_run cl p))) (mutated_set s this_run cl)
                       (ct_mutate_index (sc_ticks cl)) (sfc_parts c s this_run cl p))
             (negb (partition_ok (cfg_track c) (mutated_set s this_run cl) p)).
Proof. exact sfc_result. Qed.

(* the mutated set: entities that are not hidden, replicated, with a non-empty list of current
   component values *)
Theorem C10L1_mutated_set_sound : forall s this_run cl e m,
  In (e, m) (mutated_set s this_run cl) ->
  m <> [] /\ vis_state_of (sfc_vis1 s cl) e <> VHidden /\
  exists x madd, In (e, x, madd) (replicated_ents s) /\
    forall k v, In (k, v) m -> exists comp, In (k, comp) (se_comps x) /\ v = c_val comp.
Proof. exact mutated_set_sound. Qed.

(* 8. with an accepted partition: the bodies of the mutate messages, concatenated, are a
      permutation of the mutated set and no entity occurs twice (so every mutated entity is in
      exactly one message, with all its mutated components); when something was mutated there is
      at least one message and only the LAST one can have an empty body (the real split loop can
      start a trailing message that stays empty), all others are non-empty; the indices are the consecutive ones handed out from the client's
      `ct_mutate_index`; all messages carry the server tick, the same update tick, and the
      number of messages when tracking; and (at most 2^16 messages: no index collision) every
      message is in flight in the client's ticks with exactly its entities *)
Theorem C10L1_mutations_partitioned : forall c s this_run cl p cl' out,
  send_for_client c s this_run cl p = Ok (cl', out) -> co_bad_partition out = false ->
  let muts := mutated_set s this_run cl in
  let msgs := co_mutates out in
  Permutation (concat (map m_body msgs)) muts /\
  NoDup (map fst (concat (map m_body msgs))) /\
  (muts <> [] -> exists front last, msgs = front ++ [last] /\ forall m, In m front -> m_body m <> []) /\
  map m_idx msgs = idx_seq (ct_mutate_index (sc_ticks cl)) (length msgs) /\
  (forall m, In m msgs ->
     m_tick m = sv_tick s /\ m_upd_tick m = ct_update_tick (sc_ticks cl') /\
     m_count m = if cfg_track c then N.of_nat (length msgs) else 1) /\
  (N.of_nat (length msgs) <= 2 ^ 16 -> forall m, In m msgs ->
     al_get (m_idx m) (ct_mutations (sc_ticks cl')) = Some (mkMI this_run (sv_elapsed s) (map fst (m_body m)))).
Proof. exact mutations_partitioned. Qed.

(* `idx_seq`: consecutive modulo 2^16, pairwise different up to 2^16 of them *)
Theorem C10L1_idx_seq : forall start n,
  (idx_seq start 0 = [] /\ idx_seq start (S n) = start :: idx_seq ((start + 1) mod 2 ^ 16) n) /\
  (start < 2 ^ 16 -> forall i, (i < n)%nat -> nth i (idx_seq start n) 0 = (start + N.of_nat i) mod 2 ^ 16) /\
  (N.of_nat n <= 2 ^ 16 -> NoDup (idx_seq start n)).
Proof.
  intros start n. split; [split; reflexivity|]. split.
  - intros Hs i Hi. apply idx_seq_nth; assumption.
  - apply idx_seq_nodup.
Qed.

(* 9. an entity with an entry in the update message gets its mutation tick set to this run, and
      (unique entity keys) has no entry in any mutate message of the same run *)
Theorem C10L1_update_or_mutate_exclusive : forall c s this_run cl p cl' out u e en,
  send_for_client c s this_run cl p = Ok (cl', out) -> co_update out = Some u -> In (e, en) (u_changes u) ->
  mutation_tick (sc_ticks cl') e = Some this_run /\
  (ents_wf s -> forall m, In m (co_mutates out) -> ~ In e (map fst (m_body m))).
Proof. exact update_or_mutate_exclusive. Qed.

(* whatever the oracle: a body entry is the entity's WHOLE mutated list (never split) ... *)
Theorem C10L1_mutations_never_split : forall c s this_run cl p cl' out m e vals,
  send_for_client c s this_run cl p = Ok (cl', out) -> In m (co_mutates out) -> In (e, vals) (m_body m) ->
  In (e, vals) (mutated_set s this_run cl).
Proof. exact mutations_never_split. Qed.

(* ... and a rejected oracle is replaced by the single message holding the whole mutated set *)
Theorem C10L1_bad_partition_fallback : forall c s this_run cl p cl' out,
  send_for_client c s this_run cl p = Ok (cl', out) -> co_bad_partition out = true ->
  let muts := mutated_set s this_run cl in
  let upd_tick := match co_update out with Some _ => sv_tick s | None => ct_update_tick (sc_ticks cl) end in
  co_mutates out =
    match muts with
    | [] => if cfg_track c then [mkMut upd_tick (sv_tick s) 1 (ct_mutate_index (sc_ticks cl)) []] else []
    | _ => [mkMut upd_tick (sv_tick s) 1 (ct_mutate_index (sc_ticks cl)) (mut_body muts (map fst muts))]
    end /\
  (NoDup (map fst muts) -> mut_body muts (map fst muts) = muts).
Proof. exact bad_partition_fallback. Qed.

(* unique entity keys: no entity is listed twice in the changes array or in the mutated set *)
Theorem C10L1_changed_mutated_nodup : forall s this_run cl, ents_wf s ->
  NoDup (map fst (changed_set s this_run cl)) /\ NoDup (map fst (mutated_set s this_run cl)).
Proof. exact changed_mutated_nodup. Qed.

(* ---- non-vacuity: one client, tracking on, three entities ---- *)
Definition ex10_cfg := mkCfg PAll AuthNone true 1000.
Definition ex10_s1 := connect_client ex10_cfg (set_running server_init true) 1 1200.
Definition ex10_after (r : res (server * frame_out)) : server :=
  match r with Ok (s, _) => s | _ => server_init end.
Definition ex10_outs (r : res (server * frame_out)) : option (list client_out) :=
  match r with Ok (_, fo) => Some (fo_clients fo) | _ => None end.
Definition ex10_fA := server_frame ex10_cfg ex10_s1 true 16 false
  [SSpawn 10 true [(0, VNat 5); (1, VNat 7)]; SSpawn 11 true [(0, VNat 1)]; SSpawn 13 true [(1, VNat 9)]] [(1, [[]])].
Definition ex10_opsB := [SMutate 10 0 (VNat 8); SMutate 10 1 (VNat 4); SMutate 13 1 (VNat 3); SInsert 11 1 (VNat 2)].

(* two mutate messages (oracle [[13];[10]]): both components of 10 stay together, count = 2,
   indices 1 and 2; entity 11 (insertion) is in the update message only *)
Example C10L1_ex_two_messages :
  ex10_outs (server_frame ex10_cfg (ex10_after ex10_fA) true 16 false ex10_opsB [(1, [[13]; [10]])]) =
  Some [mkCO 1 (Some (mkUpd 2 [] [] [] [(11, [(1, VNat 2)])]))
             [mkMut 2 2 2 1 [(13, [(1, VNat 3)])]; mkMut 2 2 2 2 [(10, [(0, VNat 8); (1, VNat 4)])]] false].
Proof. vm_compute. reflexivity. Qed.

(* an oracle that forgets entity 13 is rejected (flag set) and replaced by the single message *)
Example C10L1_ex_bad_partition :
  ex10_outs (server_frame ex10_cfg (ex10_after ex10_fA) true 16 false ex10_opsB [(1, [[10]])]) =
  Some [mkCO 1 (Some (mkUpd 2 [] [] [] [(11, [(1, VNat 2)])]))
             [mkMut 2 2 1 1 [(10, [(0, VNat 8); (1, VNat 4)]); (13, [(1, VNat 3)])]] true].
Proof. vm_compute. reflexivity. Qed.

(* a trailing empty message is accepted (count 3, the last body empty); an empty one in the middle is not *)
Example C10L1_ex_trailing_empty :
  ex10_outs (server_frame ex10_cfg (ex10_after ex10_fA) true 16 false ex10_opsB [(1, [[13]; [10]; []])]) =
  Some [mkCO 1 (Some (mkUpd 2 [] [] [] [(11, [(1, VNat 2)])]))
             [mkMut 2 2 3 1 [(13, [(1, VNat 3)])]; mkMut 2 2 3 2 [(10, [(0, VNat 8); (1, VNat 4)])];
              mkMut 2 2 3 3 []] false] /\
  option_map (map co_bad_partition)
    (ex10_outs (server_frame ex10_cfg (ex10_after ex10_fA) true 16 false ex10_opsB [(1, [[13]; []; [10]])])) = Some [true].
Proof. split; vm_compute; reflexivity. Qed.

(* the in-flight bookkeeping after the two messages *)
Example C10L1_ex_in_flight :
  map (fun cl => ct_mutations (sc_ticks cl))
      (sv_clients (ex10_after (server_frame ex10_cfg (ex10_after ex10_fA) true 16 false ex10_opsB [(1, [[13]; [10]])]))) =
  [[(0, mkMI 1 16 []); (1, mkMI 2 32 [13]); (2, mkMI 2 32 [10])]].
Proof. vm_compute. reflexivity. Qed.

Print Assumptions C10L1_send_for_client_result.
Print Assumptions C10L1_mutated_set_sound.
Print Assumptions C10L1_mutations_partitioned.
Print Assumptions C10L1_idx_seq.
Print Assumptions C10L1_update_or_mutate_exclusive.
Print Assumptions C10L1_mutations_never_split.
Print Assumptions C10L1_bad_partition_fallback.
Print Assumptions C10L1_changed_mutated_nodup.

(* the wrap-around of the mutate index in the model is that of the current source *)
Theorem C10L1_mutate_index_width_pinned : (RV.Generated.Params.mutate_index_width = 16)%N.
Proof. exact mutate_index_width_pinned. Qed.
Print Assumptions C10L1_mutate_index_width_pinned.
