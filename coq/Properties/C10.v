(* C10 (packing part) -- mutations of one entity or of one related group are never split across
   messages; when every entity / group fits, no message exceeds the limit; when everything fits
   into one message only one is sent.  Statements only; proofs are in Pack/Packing_proofs.v.

   "fits" is read with the header the first loop of `Mutations::send` accounts for
   (`header_size_of`: update tick + server tick + 10 reserved bytes for the message count when
   mutate messages are tracked + 2 bytes of mutate index).  With tracking this is 9 bytes more
   than what is written for fewer than 128 messages; see the two `tracked_*` examples at the
   end for what the code does between the two readings. *)
From RV Require Import Lib.Res Wire.Varint Pack.Packing Pack.Packing_proofs.
Open Scope N_scope.

(* nothing is lost, duplicated or reordered, and a chunk (one standalone entity, or one related
   group) is never divided between messages: the chunk lists of the messages concatenate to the input *)
Theorem C10_split_partition : forall utl stl track mtu chunks out,
  split utl stl track mtu chunks = Ok out -> concat (map snd out) = chunks.
Proof. exact split_partition. Qed.

(* loop invariant header + body <= mtu *)
Theorem C10_split_fits : forall utl stl track mtu chunks out,
  header_size_of utl stl track <= mtu ->
  (forall c, In c chunks -> header_size_of utl stl track + chunk_size c <= mtu) ->
  split utl stl track mtu chunks = Ok out ->
  Forall (fun m => fst m <= mtu) out.
Proof. exact split_fits. Qed.

Theorem C10_split_single : forall utl stl track mtu chunks,
  header_size_of utl stl track + sumN (map chunk_size chunks) <= mtu ->
  split utl stl track mtu chunks
  = Ok (match chunks with
        | [] => if track then [(header_size_of utl stl track, [])] else []
        | _ => [(sumN (map chunk_size chunks) + header_size_of utl stl track, chunks)]
        end).
Proof. exact split_single. Qed.

(* the accounted size is header + sizes of the message's chunks ... *)
Theorem C10_split_accounted : forall utl stl track mtu chunks out,
  split utl stl track mtu chunks = Ok out ->
  Forall (fun m => fst m = header_size_of utl stl track + sumN (map chunk_size (snd m))) out.
Proof. exact split_accounted. Qed.

(* ... the second loop runs without panic (debug_assert_eq!(message.len(), message_size) holds),
   and every message it sends has exactly the adjusted accounted size, which is the number of
   bytes written and at most the accounted size *)
Theorem C10_emitted_matches_accounted : forall utl stl track mtu related standalone ms,
  split_ranges utl stl track mtu (chunks_of related standalone) = Ok ms ->
  let count := N.of_nat (length ms) in
  emit utl stl track related standalone ms = Ok (map (sent_message track count) ms) /\
  Forall (fun m : message =>
            final_size track count (fst m)
            = emitted_len utl stl track count
                (concat (slice_tot (chunks_of related standalone) (snd m))) /\
            final_size track count (fst m) <= fst m) ms.
Proof. exact emitted_eq_accounted. Qed.

(* for a non-zero limit neither loop panics or fails *)
Theorem C10_split_total : forall utl stl track mtu chunks, 0 < mtu ->
  exists out, split utl stl track mtu chunks = Ok out.
Proof. exact split_no_panic. Qed.

Theorem C10_hook_total : forall utl stl related standalone track mtu, 0 < mtu ->
  exists out, mutations_split utl stl related standalone track mtu = Ok out.
Proof. exact mutations_split_total. Qed.

(* the same in terms of what the hook `verif::mutations_split` returns: real message lengths
   and entity numbers in writing order *)
Theorem C10_hook_exactly_once : forall utl stl related standalone track mtu out,
  mutations_split utl stl related standalone track mtu = Ok out ->
  let n := N.of_nat (length (concat related ++ standalone)) in
  (forall i, i < n <-> exists m, In m out /\ In i (snd m)) /\
  NoDup (concat (map snd out)) /\
  (forall a b x y i, nth_error out a = Some x -> nth_error out b = Some y ->
     In i (snd x) -> In i (snd y) -> a = b).
Proof. exact mutations_split_exactly_once. Qed.

Theorem C10_hook_order : forall utl stl related standalone track mtu out,
  mutations_split utl stl related standalone track mtu = Ok out ->
  concat (map snd out) = number_from 0 (concat related ++ standalone).
Proof. exact mutations_split_ids. Qed.

Theorem C10_hook_groups : forall utl stl related standalone track mtu out g,
  mutations_split utl stl related standalone track mtu = Ok out ->
  In g (number_groups 0 related) ->
  exists m, In m out /\ incl g (snd m).
Proof. exact mutations_split_groups. Qed.

Theorem C10_hook_fits : forall utl stl related standalone track mtu out,
  header_size_of utl stl track <= mtu ->
  (forall g, In g related -> header_size_of utl stl track + chunk_size g <= mtu) ->
  (forall e, In e standalone -> header_size_of utl stl track + entity_size e <= mtu) ->
  mutations_split utl stl related standalone track mtu = Ok out ->
  Forall (fun m => fst m <= mtu) out.
Proof. exact mutations_split_fits. Qed.

Theorem C10_hook_single : forall utl stl related standalone track mtu out,
  header_size_of utl stl track + sumN (map entity_size (concat related ++ standalone)) <= mtu ->
  mutations_split utl stl related standalone track mtu = Ok out ->
  (length out <= 1)%nat /\
  ((concat related ++ standalone <> [] \/ track = true) -> length out = 1%nat).
Proof. exact mutations_split_single. Qed.

Theorem C10_hook_lengths : forall utl stl related standalone track mtu out sp,
  mutations_split utl stl related standalone track mtu = Ok out ->
  split utl stl track mtu (chunks_of related standalone) = Ok sp ->
  Forall2 (fun o s => fst o = emitted_len utl stl track (N.of_nat (length sp)) (concat (snd s)) /\
                      fst o <= fst s) out sp.
Proof. exact mutations_split_vs_split. Qed.

(* non-vacuity: two entities of 702 bytes, limit 1200 -> the hypotheses of C10_split_fits hold
   and two messages of 705 bytes come out; a related pair of the same sizes stays in one message *)
Example C10_fits_two_messages :
  (forall c, In c (chunks_of [] [(4, 696); (4, 696)]) -> header_size_of 1 0 false + chunk_size c <= 1200) /\
  mutations_split 1 0 [] [(4, 696); (4, 696)] false 1200 = Ok [(705, [0]); (705, [1])] /\
  mutations_split 1 0 [[(4, 696); (4, 696)]] [] false 1200 = Ok [(1407, [0; 1])].
Proof.
  split; [|split; vm_compute; reflexivity].
  intros c [<- | [<- | []]]; vm_compute; discriminate.
Qed.

Example C10_single_message :
  header_size_of 1 0 false + sumN (map entity_size [(4, 16); (4, 16)]) <= 1200 /\
  mutations_split 1 0 [[(4, 16)]] [(4, 16)] false 1200 = Ok [(45, [0; 1])].
Proof. split; vm_compute; [discriminate|reflexivity]. Qed.

(* What the code does when "fits" is read with the bytes really written (tracking on, header 4
   instead of the accounted 13).  These are facts about the Rust code, not defects of the model:
   (a) two entities that alone give messages of 1200 and 15 bytes are sent as ONE message of 1211
       bytes for a limit of 1200;
   (b) two entities that fit together into 1199 bytes are sent as two messages. *)
Example C10_tracked_message_exceeds_limit :
  mutations_split 1 0 [] [(4, 1190)] true 1200 = Ok [(1200, [0])] /\
  mutations_split 1 0 [] [(4, 6)] true 1200 = Ok [(15, [0])] /\
  mutations_split 1 0 [] [(4, 1190); (4, 6)] true 1200 = Ok [(1211, [0; 1])].
Proof. exact tracked_message_exceeds_limit. Qed.
Example C10_tracked_two_messages_where_one_suffices :
  emitted_len 1 0 true 1 [(4, 594); (4, 589)] = 1199 /\
  mutations_split 1 0 [] [(4, 594); (4, 589)] true 1200 = Ok [(604, [0]); (599, [1])].
Proof. exact tracked_two_messages_where_one_suffices. Qed.

Check C10_split_partition : forall utl stl track mtu chunks out,
  split utl stl track mtu chunks = Ok out -> concat (map snd out) = chunks.
Check C10_split_total : forall utl stl track mtu chunks, 0 < mtu ->
  exists out, split utl stl track mtu chunks = Ok out.
Print Assumptions C10_split_partition.
Print Assumptions C10_split_fits.
Print Assumptions C10_split_single.
Print Assumptions C10_split_accounted.
Print Assumptions C10_emitted_matches_accounted.
Print Assumptions C10_split_total.
Print Assumptions C10_hook_total.
Print Assumptions C10_hook_exactly_once.
Print Assumptions C10_hook_order.
Print Assumptions C10_hook_groups.
Print Assumptions C10_hook_fits.
Print Assumptions C10_hook_single.
Print Assumptions C10_hook_lengths.
Print Assumptions C10_tracked_message_exceeds_limit.
