(* C01 -- convergence, end to end.  These are the statements of Properties/C02E.v that ARE property C01 on the Layer 1 model,
   pinned again under C01 so that the C01 check carries them as obligations (same lemmas, same scope: policy PAll, legal
   single-session scripts, every-tick nat components, no replication at tick 0, < 2^31 ticks, < 2^16 registered mutate messages
   per client).  Outside that scope C01 is decided by correspondence + oracle; the refutations for the open findings are in
   Properties/C01.v. *)
From RV Require Import Lib.Res Repl.ClientTicks Repl.World Vis.Visibility Repl.Server Repl.ServerSpec
  Repl.StructSpec Repl.Client Repl.Sys Repl.Ack_proofs Repl.Converge Repl.Witness
  Repl.ClientStructSpec Repl.ClientStruct_proofs Repl.StructE2E_proofs Repl.StructE2EMut_proofs
  Repl.ValSpec Repl.ValSnap_proofs Repl.ValHist_proofs Repl.ValClient_proofs Repl.ValServer_proofs
  Repl.ValCli_proofs Repl.ValSrv_proofs Repl.ValFrame_proofs Repl.ValE2E_proofs Repl.ValSettle_proofs Tick.ConfirmHistory.
Open Scope N_scope.

Theorem C01E_ack_sound : forall cfg0 nclients, cfg_policy cfg0 = PAll -> forall script y slot c cl e a,
  script_scope cfg0 nclients script -> run (sys_init cfg0 nclients) script = Ok y ->
  al_get slot (y_clients y) = Some c -> cl_status c = Connected ->
  In cl (sv_clients (y_server y)) -> sc_slot cl = slot -> mutation_tick (sc_ticks cl) e = Some a ->
  exists pre post y1, script = pre ++ post /\ run (sys_init cfg0 nclients) pre = Ok y1 /\ sv_last_run (y_server y1) = a /\
    ((exists u, In u (cl_inbox_upd c ++ l_upd (get_link y slot)) /\ mentions u e /\ sv_tick (y_server y1) <= u_tick u) \/
     (exists x h, has c e x h /\ sv_tick (y_server y1) <= h_last h)).
Proof. exact e2e_ack_sound. Qed.

Theorem C01E_converged : forall cfg0 nclients, cfg_policy cfg0 = PAll -> forall script y slot c cl,
  script_scope cfg0 nclients script -> run (sys_init cfg0 nclients) script = Ok y ->
  al_get slot (y_clients y) = Some c -> cl_status c = Connected ->
  In cl (sv_clients (y_server y)) -> sc_slot cl = slot -> sc_authorized cl = true ->
  l_upd (get_link y slot) = [] -> cl_inbox_upd c = [] ->
  quiescent_for (y_server y) cl -> sv_removed_events (y_server y) = [] ->
  struct_equiv (client_struct c) (struct_of (y_server y)) /\
  forall e k, cview c e k = option_map cv_nat (sview (y_server y) e k).
Proof. exact e2e_converged. Qed.

Theorem C01E_settles : forall cfg0 nclients, cfg_policy cfg0 = PAll -> forall body slots sl y,
  let rounds := ValSettle_proofs.settle_round slots ++ ValSettle_proofs.settle_round slots in
  script_scope cfg0 nclients (body ++ rounds) -> run (sys_init cfg0 nclients) (body ++ rounds) = Ok y ->
  In sl slots -> (exists yb, run (sys_init cfg0 nclients) body = Ok yb /\ live yb sl) ->
  exists c cl, al_get sl (y_clients y) = Some c /\ cl_status c = Connected /\
    In cl (sv_clients (y_server y)) /\ sc_slot cl = sl /\ sc_authorized cl = true /\
    struct_equiv (client_struct c) (struct_of (y_server y)) /\
    forall e k, cview c e k = option_map cv_nat (sview (y_server y) e k).
Proof. exact e2e_settles. Qed.

Theorem C01E_settle_converges : forall cfg0 nclients body yb y sl, cfg_policy cfg0 = PAll ->
  let rounds := ValSettle_proofs.settle_round (Converge.slots yb) ++ ValSettle_proofs.settle_round (Converge.slots yb) in
  script_scope cfg0 nclients (body ++ rounds) ->
  run (sys_init cfg0 nclients) body = Ok yb -> Converge.settle 2 yb = Ok y -> live yb sl ->
  exists c cl, al_get sl (y_clients y) = Some c /\ cl_status c = Connected /\
    In cl (sv_clients (y_server y)) /\ sc_slot cl = sl /\ sc_authorized cl = true /\
    struct_equiv (client_struct c) (struct_of (y_server y)) /\
    forall e k, cview c e k = option_map cv_nat (sview (y_server y) e k).
Proof. exact e2e_settle_converges. Qed.

Print Assumptions C01E_ack_sound.
Print Assumptions C01E_converged.
Print Assumptions C01E_settles.
Print Assumptions C01E_settle_converges.
