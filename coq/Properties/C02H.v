(* C02 / C01 end to end, at the value level, WITH PRE-SPAWN MAPPINGS (`SMap` operations in the server frames, `CPrespawn` /
   `CDespawn` operations in the client frames): the theorems of Properties/C02G.v - T `C02G_truthful`, K `C02G_ack_sound`,
   Q `C02G_converged`, the settle corollaries - for scripts in the scope of Properties/C03F.v part G3.

   Scope ([script_scopem], Repl/ValMapsE2E_proofs.v), for runs `Sys.run (sys_init cfg n) script = Ok y`, any policy:
     script_okg      legal && sessions_ok: `SMap` allowed (instead of `script_okf`)
     run_maps_ok     the run premise of C03F G3 (decidable along the run: `run_maps_okb`): every update message names in its
                     mappings only entities of its changes array; when a client applies a message its mappings are harmless
                     at that moment (`maps_ok` at `maps_pre`: AFTER the despawn records of the message - model and code after
                     the repair of defect D30); the client operations of a frame do not despawn a mapped pre-spawned entity
     script_valsr, no_tick0, tick_frames < 2^31, regs_of < 2^16, refs_kept      as C02G
   The statements are about the REAL client.  The proofs keep the invariants of Repl/ValRefSpec.v for the normal form of the
   client ([ncl], Repl/ValMapsSpec.v: pre-spawn ids forgotten, a pre-spawned entity that a mapping has just marked counts as
   the placeholder a reference would have reserved) and the update messages without their mappings.
   Still out of scope: kind 2 (`Once`), kind 4 (`Periodic`, D02); a mapping that travels BEFORE its entity (registered in an
   earlier tick than the one in which the entity becomes visible to the client: `run_maps_ok` fails, C02H_early_out_of_scope -
   the entity still lands on the pre-spawned entity, but in between the client holds an empty replica the server does not
   replicate: the structure statement C03 is what breaks); a mapping for an entity the client already holds a placeholder
   for (D17).
   Files: Repl/ValMapsSpec.v, ValMapsNorm_proofs.v, ValMapsCli_proofs.v, ValMapsSrv_proofs.v, ValMapsE2E_proofs.v,
   ValMapsSettle_proofs.v (C16 over runs: ValMapsC16_proofs.v, Properties/C16E.v). *)
From RV Require Import Lib.Res Repl.ClientTicks Repl.World Vis.Visibility Repl.Server Repl.ServerSpec
  Repl.StructSpec Repl.StructVisSpec Repl.Client Repl.Sys Repl.ClientEnt_proofs Repl.Ack_proofs Repl.Converge Repl.Witness
  Repl.ClientStructSpec Repl.ClientStruct_proofs Repl.ClientHistMaps_proofs Repl.StructE2E_proofs Repl.StructE2EMut_proofs Repl.StructE2ESess_proofs
  Repl.StructE2EMaps_proofs
  Repl.ValSpec Repl.ValSnap_proofs Repl.ValHist_proofs Repl.ValE2E_proofs Repl.ValSettle_proofs
  Repl.ValClient_proofs Repl.ValVisSpec Repl.ValVisHist_proofs Repl.ValVisE2E_proofs Repl.ValVisSettle_proofs
  Repl.ValRefSpec Repl.ValRefHist_proofs Repl.ValRefCheck_proofs Repl.ValRefClient_proofs Repl.ValRefCli_proofs
  Repl.ValRefE2E_proofs Repl.ValRefSettle_proofs
  Repl.ValMapsSpec Repl.ValMapsNorm_proofs Repl.ValMapsCli_proofs Repl.ValMapsE2E_proofs Repl.ValMapsSettle_proofs Repl.ValMapsC16_proofs
  Tick.ConfirmHistory.
Open Scope N_scope.

(* ---- the scope ---- *)
Theorem C02H_scope : forall cfg0 nclients script,
  script_scopem cfg0 nclients script <->
  (script_okg script = true /\ run_maps_ok (sys_init cfg0 nclients) script /\ script_valsr script = true /\ no_tick0 script = true /\
   tick_frames script < 2 ^ 31 /\ (forall slot, regs_of (sys_init cfg0 nclients) script slot < 2 ^ 16) /\
   forall slot, In slot (client_slots nclients) -> refs_kept cfg0 nclients script slot).
Proof. intros. reflexivity. Qed.

(* every premise is decidable along the run *)
Theorem C02H_scope_by_bound : forall cfg0 nclients script,
  script_okg script = true -> run_maps_okb (sys_init cfg0 nclients) script = true -> script_valsr script = true -> no_tick0 script = true ->
  tick_frames script < 2 ^ 31 -> regs_all (sys_init cfg0 nclients) script < 2 ^ 16 -> refs_keptb_all cfg0 nclients script = true ->
  script_scopem cfg0 nclients script.
Proof. exact scopem_by_bound. Qed.

(* the scope of Properties/C02G.v is the special case without `SMap` (what remains of `run_maps_ok` is the premise on the
   client operations) *)
Theorem C02H_scope_of_C02G : forall cfg0 nclients script,
  script_scoper cfg0 nclients script -> run_maps_ok (sys_init cfg0 nclients) script -> script_scopem cfg0 nclients script.
Proof. exact scoper_scopem. Qed.

(* ---- the normal form: what the invariants speak about, and why nothing is lost ---- *)
Theorem C02H_normal_form_commutes :
  (forall c u, u_maps u = [] -> apply_update_message (ncl c) u = map_res ncl (apply_update_message c u)) /\
  (forall c, apply_mutate_messages (ncl c) = map_res (fun p => (ncl (fst p), snd p)) (apply_mutate_messages c)) /\
  (forall c u, apply_update_message c u = upd_rest u (update_pre c u)) /\
  (forall u c2, upd_rest u (ncl c2) = map_res ncl (upd_rest u c2)).
Proof.
  split; [exact apply_update_message_ncl|]. split; [exact apply_mutate_messages_ncl|]. split; [exact apply_update_message_rest|exact upd_rest_ncl].
Qed.

(* values, confirm histories and the entity map of a client and of its normal form are the same *)
Theorem C02H_normal_form_same : forall c,
  (forall e x h, has c e x h -> has (ncl c) e (nent x) h) /\
  (forall e y h, has (ncl c) e y h -> exists x, y = nent x /\ has c e x h) /\
  (nb c -> forall e k, cview (ncl c) e k = cview c e k) /\
  (cs_inv c -> marked_hist c -> struct_equiv (client_struct (ncl c)) (client_struct c)) /\
  (cs_inv c -> nb c -> cs_inv (ncl c)) /\ (cs_inv (ncl c) -> cs_inv c).
Proof.
  intros c. split; [exact (has_ncl c)|]. split; [exact (has_ncl_inv c)|]. split; [intros H e k; exact (cview_ncl c e k H)|].
  split; [exact (client_struct_ncl c)|]. split; [exact (cs_inv_ncl c)|exact (cs_inv_of_ncl c)].
Qed.

(* "an entity without a confirm history has no components" holds along EVERY run (no scope needed) *)
Theorem C02H_nb_run : forall cfg0 nclients script y slot c,
  run (sys_init cfg0 nclients) script = Ok y -> al_get slot (y_clients y) = Some c -> nb c.
Proof. intros cfg0 nclients script y slot c H Hc. exact (nb_run script _ y (nb_init cfg0 nclients) H slot c Hc). Qed.

(* one update message WITH mappings of the real client: the invariant of the normal form moves on *)
Theorem C02H_update_message : forall slot (SN : N -> N -> server -> Prop),
  (forall t1 r1 s1 t2 r2 s2, SN t1 r1 s1 -> SN t2 r2 s2 -> (r1 = r2 -> t1 = t2 /\ s1 = s2) /\ (r1 < r2 -> t1 < t2)) ->
  (forall t1 r1 s1 t2 r2 s2, SN t1 r1 s1 -> SN t2 r2 s2 -> r1 <= r2 -> keeps r1 s1 s2) ->
  (forall t r s1, SN t r s1 -> small_tick t) -> (forall t r s1, SN t r s1 -> ents_wf s1) ->
  forall c u rest muts c',
  cs_inv c -> nb c -> cli_invr slot SN (ncl c) (strip u :: rest) muts ->
  maps_ok (maps_pre c u) (u_maps u) -> apply_update_message c u = Ok c' ->
  nb c' /\ cli_invr slot SN (ncl c') rest muts /\
  (forall g e a, conf_sincer SN (ncl c) (strip u :: rest) g e a -> conf_sincer SN (ncl c') rest g e a) /\
  struct_equiv (client_struct (ncl c')) (abs_apply (client_struct (ncl c)) (strip u)) /\
  forall s cl acks, srv_slot_invr slot SN s cl (ncl c) (strip u :: rest) muts acks -> srv_slot_invr slot SN s cl (ncl c') rest muts acks.
Proof. exact clim_real_update. Qed.

(* ---- the invariant of whole-system runs, for a live, connected slot ---- *)
Theorem C02H_invariant : forall cfg0 nclients script y slot c,
  script_scopem cfg0 nclients script -> run (sys_init cfg0 nclients) script = Ok y ->
  al_get slot (y_clients y) = Some c -> mode_of script slot = MLive -> cl_status c = Connected ->
  nb c /\ cs_inv c /\ marked_hist c /\
  cli_invr slot (snaps cfg0 nclients slot script) (ncl c) (map strip (pend_of y slot c)) (muts_of y slot c) /\
  forall cl, In cl (sv_clients (y_server y)) -> sc_slot cl = slot ->
    srv_slot_invr slot (snaps cfg0 nclients slot script) (y_server y) cl (ncl c) (map strip (pend_of y slot c)) (muts_of y slot c) (acks_of y slot) /\
    ct_mutate_index (sc_ticks cl) <= regs_of (sys_init cfg0 nclients) script slot /\ (sc_authorized cl = false -> sc_ticks cl = ct_default).
Proof. exact wm_live. Qed.

(* ---- T: truthfulness (C02) ---- *)
Theorem C02H_truthful : forall cfg0 nclients script y slot c e cid x h,
  script_scopem cfg0 nclients script -> run (sys_init cfg0 nclients) script = Ok y ->
  al_get slot (y_clients y) = Some c -> mode_of script slot = MLive -> cl_status c = Connected ->
  al_get e (cl_s2c c) = Some cid -> get_cent c cid = Some x -> ce_alive x = true -> ce_marker x = true -> ce_hist x = Some h ->
  exists pre post y1 cl1 x1, script = pre ++ post /\ run (sys_init cfg0 nclients) pre = Ok y1 /\
    forallb (fun st => negb (ends_session slot st)) post = true /\
    sv_tick (y_server y1) = h_last h /\
    find_client (y_server y1) slot = Some cl1 /\ vis_visible (sc_vis cl1) e = true /\
    al_get e (struct_vis (y_server y1) cl1) = Some (map fst (se_comps x1)) /\
    repl_get (y_server y1) e = Some x1 /\ agreer c (ce_comps x) (se_comps x1) /\
    kinds_equiv (map fst (ce_comps x)) (map fst (se_comps x1)).
Proof. exact e2em_truthful. Qed.

Theorem C02H_truthful_exact : forall cfg0 nclients script y slot c e cid x h,
  script_scopem cfg0 nclients script -> run (sys_init cfg0 nclients) script = Ok y ->
  al_get slot (y_clients y) = Some c -> mode_of script slot = MLive -> cl_status c = Connected ->
  al_get e (cl_s2c c) = Some cid -> get_cent c cid = Some x -> ce_alive x = true -> ce_marker x = true -> ce_hist x = Some h ->
  exists pre post y1, script = pre ++ post /\ run (sys_init cfg0 nclients) pre = Ok y1 /\
    forallb (fun st => negb (ends_session slot st)) post = true /\ sv_tick (y_server y1) = h_last h /\
    vrepl slot (y_server y1) e <> None /\
    forall k, opt_vrel c (sviewv slot (y_server y1) e k) (al_get k (ce_comps x)).
Proof. exact e2em_truthful_exact. Qed.

Theorem C02H_truthful_ref : forall cfg0 nclients script y slot c e cid x h,
  script_scopem cfg0 nclients script -> run (sys_init cfg0 nclients) script = Ok y ->
  al_get slot (y_clients y) = Some c -> mode_of script slot = MLive -> cl_status c = Connected ->
  al_get e (cl_s2c c) = Some cid -> get_cent c cid = Some x -> ce_alive x = true -> ce_marker x = true -> ce_hist x = Some h ->
  exists pre post y1, script = pre ++ post /\ run (sys_init cfg0 nclients) pre = Ok y1 /\
    forallb (fun st => negb (ends_session slot st)) post = true /\ sv_tick (y_server y1) = h_last h /\
    (forall k rcid, al_get k (ce_comps x) = Some (CRef rcid) ->
       exists t xt, sviewv slot (y_server y1) e k = Some (VRef t) /\ al_get rcid (cl_c2s c) = Some t /\
                    al_get t (cl_s2c c) = Some rcid /\ get_cent c rcid = Some xt /\ ce_alive xt = true) /\
    (forall k t, sviewv slot (y_server y1) e k = Some (VRef t) ->
       exists rcid, al_get k (ce_comps x) = Some (CRef rcid) /\ al_get rcid (cl_c2s c) = Some t).
Proof. exact e2em_truthful_ref. Qed.

(* ---- K: an acknowledged stamp is backed by the client ---- *)
Theorem C02H_ack_sound : forall cfg0 nclients script y slot c cl e a,
  script_scopem cfg0 nclients script -> run (sys_init cfg0 nclients) script = Ok y ->
  al_get slot (y_clients y) = Some c -> mode_of script slot = MLive -> cl_status c = Connected ->
  In cl (sv_clients (y_server y)) -> sc_slot cl = slot -> mutation_tick (sc_ticks cl) e = Some a ->
  exists pre post y1, script = pre ++ post /\ run (sys_init cfg0 nclients) pre = Ok y1 /\
    forallb (fun st => negb (ends_session slot st)) post = true /\ sv_last_run (y_server y1) = a /\
    ((exists u, In u (cl_inbox_upd c ++ l_upd (get_link y slot)) /\ mentions u e /\ sv_tick (y_server y1) <= u_tick u) \/
     (exists x h, has c e x h /\ sv_tick (y_server y1) <= h_last h)).
Proof. exact e2em_ack_sound. Qed.

(* ---- Q: convergence (C01) ---- *)
Theorem C02H_converged : forall cfg0 nclients script y slot c cl,
  script_scopem cfg0 nclients script -> run (sys_init cfg0 nclients) script = Ok y ->
  al_get slot (y_clients y) = Some c -> mode_of script slot = MLive -> cl_status c = Connected ->
  In cl (sv_clients (y_server y)) -> sc_slot cl = slot -> sc_authorized cl = true ->
  l_upd (get_link y slot) = [] -> cl_inbox_upd c = [] ->
  quiescent_for (y_server y) cl -> sv_removed_events (y_server y) = [] ->
  struct_equiv (client_struct c) (struct_vis (y_server y) cl) /\
  forall e k, view_agrees c slot (y_server y) e k.
Proof. exact e2em_converged. Qed.

Theorem C02H_settle_premises : forall cfg0 nclients body slots sl y,
  let rounds := ValSettle_proofs.settle_round slots ++ ValSettle_proofs.settle_round slots in
  script_scopem cfg0 nclients (body ++ rounds) -> run (sys_init cfg0 nclients) (body ++ rounds) = Ok y ->
  In sl slots -> (exists yb, run (sys_init cfg0 nclients) body = Ok yb /\ livev body yb sl) ->
  mode_of (body ++ rounds) sl = MLive /\
  exists c cl, al_get sl (y_clients y) = Some c /\ cl_status c = Connected /\
    In cl (sv_clients (y_server y)) /\ sc_slot cl = sl /\ sc_authorized cl = true /\
    l_upd (get_link y sl) = [] /\ cl_inbox_upd c = [] /\ quiescent_for (y_server y) cl /\ sv_removed_events (y_server y) = [].
Proof. exact settlem_premises. Qed.

Theorem C02H_settles : forall cfg0 nclients body slots sl y,
  let rounds := ValSettle_proofs.settle_round slots ++ ValSettle_proofs.settle_round slots in
  script_scopem cfg0 nclients (body ++ rounds) -> run (sys_init cfg0 nclients) (body ++ rounds) = Ok y ->
  In sl slots -> (exists yb, run (sys_init cfg0 nclients) body = Ok yb /\ livev body yb sl) ->
  exists c cl, al_get sl (y_clients y) = Some c /\ cl_status c = Connected /\
    In cl (sv_clients (y_server y)) /\ sc_slot cl = sl /\ sc_authorized cl = true /\
    struct_equiv (client_struct c) (struct_vis (y_server y) cl) /\
    forall e k, view_agrees c sl (y_server y) e k.
Proof. exact e2em_settles. Qed.

Theorem C02H_settle_converges : forall cfg0 nclients body yb y sl,
  let rounds := ValSettle_proofs.settle_round (Converge.slots yb) ++ ValSettle_proofs.settle_round (Converge.slots yb) in
  script_scopem cfg0 nclients (body ++ rounds) ->
  run (sys_init cfg0 nclients) body = Ok yb -> Converge.settle 2 yb = Ok y -> livev body yb sl ->
  exists c cl, al_get sl (y_clients y) = Some c /\ cl_status c = Connected /\
    In cl (sv_clients (y_server y)) /\ sc_slot cl = sl /\ sc_authorized cl = true /\
    struct_equiv (client_struct c) (struct_vis (y_server y) cl) /\
    forall e k, view_agrees c sl (y_server y) e k.
Proof. exact e2em_settle_converges. Qed.

Theorem C02H_settle_values : forall cfg0 nclients body yb y sl,
  let rounds := ValSettle_proofs.settle_round (Converge.slots yb) ++ ValSettle_proofs.settle_round (Converge.slots yb) in
  script_scopem cfg0 nclients (body ++ rounds) ->
  run (sys_init cfg0 nclients) body = Ok yb -> Converge.settle 2 yb = Ok y -> livev body yb sl ->
  exists c, al_get sl (y_clients y) = Some c /\
    (forall e k n, cview c e k = Some (CNat n) <-> sviewv sl (y_server y) e k = Some (VNat n)) /\
    (forall e k t, sviewv sl (y_server y) e k = Some (VRef t) <->
                   exists cid, cview c e k = Some (CRef cid) /\ al_get cid (cl_c2s c) = Some t).
Proof. exact e2em_settle_values. Qed.

Print Assumptions C02H_scope.
Print Assumptions C02H_scope_by_bound.
Print Assumptions C02H_scope_of_C02G.
Print Assumptions C02H_normal_form_commutes.
Print Assumptions C02H_normal_form_same.
Print Assumptions C02H_nb_run.
Print Assumptions C02H_update_message.
Print Assumptions C02H_invariant.
Print Assumptions C02H_truthful.
Print Assumptions C02H_truthful_exact.
Print Assumptions C02H_truthful_ref.
Print Assumptions C02H_ack_sound.
Print Assumptions C02H_converged.
Print Assumptions C02H_settle_premises.
Print Assumptions C02H_settles.
Print Assumptions C02H_settle_converges.
Print Assumptions C02H_settle_values.

(* ================================================================== *)
(* the statements are not vacuous                                     *)
(* ================================================================== *)

Definition hx_wl : cfg := mkCfg PWhite AuthNone true 1000.
Definition hfr (tick : bool) (ops : list sop) : step := StSFrame tick 10 false ops [].
Definition hall (slot : N) : list step :=
  [StDeliver slot true 0 All; StDeliver slot true 1 All; StCFrame slot []; StDeliver slot false 0 All].

(* Two clients, whitelist.  Client 0 pre-spawns two entities (script ids 9 and 8).
   Tick 1: entities 1 and 2 are spawned; entity 1 is shown to both clients and registered as the counterpart of client 0's
           pre-spawned entity 9 IN THE TICK OF THE SPAWN; entity 2 is shown to client 1 only.
   Tick 2: entity 1 is mutated; the mutate message is LOST for client 0 (client 1 gets it).
   Then entity 2 is registered as the counterpart of client 0's pre-spawned entity 8 in a frame that does not tick (nothing is
   sent), and tick 3 shows it to client 0 (whitelist `SVis`): the update message of tick 3 carries the mapping and the whole
   entity; the mutation of entity 1 is sent again. *)
Definition hx_script : list step :=
  [StStart; hfr false []; StConnect 0 1200; StConnect 1 1200; StCFrame 0 [CPrespawn 9; CPrespawn 8];
   hfr true [SSpawn 1 true [(0, VNat 5)]; SSpawn 2 true [(0, VNat 7)]; SVis 0 1 true; SVis 1 1 true; SVis 1 2 true; SMap 0 1 9]]
  ++ hall 0 ++ hall 1 ++
  [hfr true [SMutate 1 0 (VNat 6)]; StDrop 0 true 1 All] ++ hall 1 ++
  [hfr false [SMap 0 2 8]; hfr true [SVis 0 2 true]] ++ hall 0 ++ hall 1.

Example C02H_ex_scope : script_scopem hx_wl 2 hx_script.
Proof. apply scopem_by_bound; vm_compute; reflexivity. Qed.

Example C02H_ex_script : script_okg hx_script = true /\ script_okf hx_script = false /\ tick_frames hx_script = 3 /\
  run_maps_okb (sys_init hx_wl 2) hx_script = true /\ mode_of hx_script 0 = MLive /\ mode_of hx_script 1 = MLive.
Proof. vm_compute. repeat split; reflexivity. Qed.

(* per client: update tick; id, pre-spawn id, confirmed tick, alive, marked, components of every client entity; the entity
   map; the update messages on their way (tick, mappings, despawn records, changes) and the mutate messages *)
Definition hx_view (r : res sys) :=
  match r with
  | Ok y => Some (map (fun sc => (cl_upd_tick (snd sc),
                                  map (fun kv => (fst kv, ce_pre (snd kv), match ce_hist (snd kv) with Some h => Some (h_last h) | None => None end,
                                                  ce_alive (snd kv), ce_marker (snd kv), ce_comps (snd kv))) (cl_ents (snd sc)),
                                  cl_s2c (snd sc),
                                  map (fun u => (u_tick u, u_maps u, u_despawns u, u_changes u)) (l_upd (get_link y (fst sc))),
                                  map (fun m => (m_upd_tick m, m_tick m, m_body m)) (l_mut (get_link y (fst sc))))) (y_clients y),
                  sv_tick (y_server y))
  | _ => None
  end.

Example C02H_ex_run :
  (* after the frame of tick 1: the update message for client 0 carries the mapping (1, 9) and the whole entity 1 *)
  hx_view (run (sys_init hx_wl 2) (firstn 6 hx_script))
    = Some ([(0, [(0, Some 9, None, true, false, []); (1, Some 8, None, true, false, [])], [],
              [(1, [(1, 9)], [], [(1, [(0, VNat 5)])])], [(1, 1, [])]);
             (0, [], [], [(1, [], [], [(1, [(0, VNat 5)]); (2, [(0, VNat 7)])])], [(1, 1, [])])], 1) /\
  (* both clients have applied tick 1: entity 1 landed on client 0's pre-spawned entity 0; client 1 spawned its own *)
  hx_view (run (sys_init hx_wl 2) (firstn 14 hx_script))
    = Some ([(1, [(0, Some 9, Some 1, true, true, [(0, CNat 5)]); (1, Some 8, None, true, false, [])], [(1, 0)], [], []);
             (1, [(0, None, Some 1, true, true, [(0, CNat 5)]); (1, None, Some 1, true, true, [(0, CNat 7)])], [(1, 0); (2, 1)], [], [])], 1) /\
  (* after tick 3: the mutate message of tick 2 was dropped for client 0 (it still holds 5, confirmed at tick 1; client 1
     holds 6, confirmed at tick 2); on its way: mapping (2, 8) + the whole entity 2, and the mutation of entity 1 again *)
  hx_view (run (sys_init hx_wl 2) (firstn 22 hx_script))
    = Some ([(1, [(0, Some 9, Some 1, true, true, [(0, CNat 5)]); (1, Some 8, None, true, false, [])], [(1, 0)],
              [(3, [(2, 8)], [], [(2, [(0, VNat 7)])])], [(3, 3, [(1, [(0, VNat 6)])])]);
             (1, [(0, None, Some 2, true, true, [(0, CNat 6)]); (1, None, Some 1, true, true, [(0, CNat 7)])], [(1, 0); (2, 1)], [], [(1, 3, [])])], 3) /\
  (* the end: both server entities live on client 0's pre-spawned entities, no further client entity was created *)
  hx_view (run (sys_init hx_wl 2) hx_script)
    = Some ([(3, [(0, Some 9, Some 3, true, true, [(0, CNat 6)]); (1, Some 8, Some 3, true, true, [(0, CNat 7)])], [(1, 0); (2, 1)], [], []);
             (1, [(0, None, Some 2, true, true, [(0, CNat 6)]); (1, None, Some 1, true, true, [(0, CNat 7)])], [(1, 0); (2, 1)], [], [])], 3).
Proof. vm_compute. repeat split; reflexivity. Qed.

(* C02H_truthful_exact instantiated in the middle of the run, client 0, after the mutate message of tick 2 was lost: the
   pre-spawned client entity 0 stands for entity 1, is confirmed at tick 1 and holds the value of tick 1 (5, not 6) *)
Example C02H_ex_truthful_instance :
  exists y c x h, run (sys_init hx_wl 2) (firstn 22 hx_script) = Ok y /\ al_get 0 (y_clients y) = Some c /\
    get_cent c 0 = Some x /\ ce_pre x = Some 9 /\ ce_hist x = Some h /\ h_last h = 1 /\ ce_comps x = [(0, CNat 5)] /\
    sviewv 0 (y_server y) 1 0 = Some (VNat 6) /\
    exists pre post y1, firstn 22 hx_script = pre ++ post /\ run (sys_init hx_wl 2) pre = Ok y1 /\
      forallb (fun st => negb (ends_session 0 st)) post = true /\ sv_tick (y_server y1) = h_last h /\
      vrepl 0 (y_server y1) 1 <> None /\
      forall k, opt_vrel c (sviewv 0 (y_server y1) 1 k) (al_get k (ce_comps x)).
Proof.
  assert (Hsc : script_scopem hx_wl 2 (firstn 22 hx_script)) by (apply scopem_by_bound; vm_compute; reflexivity).
  destruct (run (sys_init hx_wl 2) (firstn 22 hx_script)) as [y| |] eqn:E; [|vm_compute in E; discriminate|vm_compute in E; discriminate].
  destruct (al_get 0 (y_clients y)) as [c|] eqn:Ec; [|vm_compute in E; inversion E; subst y; vm_compute in Ec; discriminate].
  destruct (get_cent c 0) as [x|] eqn:Ex; [|vm_compute in E; inversion E; subst y; vm_compute in Ec; inversion Ec; subst c; vm_compute in Ex; discriminate].
  destruct (ce_hist x) as [h|] eqn:Eh;
    [|vm_compute in E; inversion E; subst y; vm_compute in Ec; inversion Ec; subst c; vm_compute in Ex; inversion Ex; subst x; vm_compute in Eh; discriminate].
  exists y, c, x, h. split; [reflexivity|]. split; [exact Ec|]. split; [exact Ex|].
  assert (Hfacts : ce_pre x = Some 9 /\ h_last h = 1 /\ ce_comps x = [(0, CNat 5)] /\ sviewv 0 (y_server y) 1 0 = Some (VNat 6) /\
                   cl_status c = Connected /\ al_get 1 (cl_s2c c) = Some 0 /\ ce_alive x = true /\ ce_marker x = true).
  { vm_compute in E; inversion E; subst y; vm_compute in Ec; inversion Ec; subst c; vm_compute in Ex; inversion Ex; subst x;
      vm_compute in Eh; inversion Eh; subst h; vm_compute; repeat split; reflexivity. }
  destruct Hfacts as (F1 & F2 & F3 & F4 & F5 & F6 & F7 & F8). split; [exact F1|]. split; [exact Eh|]. split; [exact F2|]. split; [exact F3|]. split; [exact F4|].
  assert (Hm : mode_of (firstn 22 hx_script) 0 = MLive) by (vm_compute; reflexivity).
  exact (C02H_truthful_exact hx_wl 2 _ y 0 c 1 0 x h Hsc E Ec Hm F5 F6 Ex F7 F8 Eh).
Qed.

(* C02H_settle_converges at the end of the run, both clients *)
Example C02H_ex_settles :
  exists yb y, run (sys_init hx_wl 2) hx_script = Ok yb /\ Converge.settle 2 yb = Ok y /\ converged y = true /\
    forall sl, sl = 0 \/ sl = 1 ->
      exists c cl, al_get sl (y_clients y) = Some c /\ In cl (sv_clients (y_server y)) /\ sc_slot cl = sl /\
        struct_equiv (client_struct c) (struct_vis (y_server y) cl) /\
        (forall e k, view_agrees c sl (y_server y) e k) /\
        cview c 1 0 = Some (CNat 6) /\ cview c 2 0 = Some (CNat 7).
Proof.
  destruct (run (sys_init hx_wl 2) hx_script) as [yb| |] eqn:E; [|vm_compute in E; discriminate|vm_compute in E; discriminate].
  destruct (Converge.settle 2 yb) as [y| |] eqn:Es;
    [|vm_compute in E; inversion E; subst yb; vm_compute in Es; discriminate|vm_compute in E; inversion E; subst yb; vm_compute in Es; discriminate].
  assert (Hsl : Converge.slots yb = [0; 1]) by (vm_compute in E; inversion E; subst yb; reflexivity).
  assert (Hsc : script_scopem hx_wl 2 (hx_script ++ ValSettle_proofs.settle_round (Converge.slots yb) ++ ValSettle_proofs.settle_round (Converge.slots yb))).
  { rewrite Hsl. apply scopem_by_bound; vm_compute; reflexivity. }
  assert (Hlive : forall sl, sl = 0 \/ sl = 1 -> livev hx_script yb sl).
  { intros sl [->| ->]; (split; [vm_compute; reflexivity|]);
      vm_compute in E; inversion E; subst yb; eexists; eexists; (split; [reflexivity|]); (split; [reflexivity|]);
      first [solve [split; [left; reflexivity|split; reflexivity]]|solve [split; [right; left; reflexivity|split; reflexivity]]]. }
  exists yb, y. split; [reflexivity|]. split; [exact Es|]. split.
  { vm_compute in E; inversion E; subst yb; vm_compute in Es; inversion Es; subst y; vm_compute; reflexivity. }
  intros sl Hslc.
  destruct (C02H_settle_converges hx_wl 2 _ yb y sl Hsc E Es (Hlive sl Hslc)) as (c & cl & Hc & _ & Hin & Hs & _ & Hst & Hv).
  exists c, cl. split; [exact Hc|]. split; [exact Hin|]. split; [exact Hs|]. split; [exact Hst|]. split; [exact Hv|].
  destruct Hslc; subst sl; vm_compute in E; inversion E; subst yb; vm_compute in Es; inversion Es; subst y;
    vm_compute in Hc; inversion Hc; subst c; repeat split; reflexivity.
Qed.

(* ================================================================== *)
(* the boundary                                                       *)
(* ================================================================== *)

(* a mapping that travels BEFORE its entity: registered at tick 1, the entity becomes visible to the client at tick 2.  The
   premise `run_maps_ok` fails (the update message of tick 1 carries the mapping alone); the entity does land on the
   pre-spawned entity, but between tick 1 and tick 2 the client holds a marked, mapped, empty entity for an entity the server
   does not replicate to it (structure statement C03: C03F_witness_map_unsent) *)
Definition hx_early : list step :=
  [StStart; hfr false []; StConnect 0 1200; StCFrame 0 [CPrespawn 8];
   hfr true [SSpawn 2 true [(0, VNat 7)]; SMap 0 2 8]] ++ hall 0 ++ [hfr true [SVis 0 2 true]] ++ hall 0.

Example C02H_early_out_of_scope :
  script_okg hx_early = true /\ run_maps_okb (sys_init hx_wl 1) hx_early = false /\
  hx_view (run (sys_init hx_wl 1) (firstn 9 hx_early))
    = Some ([(1, [(0, Some 8, None, true, true, [])], [(2, 0)], [], [])], 1) /\
  hx_view (run (sys_init hx_wl 1) hx_early)
    = Some ([(2, [(0, Some 8, Some 2, true, true, [(0, CNat 7)])], [(2, 0)], [], [])], 2).
Proof. vm_compute. repeat split; reflexivity. Qed.

(* D17: a mapping for an entity the client already holds a placeholder for is outside `run_maps_ok` *)
Example C02H_D17_out_of_scope :
  script_okg script_d17 = true /\ run_maps_okb (sys_init cfg_plain 1) script_d17 = false /\
  not_converged_after_settling cfg_plain script_d17 = true.
Proof. vm_compute. repeat split; reflexivity. Qed.
