(* C06 (byte level) -- no client input can crash or exhaust the server.
   Server side receive paths: mutation acknowledgements (src/server.rs receive_acks),
   client triggers and client events (src/shared/event/client_trigger.rs, client_event.rs).
   This file only pins statements; proofs live in Wire/*_proofs.v and Repl/ClientTicks_proofs.v.
   The payload codec [pdec]/[penc] of the user's event type is a premise (trusted base:
   serde/postcard on the user type never panics and round trips). *)
From RV Require Import Lib.Res Wire.Varint Wire.EntityCodec Wire.EntityCodec_proofs
  Repl.ClientTicks Repl.ClientTicks_proofs Wire.AckCodec Wire.AckCodec_proofs
  Wire.TriggerCodec Wire.TriggerCodec_proofs.
Open Scope N_scope.

(* ---------- acknowledgements ---------- *)

(* any bytes, any client state (with or without ClientTicks): no panic, and the loop ends *)
Theorem C06_acks_total : forall ct this_run bytes, receive_acks_message ct this_run bytes <> Panic.
Proof. exact receive_acks_total. Qed.

(* every iteration of `while message.has_remaining()` consumes at least one byte ... *)
Theorem C06_acks_progress : forall bs, bs <> [] -> (length (snd (fix16_dec bs)) < length bs)%nat.
Proof. exact ack_iteration_progress. Qed.

(* ... so fuel = length is never exhausted, and the loop acknowledges exactly the complete pairs *)
Theorem C06_acks_loop : forall fuel ct this_run bs, (length bs <= fuel)%nat ->
  ack_loop fuel ct this_run bs = Ok (ack_all ct this_run (ack_indices bs)).
Proof. exact ack_loop_fuel. Qed.

(* an index that is not in flight changes nothing *)
Theorem C06_acks_unknown_index_identity : forall ct this_run idx,
  al_get idx (ct_mutations ct) = None -> ack_mutate_message ct this_run idx = ct.
Proof. exact ack_unknown_identity. Qed.

Theorem C06_acks_unknown_message_identity : forall c this_run bytes,
  Forall (fun i => al_get i (ct_mutations c) = None) (ack_indices bytes) ->
  receive_acks_message (Some c) this_run bytes = Ok (Some c).
Proof. exact receive_acks_unknown_identity. Qed.

(* a client without ClientTicks (not authorized): message ignored *)
Theorem C06_acks_unauthorized_ignored : forall this_run bytes,
  receive_acks_message None this_run bytes = Ok None.
Proof. exact receive_acks_unauthorized. Qed.

(* an acknowledgement touches only the stamps of entities listed in the acked entry ... *)
Theorem C06_acks_only_listed : forall ct this_run idx info e,
  al_get idx (ct_mutations ct) = Some info -> ~ In e (mi_entities info) ->
  mutation_tick (ack_mutate_message ct this_run idx) e = mutation_tick ct e.
Proof. exact ack_only_listed. Qed.

(* ... removes that entry and nothing else, keeps the set of tracked entities, the update tick
   and the next index *)
Theorem C06_acks_frame : forall ct this_run idx,
  let ct' := ack_mutate_message ct this_run idx in
  ct_update_tick ct' = ct_update_tick ct /\
  ct_mutate_index ct' = ct_mutate_index ct /\
  al_keys (ct_mutation_ticks ct') = al_keys (ct_mutation_ticks ct) /\
  ct_mutations ct' = al_remove idx (ct_mutations ct).
Proof. exact ack_frame. Qed.

(* ... and never moves a stamp backwards *)
Theorem C06_acks_monotone : forall ct this_run idx e,
  match mutation_tick ct e with
  | None => mutation_tick (ack_mutate_message ct this_run idx) e = None
  | Some t => exists t', mutation_tick (ack_mutate_message ct this_run idx) e = Some t' /\
                         tick_age this_run t' <= tick_age this_run t /\
                         tick_is_newer_than t t' this_run = false
  end.
Proof. exact ack_monotone. Qed.

(* whole frame: no panic, clients that sent nothing are untouched, nobody gains or loses ClientTicks *)
Theorem C06_acks_system_isolated : forall clients this_run msgs,
  exists clients', receive_acks clients this_run msgs = Ok clients' /\
    al_keys clients' = al_keys clients /\
    (forall c, ~ In c (map fst msgs) -> al_get c clients' = al_get c clients).
Proof. exact receive_acks_isolated. Qed.

(* ---------- triggers and events ---------- *)

Theorem C06_entity_total : forall bytes, deserialize_entity bytes <> Panic.
Proof. exact deserialize_entity_total. Qed.

Theorem C06_trigger_total : forall (E : Type) (pdec : list N -> res (E * list N)),
  (forall b, pdec b <> Panic) -> forall bytes, fst (trigger_deserialize pdec bytes) <> Panic.
Proof. exact (@trigger_deserialize_total). Qed.

Theorem C06_trigger_alloc_bounded : forall (E : Type) (pdec : list N -> res (E * list N)) bytes,
  Forall (fun n => n <= N.of_nat (length bytes)) (snd (trigger_deserialize pdec bytes)).
Proof. exact (@trigger_alloc_bounded). Qed.

Theorem C06_trigger_no_realloc : forall (E : Type) (pdec : list N -> res (E * list N)) bytes ts ev,
  fst (trigger_deserialize pdec bytes) = Ok (ts, ev) ->
  exists capacity, snd (trigger_deserialize pdec bytes) = [capacity] /\ N.of_nat (length ts) <= capacity.
Proof. exact (@trigger_no_realloc). Qed.

Theorem C06_trigger_roundtrip : forall (E : Type) (penc : E -> list N) (pdec : list N -> res (E * list N)),
  (forall v r, pdec (penc v ++ r) = Ok (v, r)) ->
  forall ts ev rest, Forall valid_entity ts -> N.of_nat (length ts) < 2 ^ 64 ->
  fst (trigger_deserialize pdec (trigger_serialize penc ts ev ++ rest)) = Ok (ts, ev).
Proof. exact (@trigger_roundtrip). Qed.

Theorem C06_event_total : forall (E : Type) (pdec : list N -> res (E * list N)),
  (forall b, pdec b <> Panic) -> forall bytes, event_deserialize pdec bytes <> Panic.
Proof. exact (@event_deserialize_total). Qed.

(* the events delivered for a batch are the concatenation of what each message delivers on its
   own: a malformed message delivers nothing and does not disturb the others *)
Theorem C06_event_batch_isolation : forall (E : Type) (pdec : list N -> res (E * list N)),
  (forall b, pdec b <> Panic) -> forall msgs events,
  receive_trigger_messages pdec msgs events =
  Ok (events ++ flat_map (delivered (fun b => fst (trigger_deserialize pdec b))) msgs).
Proof. exact (@receive_trigger_messages_isolation). Qed.

Theorem C06_plain_event_batch_isolation : forall (E : Type) (pdec : list N -> res (E * list N)),
  (forall b, pdec b <> Panic) -> forall msgs events,
  receive_plain_messages pdec msgs events =
  Ok (events ++ flat_map (delivered (event_deserialize pdec)) msgs).
Proof. exact (@receive_plain_messages_isolation). Qed.

Theorem C06_event_malformed_dropped : forall (E : Type) (pdec : list N -> res (E * list N)) pre m post events,
  fst (trigger_deserialize pdec (snd m)) = Err ->
  receive_trigger_messages pdec (pre ++ m :: post) events = receive_trigger_messages pdec (pre ++ post) events.
Proof. exact (@receive_trigger_messages_drop). Qed.

(* ---------- non-vacuity ---------- *)

(* a client with entity 7 stamped 10, two messages in flight *)
Definition ex_ct : client_ticks :=
  mkCT [(7, 10); (8, 10)] 3 [(0, mkMI 20 0 [7]); (1, mkMI 5 0 [7; 8; 9])] 2.

Example C06_ack_examples :
  ct_wf ex_ct /\
  (* empty, 1 byte and odd length messages *)
  receive_acks_message (Some ex_ct) 30 [] = Ok (Some ex_ct) /\
  receive_acks_message (Some ex_ct) 30 [0] = Ok (Some ex_ct) /\
  receive_acks_message (Some ex_ct) 30 [255; 255; 0] = Ok (Some ex_ct) /\
  (* index 0 in flight: entity 7 moves to tick 20, entry removed; trailing byte dropped *)
  receive_acks_message (Some ex_ct) 30 [0; 0; 1] =
    Ok (Some (mkCT [(7, 20); (8, 10)] 3 [(1, mkMI 5 0 [7; 8; 9])] 2)) /\
  (* index 1 carries an older tick (5): stamps stay, entry removed, unknown entity 9 ignored *)
  receive_acks_message (Some ex_ct) 30 [1; 0] =
    Ok (Some (mkCT [(7, 10); (8, 10)] 3 [(0, mkMI 20 0 [7])] 2)) /\
  (* the same index twice: the second one is unknown *)
  receive_acks_message (Some ex_ct) 30 [0; 0; 0; 0] = receive_acks_message (Some ex_ct) 30 [0; 0] /\
  (* client without ClientTicks *)
  receive_acks_message None 30 [0; 0] = Ok None.
Proof.
  split; [|repeat split; vm_compute; reflexivity].
  unfold ct_wf, ex_ct, al_keys; cbn [map fst ct_mutation_ticks ct_mutations ct_mutate_index].
  split; [|split]; [| |reflexivity];
  (constructor; [cbn; intros [H|[]]; discriminate H | constructor; [intros []|constructor]]).
Qed.

Example C06_is_newer_than_examples :
  tick_is_newer_than 20 10 30 = true /\ tick_is_newer_than 10 20 30 = false /\
  (* wrap-around of the u32 counter: 2^32 - 5 is older than 3 when the system runs at 10 *)
  tick_is_newer_than 3 (2 ^ 32 - 5) 10 = true /\
  (* clamp: both stamps older than MAX_CHANGE_AGE compare equal *)
  tick_is_newer_than 1 2 (2 ^ 32 - 100) = false /\ tick_is_newer_than 2 1 (2 ^ 32 - 100) = false.
Proof. repeat split; vm_compute; reflexivity. Qed.

Example C06_register_wraps :
  (* index 65535 handed out, next index wraps to 0 *)
  let '(ct', idx) := register_mutate_message (mkCT [] 0 [] 65535) 1 1 in
  idx = 65535 /\ ct_mutate_index ct' = 0.
Proof. vm_compute. split; reflexivity. Qed.

(* the section hypotheses are satisfiable: one byte payload *)
Example C06_payload_hypotheses_satisfiable :
  (forall b, byte_pdec b <> Panic) /\ (forall v r, byte_pdec (byte_penc v ++ r) = Ok (v, r)).
Proof. split; [exact byte_pdec_total|exact byte_pdec_penc]. Qed.

Example C06_trigger_examples :
  (* count 2^64 - 1 and nothing else: Err, requested capacity 0 *)
  trigger_deserialize byte_pdec [255; 255; 255; 255; 255; 255; 255; 255; 255; 1] = (Err, [0]) /\
  (* count 2^64 - 1 followed by 3 entity bytes and nothing else: Err after reserving 3 elements *)
  trigger_deserialize byte_pdec [255; 255; 255; 255; 255; 255; 255; 255; 255; 1; 2; 4; 6] = (Err, [3]) /\
  (* over long varint: Err before any allocation *)
  trigger_deserialize byte_pdec [255; 255; 255; 255; 255; 255; 255; 255; 255; 2] = (Err, []) /\
  trigger_deserialize byte_pdec [] = (Err, []) /\
  (* no targets, payload 42, trailing bytes ignored *)
  trigger_deserialize byte_pdec [0; 42; 9; 9] = (Ok ([], 42), [0]) /\
  (* two targets *)
  trigger_serialize byte_penc [mkEnt 2 3; mkEnt 1 1] 42 = [2; 5; 2; 2; 42] /\
  trigger_deserialize byte_pdec [2; 5; 2; 2; 42] = (Ok ([mkEnt 2 3; mkEnt 1 1], 42), [2]) /\
  (* invalid entity (generation 2^31) inside the targets: whole message is an error *)
  trigger_deserialize byte_pdec [1; 1; 255; 255; 255; 255; 7; 42] = (Err, [1]).
Proof. repeat split; vm_compute; reflexivity. Qed.

Example C06_batch_example :
  receive_trigger_messages byte_pdec
    [(100, [0; 1]); (101, [255; 255; 255; 255; 255; 255; 255; 255; 255; 1]); (100, [5]); (102, [1; 4; 7])] [] =
  Ok [(100, ([], 1)); (102, ([mkEnt 2 1], 7))].
Proof. vm_compute. reflexivity. Qed.

Check C06_acks_total : forall ct this_run bytes, receive_acks_message ct this_run bytes <> Panic.
Check C06_acks_unknown_index_identity : forall ct this_run idx,
  al_get idx (ct_mutations ct) = None -> ack_mutate_message ct this_run idx = ct.
Check C06_acks_unauthorized_ignored : forall this_run bytes, receive_acks_message None this_run bytes = Ok None.
Check C06_trigger_total : forall (E : Type) (pdec : list N -> res (E * list N)),
  (forall b, pdec b <> Panic) -> forall bytes, fst (trigger_deserialize pdec bytes) <> Panic.
Check C06_trigger_alloc_bounded : forall (E : Type) (pdec : list N -> res (E * list N)) bytes,
  Forall (fun n => n <= N.of_nat (length bytes)) (snd (trigger_deserialize pdec bytes)).

Print Assumptions C06_acks_total.
Print Assumptions C06_acks_progress.
Print Assumptions C06_acks_loop.
Print Assumptions C06_acks_unknown_index_identity.
Print Assumptions C06_acks_unknown_message_identity.
Print Assumptions C06_acks_unauthorized_ignored.
Print Assumptions C06_acks_only_listed.
Print Assumptions C06_acks_frame.
Print Assumptions C06_acks_monotone.
Print Assumptions C06_acks_system_isolated.
Print Assumptions C06_entity_total.
Print Assumptions C06_trigger_total.
Print Assumptions C06_trigger_alloc_bounded.
Print Assumptions C06_trigger_no_realloc.
Print Assumptions C06_trigger_roundtrip.
Print Assumptions C06_event_total.
Print Assumptions C06_event_batch_isolation.
Print Assumptions C06_plain_event_batch_isolation.
Print Assumptions C06_event_malformed_dropped.
