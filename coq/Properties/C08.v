(* C08 (Layer 0) -- per-client entity visibility (src/server/client_visibility.rs and its
   use by send_replication in src/server.rs).  This file only pins statements; the model is
   Vis/Visibility.v, the specification Vis/VisSpec.v, the proofs Vis/Visibility_proofs.v.

   wl = false: blacklist policy, wl = true: whitelist policy.  A history is a list of
   VSet e b (set_visibility), VDespawn e (`Replicated` removed: e enters DespawnBuffer) and
   VTick (one send_replication), oldest first.  `spec wl ops e` is the abstract record of e:
     spec_cur    most recent setting since e last started (policy default negb wl otherwise)
     spec_prev   spec_cur at the last tick ("what the client was told")
     spec_pend   occurrences of e in DespawnBuffer.
   The specification is the same for both policies up to the default. *)
From RV Require Import Lib.Res Vis.Visibility Vis.VisSpec Vis.Visibility_proofs.
Open Scope N_scope.

(* ---- the specification, spelled out on histories ---- *)

Theorem C08_vis_spec_cur :
  (forall wl e, spec_cur wl [] e = negb wl) /\
  (forall wl ops e b, spec_cur wl (ops ++ [VSet e b]) e = b) /\
  (forall wl ops e e' b, e' <> e -> spec_cur wl (ops ++ [VSet e' b]) e = spec_cur wl ops e) /\
  (forall wl ops e e', spec_cur wl (ops ++ [VDespawn e']) e = spec_cur wl ops e) /\
  (forall wl ops e, spec_cur wl (ops ++ [VTick]) e
     = match spec_pend wl ops e with O => spec_cur wl ops e | S _ => negb wl end).
Proof.
  exact (conj spec_cur_nil (conj spec_cur_set_same (conj spec_cur_set_other
        (conj spec_cur_despawn spec_cur_tick)))).
Qed.

Theorem C08_vis_spec_prev :
  (forall wl e, spec_prev wl [] e = negb wl) /\
  (forall wl ops e, spec_prev wl (ops ++ [VTick]) e = spec_cur wl (ops ++ [VTick]) e) /\
  (forall wl ops op e, op <> VTick -> spec_prev wl (ops ++ [op]) e = spec_prev wl ops e).
Proof. exact (conj spec_prev_nil (conj spec_prev_tick spec_prev_not_tick)). Qed.

Theorem C08_vis_spec_pend :
  (forall wl e, spec_pend wl [] e = O) /\
  (forall wl ops e, spec_pend wl (ops ++ [VDespawn e]) e = S (spec_pend wl ops e)) /\
  (forall wl ops e e', e' <> e -> spec_pend wl (ops ++ [VDespawn e']) e = spec_pend wl ops e) /\
  (forall wl ops e e' b, spec_pend wl (ops ++ [VSet e' b]) e = spec_pend wl ops e) /\
  (forall wl ops e, spec_pend wl (ops ++ [VTick]) e = O).
Proof.
  exact (conj spec_pend_nil (conj spec_pend_despawn_same (conj spec_pend_despawn_other
        (conj spec_pend_set spec_pend_tick)))).
Qed.

(* ---- (i) the query always reports the most recent setting (both policies, every history,
        every entity; also between ticks) ---- *)
Theorem C08_vis_query_latest : forall wl ops e,
  is_visible (s_vis (vis_exec (vis_init wl) ops)) e = spec_cur wl ops e.
Proof. exact vis_query_latest. Qed.

(* ---- (ii) what collect_removals / collect_changes read at a tick ---- *)
Theorem C08_vis_state_classification : forall wl ops e,
  let o := snd (vis_tick (vis_exec (vis_init wl) ops)) in
  let c := spec wl ops e in
  out_state o e = classify (mid_cur wl c) (mid_prev wl c) /\
  out_is_visible o e = mid_cur wl c.
Proof. exact vis_state_classification. Qed.

Theorem C08_vis_state_classification_live : forall wl ops e,
  spec_pend wl ops e = O ->
  let st := out_state (snd (vis_tick (vis_exec (vis_init wl) ops))) e in
  st = classify (spec_cur wl ops e) (spec_prev wl ops e) /\
  (st = VGained <-> spec_cur wl ops e && negb (spec_prev wl ops e) = true) /\
  (st = VVisible <-> spec_cur wl ops e && spec_prev wl ops e = true) /\
  (st = VHidden <-> negb (spec_cur wl ops e) = true).
Proof. exact vis_state_classification_live. Qed.

Theorem C08_vis_state_classification_pending : forall wl ops e,
  spec_pend wl ops e <> O ->
  out_state (snd (vis_tick (vis_exec (vis_init wl) ops))) e = if wl then VHidden else VVisible.
Proof. exact vis_state_classification_pending. Qed.

(* hidden now => skipped by this tick (no component data, no removals) *)
Theorem C08_vis_hidden_is_skipped : forall wl ops e,
  spec_pend wl ops e = O -> spec_cur wl ops e = false ->
  let o := snd (vis_tick (vis_exec (vis_init wl) ops)) in
  out_state o e = VHidden /\ out_is_visible o e = false.
Proof. exact vis_hidden_is_skipped. Qed.

(* ---- (iii) despawn records of a tick ---- *)
Theorem C08_vis_despawn_records : forall wl ops e,
  In e (o_despawns (snd (vis_tick (vis_exec (vis_init wl) ops))))
  <-> despawn_record wl (spec wl ops e) = true.
Proof. exact vis_despawn_records. Qed.

Theorem C08_vis_despawn_records_live : forall wl ops e,
  spec_pend wl ops e = O ->
  (In e (o_despawns (snd (vis_tick (vis_exec (vis_init wl) ops))))
   <-> spec_prev wl ops e && negb (spec_cur wl ops e) = true).
Proof. exact vis_despawn_records_live. Qed.

(* contains D03 (hidden and despawned inside one window) and the whitelist
   hide / show / hide case *)
Theorem C08_vis_despawn_records_complete : forall wl ops e,
  spec_prev wl ops e = true ->
  spec_cur wl ops e = false \/ spec_pend wl ops e <> O ->
  In e (o_despawns (snd (vis_tick (vis_exec (vis_init wl) ops)))).
Proof. exact vis_despawn_records_complete. Qed.

(* the only extra records: gained and despawned inside one window (both policies);
   blacklist: hidden, never shown to the client, at least twice in DespawnBuffer *)
Theorem C08_vis_despawn_records_sound : forall wl ops e,
  In e (o_despawns (snd (vis_tick (vis_exec (vis_init wl) ops)))) ->
  (spec_prev wl ops e = true /\ (spec_cur wl ops e = false \/ spec_pend wl ops e <> O))
  \/ (spec_prev wl ops e = false /\ spec_cur wl ops e = true /\ spec_pend wl ops e <> O)
  \/ (wl = false /\ spec_prev wl ops e = false /\ spec_cur wl ops e = false /\
      (2 <= spec_pend wl ops e)%nat).
Proof. exact vis_despawn_records_sound. Qed.

(* ---- (iv) entities do not influence each other ---- *)
Theorem C08_vis_pointwise : forall wl ops1 ops2 e, proj e ops1 = proj e ops2 ->
  let s1 := vis_exec (vis_init wl) ops1 in
  let s2 := vis_exec (vis_init wl) ops2 in
  is_visible (s_vis s1) e = is_visible (s_vis s2) e /\
  state (s_vis s1) e = state (s_vis s2) e /\
  out_state (snd (vis_tick s1)) e = out_state (snd (vis_tick s2)) e /\
  out_is_visible (snd (vis_tick s1)) e = out_is_visible (snd (vis_tick s2)) e /\
  (In e (o_despawns (snd (vis_tick s1))) <-> In e (o_despawns (snd (vis_tick s2)))).
Proof. exact vis_pointwise. Qed.

(* function level, for ANY value of the structure (reachable or not) *)
Theorem C08_vis_pointwise_functions : forall v e e', e' <> e ->
  (forall b, state (set_visibility v e b) e' = state v e' /\
             is_visible (set_visibility v e b) e' = is_visible v e') /\
  state (remove_despawned v e) e' = state v e' /\
  is_visible (remove_despawned v e) e' = is_visible v e'.
Proof.
  intros v e e' Hne. split; [intros b; split|split].
  - exact (state_set_visibility_other v e b e' Hne).
  - exact (is_visible_set_visibility_other v e b e' Hne).
  - exact (state_remove_despawned_other v e e' Hne).
  - exact (is_visible_remove_despawned_other v e e' Hne).
Qed.

Theorem C08_vis_set_then_query : forall v e b, is_visible (set_visibility v e b) e = b.
Proof. exact is_visible_set_visibility_same. Qed.

(* ---- non-vacuity / concrete scenarios ---- *)

Definition run_tick (wl : bool) (ops : list vop) : tick_out :=
  snd (vis_tick (vis_exec (vis_init wl) ops)).

(* D03: blacklist; the client has 7; hide and despawn inside one window: record produced *)
Example C08_D03_blacklist :
  o_despawns (run_tick false [VTick; VSet 7 false; VDespawn 7]) = [7].
Proof. reflexivity. Qed.

(* same with the despawn first, and under the whitelist policy *)
Example C08_D03_variants :
  o_despawns (run_tick false [VTick; VDespawn 7; VSet 7 false]) = [7] /\
  o_despawns (run_tick true [VSet 7 true; VTick; VSet 7 false; VDespawn 7]) = [7] /\
  o_despawns (run_tick true [VSet 7 true; VTick; VDespawn 7]) = [7].
Proof. repeat split; reflexivity. Qed.

(* gaining: hidden at a tick, shown later => VGained once, then VVisible *)
Example C08_gain_blacklist :
  out_state (run_tick false [VSet 7 false; VTick; VSet 7 true]) 7 = VGained /\
  out_state (run_tick false [VSet 7 false; VTick; VSet 7 true; VTick]) 7 = VVisible /\
  out_state (run_tick false [VSet 7 false; VTick; VSet 7 true]) 8 = VVisible.
Proof. repeat split; reflexivity. Qed.

Example C08_gain_whitelist :
  out_state (run_tick true [VSet 7 true]) 7 = VGained /\
  out_state (run_tick true [VSet 7 true; VTick]) 7 = VVisible /\
  out_state (run_tick true [VSet 7 true]) 8 = VHidden.
Proof. repeat split; reflexivity. Qed.

(* losing: one record, then nothing, and the entity is skipped *)
Example C08_lose :
  o_despawns (run_tick false [VTick; VSet 7 false]) = [7] /\
  out_state (run_tick false [VTick; VSet 7 false]) 7 = VHidden /\
  o_despawns (run_tick false [VTick; VSet 7 false; VTick]) = [] /\
  o_despawns (run_tick true [VSet 7 true; VTick; VSet 7 false]) = [7] /\
  o_despawns (run_tick true [VSet 7 true; VTick; VSet 7 false; VTick]) = [].
Proof. repeat split; reflexivity. Qed.

(* changes that cancel inside a window are invisible *)
Example C08_cancel :
  o_despawns (run_tick false [VTick; VSet 7 false; VSet 7 true]) = [] /\
  out_state (run_tick false [VTick; VSet 7 false; VSet 7 true]) 7 = VVisible /\
  o_despawns (run_tick true [VTick; VSet 7 true; VSet 7 false]) = [] /\
  out_state (run_tick true [VTick; VSet 7 true; VSet 7 false]) 7 = VHidden.
Proof. repeat split; reflexivity. Qed.

(* the extra records of C08_vis_despawn_records_sound do occur *)
Example C08_extra_records :
  (* gained and despawned inside one window (client never had it) *)
  o_despawns (run_tick true [VSet 7 true; VDespawn 7]) = [7] /\
  o_despawns (run_tick false [VSet 7 false; VTick; VSet 7 true; VDespawn 7]) = [7] /\
  (* blacklist, hidden, twice in the despawn buffer *)
  o_despawns (run_tick false [VSet 7 false; VTick; VDespawn 7; VDespawn 7]) = [7] /\
  o_despawns (run_tick false [VSet 7 false; VTick; VDespawn 7]) = [] /\
  o_despawns (run_tick true [VDespawn 7; VDespawn 7]) = [] /\
  (* visible and twice in the buffer: recorded twice (blacklist only) *)
  o_despawns (run_tick false [VDespawn 7; VDespawn 7]) = [7; 7] /\
  o_despawns (run_tick true [VSet 7 true; VTick; VDespawn 7; VDespawn 7]) = [7].
Proof. repeat split; reflexivity. Qed.

(* REGRESSION (whitelist, fixed by "whitelist remembers that a client has an entity when it is
   hidden and shown again within a tick"): the client has 7; hide / show / hide inside one
   window.  Before the fix no record was produced and the client kept 7 forever. *)
Example C08_whitelist_hide_show_hide :
  let ops := [VSet 7 true; VTick; VSet 7 false; VSet 7 true; VSet 7 false] in
  spec_prev true ops 7 = true /\ spec_cur true ops 7 = false /\
  o_despawns (run_tick true ops) = [7] /\
  out_state (run_tick true ops) 7 = VHidden /\
  s_vis (vis_exec (vis_init true) (ops ++ [VTick])) = whitelist.
Proof. repeat split; reflexivity. Qed.

(* REGRESSION (same fix): hide / show inside one window is invisible to the client:
   VVisible (incremental), not VGained (full resend), and no record; like the blacklist *)
Example C08_whitelist_hide_show :
  let ops := [VSet 7 true; VTick; VSet 7 false; VSet 7 true] in
  out_state (run_tick true ops) 7 = VVisible /\
  o_despawns (run_tick true ops) = [] /\
  s_vis (vis_exec (vis_init true) ops) = s_vis (vis_exec (vis_init true) [VSet 7 true; VTick]) /\
  out_state (run_tick false [VTick; VSet 7 false; VSet 7 true]) 7 = VVisible.
Proof. repeat split; reflexivity. Qed.

(* OPEN: a processed despawn forgets every setting, also one made AFTER the `Replicated`
   marker was removed (and re-inserted) in the same window: the query no longer reports the
   most recent setting.  This is part of the specification (spec_cur at VTick), listed here
   because it is the only way the first sentence of C08 can fail at Layer 1. *)
Example C08_reinsert_forgets_setting :
  let ops := [VTick; VDespawn 7; VSet 7 false; VTick] in
  is_visible (s_vis (vis_exec (vis_init false) ops)) 7 = true /\
  out_state (run_tick false [VTick; VDespawn 7; VSet 7 false]) 7 = VVisible /\
  o_despawns (run_tick false [VTick; VDespawn 7; VSet 7 false]) = [7] /\
  (* whitelist counterpart: an entity shown after the re-insert stays hidden *)
  is_visible (s_vis (vis_exec (vis_init true) [VDespawn 7; VSet 7 true; VTick])) 7 = false.
Proof. repeat split; reflexivity. Qed.

(* the unit tests of client_visibility.rs, on the model *)
Example C08_unit_tests :
  let b1 := set_visibility blacklist 9 false in
  let w1 := set_visibility whitelist 9 true in
  (is_visible b1 9 = false /\ v_added b1 = [9] /\ v_removed b1 = [] /\
   v_added (update b1) = [] /\ is_visible (update b1) 9 = false) /\
  set_visibility blacklist 9 true = blacklist /\
  (let b2 := set_visibility (update b1) 9 true in
   is_visible b2 9 = true /\ v_removed b2 = [9] /\ state b2 9 = VGained /\ update b2 = blacklist) /\
  set_visibility b1 9 true = blacklist /\
  set_visibility (update b1) 9 false = update b1 /\
  (is_visible w1 9 = true /\ v_added w1 = [9] /\ state w1 9 = VGained /\
   state (update w1) 9 = VVisible /\ v_added (update w1) = []) /\
  set_visibility whitelist 9 false = whitelist /\
  (let w2 := set_visibility (update w1) 9 false in
   is_visible w2 9 = false /\ v_removed w2 = [9] /\ update w2 = whitelist /\
   set_visibility w2 9 true = update w1) /\
  set_visibility w1 9 false = whitelist /\
  set_visibility (update w1) 9 true = update w1.
Proof. repeat split; reflexivity. Qed.

Check C08_vis_query_latest : forall wl ops e,
  is_visible (s_vis (vis_exec (vis_init wl) ops)) e = spec_cur wl ops e.
Check C08_vis_despawn_records : forall wl ops e,
  In e (o_despawns (snd (vis_tick (vis_exec (vis_init wl) ops))))
  <-> despawn_record wl (spec wl ops e) = true.
Print Assumptions C08_vis_spec_cur.
Print Assumptions C08_vis_spec_prev.
Print Assumptions C08_vis_spec_pend.
Print Assumptions C08_vis_query_latest.
Print Assumptions C08_vis_state_classification.
Print Assumptions C08_vis_state_classification_live.
Print Assumptions C08_vis_state_classification_pending.
Print Assumptions C08_vis_hidden_is_skipped.
Print Assumptions C08_vis_despawn_records.
Print Assumptions C08_vis_despawn_records_live.
Print Assumptions C08_vis_despawn_records_complete.
Print Assumptions C08_vis_despawn_records_sound.
Print Assumptions C08_vis_pointwise.
Print Assumptions C08_vis_pointwise_functions.
Print Assumptions C08_vis_set_then_query.
